"""C05 — outcomes are deterministic: independent of hash order and run.
(a) type level: every type of the MC_Types universe is built several times independently (different member /
    field insertion orders, constructors and Type::from_str): equal instances must compare equal, hash alike,
    match each other, and answer every query like the specification (whose unions are sets; TLC checks
    FoldsOrderInsensitive on it).
(b) program level: programs are parsed and run K times in each of 3 processes (which meet the programs in
    different orders: the outcome must not depend on the work the process did before); the canonical outcomes
    (accepted?, static type, value / error, log) are consumed by the trace specification Trace_Det.tla whose
    write-once map rejects a second, different outcome for the same program."""
import json
import os
import subprocess
from vlib import common as C
from vlib import langsuite as L
from vlib import gensuite as G
from checks import c10


def lit(v):
    return {"k": "lit", "v": v}


def I(n):
    return lit({"k": "int", "v": n})


EXTRA = [
    {"id": "det-exhausted-union-default", "prog": [
        {"k": "set", "n": "x", "e": {"k": "iter", "e": {"k": "arr", "es": [I(1), lit({"k": "float", "v": 5}), lit({"k": "string", "cps": [115]})]}}},
        {"k": "tup", "es": [{"k": "call", "f": {"k": "var", "n": "x"}, "args": []}] * 5}]},
    {"id": "det-struct-union-param", "prog": [
        {"k": "fndecl", "n": "f", "ps": [{"n": "a", "ty": {"k": "multi", "ms": [
            {"k": "struct", "fs": [["a", {"k": "int"}], ["b", {"k": "int"}], ["c", {"k": "int"}]]}, {"k": "int"}, {"k": "string"}]}}],
         "r": {"k": "int"}, "body": [{"k": "match", "e": {"k": "var", "n": "a"}, "arms": [
             {"k": "ty", "n": "y", "ty": {"k": "int"}, "b": {"k": "ret", "e": {"k": "var", "n": "y"}}},
             {"k": "ty", "n": "y", "ty": {"k": "struct", "fs": [["a", {"k": "int"}]]}, "b": {"k": "ret", "e": {"k": "field", "e": {"k": "var", "n": "y"}, "n": "a"}}},
             {"k": "other", "b": {"k": "ret", "e": I(0)}}]}, {"k": "ret", "e": I(9)}]},
        {"k": "tup", "es": [
            {"k": "call", "f": {"k": "var", "n": "f"}, "args": [{"k": "struct", "fs": [["c", I(3)], ["a", I(1)], ["b", I(2)]]}]},
            {"k": "call", "f": {"k": "var", "n": "f"}, "args": [I(5)]},
            {"k": "call", "f": {"k": "var", "n": "f"}, "args": [lit({"k": "string", "cps": [97]})]},
            {"k": "var", "n": "f"}]}]},
]


def T(k, **kw):
    d = {"k": k}
    d.update(kw)
    return d


_ITER_ANY = T("fn", ps=[], r=T("tuple", es=[T("bool"), T("any")]))
_ITER_INT = T("fn", ps=[], r=T("tuple", es=[T("bool"), T("int")]))
_ITER_FLOAT = T("fn", ps=[], r=T("tuple", es=[T("bool"), T("float")]))
_V = lambda n: {"k": "var", "n": n}
_EMPTY_IT = {"k": "iter", "e": {"k": "arr", "es": []}}


def _union_operand(idx, body):
    """f := (it: ()->(bool, any) | int) -> any { <body using it> }; the operand is only partly an iterator: the
    checker must give the same verdict every time it is asked"""
    return {"id": "det-part-iterator-%d" % idx, "prog": [
        {"k": "fndecl", "n": "f", "ps": [{"n": "it", "ty": T("multi", ms=[_ITER_ANY, T("int")])}], "r": T("any"), "body": body},
        {"k": "call", "f": _V("f"), "args": [I(1)]}]}


_ID = {"k": "fn", "ps": [{"n": "a", "ty": T("any")}], "r": T("any"), "body": [{"k": "ret", "e": _V("a")}]}
_TRUE = {"k": "fn", "ps": [{"n": "a", "ty": T("any")}], "r": T("bool"), "body": [{"k": "ret", "e": lit({"k": "bool", "v": True})}]}
_ADD = {"k": "fn", "ps": [{"n": "a", "ty": T("any")}, {"n": "b", "ty": T("any")}], "r": T("any"), "body": [{"k": "ret", "e": _V("b")}]}
def _tuple_lengths(idx, elem, lens, index):
    """t.N on a union of tuple types of three or more different lengths: the bound is the shortest member, whichever
    order the members are met in (the verdict must be the same at every parse)"""
    ms = [T("tuple", es=[T(elem)] * n) for n in lens]
    return {"id": "det-tuple-index-union-lengths-%d" % idx, "prog": [
        {"k": "fndecl", "n": "f", "ps": [{"n": "t", "ty": T("multi", ms=ms)}], "r": T("any"),
         "body": [{"k": "ret", "e": {"k": "tupat", "e": _V("t"), "i": index}}]},
        I(1)]}


EXTRA += [_tuple_lengths(i, elem, lens, index) for i, (elem, lens, index) in enumerate([
    ("int", (2, 3, 4), 2), ("float", (2, 3, 4), 2), ("string", (2, 4, 5), 3), ("bool", (2, 4, 5), 2), ("int", (3, 5, 2, 4), 2),
    ("float", (2, 3, 4, 5, 6), 2), ("int", (2, 3, 4), 1), ("string", (3, 4, 5), 3), ("any", (2, 3, 4), 2), ("int", (4, 2, 3), 3)])]

EXTRA += [
    # reducers over an iterator whose element type is `!`: every accepted element type fits, the choice must not
    # depend on a set's iteration order (process-wide state: the outcome must be the same in every process)
    {"id": "det-sum-of-nothing", "prog": [{"k": "tup", "es": [{"k": "red", "op": "$+", "ek": "int", "it": _EMPTY_IT}]}]},
    {"id": "det-sum-of-nothing-named", "prog": [{"k": "set", "n": "e", "e": {"k": "arr", "es": []}},
                                               {"k": "tup", "es": [{"k": "red", "op": "$+", "ek": "int", "it": {"k": "iter", "e": _V("e")}},
                                                                   {"k": "red", "op": "$*", "ek": "int", "it": {"k": "iter", "e": _V("e")}}]}]},
    {"id": "det-sum-union-of-iterators", "prog": [
        {"k": "fndecl", "n": "f", "ps": [{"n": "it", "ty": T("multi", ms=[_ITER_INT, _ITER_FLOAT])}], "r": T("multi", ms=[T("int"), T("float")]),
         "body": [{"k": "ret", "e": {"k": "red", "op": "$+", "ek": "dyn", "it": _V("it")}}]},
        {"k": "tup", "es": [{"k": "call", "f": _V("f"), "args": [_EMPTY_IT]}]}]},
    # rejected programs whose error carries union / struct types (the error values of two parses must compare equal)
    {"id": "det-error-missing-return-union", "prog": [
        {"k": "fndecl", "n": "f", "ps": [{"n": "a", "ty": T("int")}], "r": T("multi", ms=[T("int"), T("float"), T("string")]), "body": []},
        I(0)]},
    {"id": "det-error-wrong-initialization-union", "prog": [
        {"k": "set", "n": "c", "e": {"k": "mut", "ty": T("multi", ms=[T("int"), T("float"), T("bool")]), "e": lit({"k": "string", "cps": [97]})}}, I(0)]},
    {"id": "det-error-missing-return-struct", "prog": [
        {"k": "fndecl", "n": "f", "ps": [], "r": T("struct", fs=[["a", T("int")], ["b", T("float")], ["c", T("string")]]), "body": []}, I(0)]},
    # a mapper with effects over an array whose run-time element type is a union, driven to exhaustion: the mapper is
    # applied to the elements, never to the value an exhausted source carries
    {"id": "det-map-union-exhausted", "prog": [
        {"k": "set", "n": "n", "e": {"k": "mut", "ty": T("int"), "e": I(0)}},
        {"k": "set", "n": "r", "e": {"k": "collect", "it": {"k": "map",
            "it": {"k": "iter", "e": {"k": "arr", "es": [I(1), lit({"k": "float", "v": 5})]}},
            "f": {"k": "fn", "ps": [{"n": "x", "ty": T("multi", ms=[T("int"), T("float")])}], "r": T("int"), "body": [
                {"k": "asg", "op": "+=", "l": _V("n"), "r": I(1)},
                {"k": "ifset", "n": "i", "ty": T("int"), "e": _V("x"), "t": {"k": "block", "body": [{"k": "ret", "e": {"k": "bin", "op": "/", "l": I(10), "r": _V("i")}}]}, "f": {"k": "none"}},
                {"k": "ret", "e": I(0)}]}}}},
        {"k": "tup", "es": [_V("r"), {"k": "deref", "e": _V("n")}]}]},
    {"id": "det-map-tfilter-union-exhausted", "prog": [
        {"k": "set", "n": "n", "e": {"k": "mut", "ty": T("int"), "e": I(0)}},
        {"k": "set", "n": "r", "e": {"k": "collect", "it": {"k": "map",
            "it": {"k": "tfilter", "it": {"k": "iter", "e": {"k": "arr", "es": [I(7), lit({"k": "string", "cps": [97]}), lit({"k": "float", "v": 5})]}}, "ty": T("multi", ms=[T("int"), T("float")])},
            "f": {"k": "fn", "ps": [{"n": "x", "ty": T("multi", ms=[T("int"), T("float")])}], "r": T("int"), "body": [
                {"k": "asg", "op": "+=", "l": _V("n"), "r": I(1)},
                {"k": "ifset", "n": "i", "ty": T("int"), "e": _V("x"), "t": {"k": "block", "body": [{"k": "ret", "e": {"k": "bin", "op": "%", "l": I(10), "r": _V("i")}}]}, "f": {"k": "none"}},
                {"k": "ret", "e": I(0)}]}}}},
        {"k": "tup", "es": [_V("r"), {"k": "deref", "e": _V("n")}]}]},
    # state that outlives a run inside one process: a run that FAILS deep inside nested calls, then programs that need
    # some call depth / many parser steps (with the processes meeting them in different orders, and one process asking
    # Type::from_str for a type first)
    {"id": "det-failing-deep-recursion", "prog": [
        {"k": "fndecl", "n": "f", "ps": [{"n": "n", "ty": T("int")}], "r": T("int"), "body": [
            {"k": "if", "c": {"k": "bin", "op": "==", "l": _V("n"), "r": I(0)}, "t": {"k": "block", "body": [{"k": "ret", "e": {"k": "bin", "op": "/", "l": I(1), "r": {"k": "hide", "ty": T("int"), "e": I(0)}}}]}, "f": {"k": "none"}},
            {"k": "ret", "e": {"k": "call", "f": _V("f"), "args": [{"k": "bin", "op": "-", "l": _V("n"), "r": I(1)}]}}]},
        {"k": "call", "f": _V("f"), "args": [I(40)]}]},
    {"id": "det-recursion-depth-60", "prog": [
        {"k": "fndecl", "n": "g", "ps": [{"n": "n", "ty": T("int")}], "r": T("int"), "body": [
            {"k": "if", "c": {"k": "bin", "op": "==", "l": _V("n"), "r": I(0)}, "t": {"k": "block", "body": [{"k": "ret", "e": I(0)}]}, "f": {"k": "none"}},
            {"k": "ret", "e": {"k": "bin", "op": "+", "l": I(1), "r": {"k": "call", "f": _V("g"), "args": [{"k": "bin", "op": "-", "l": _V("n"), "r": I(1)}]}}}]},
        {"k": "call", "f": _V("g"), "args": [I(60)]}]},
    {"id": "det-many-statements", "prog": [{"k": "set", "n": "v%d" % i, "e": {"k": "bin", "op": "+", "l": I(i), "r": I(1)}} for i in range(160)] + [_V("v159")]},
    # the value an exhausted iterator carries is unspecified, but it is made anew by every evaluation: a cell found in
    # it is a fresh cell, whatever earlier runs of this or of other programs did to theirs (the result below is read
    # from that cell before and after a write through it; it is not itself an exhausted (false, v) pair)
    {"id": "det-exhausted-placeholder-cell", "prog": [
        {"k": "set", "n": "it", "e": {"k": "iter", "e": {"k": "arr", "es": [{"k": "mut", "ty": T("int"), "e": I(1)}]}}},
        {"k": "call", "f": _V("it"), "args": []},
        {"k": "set", "n": "r", "e": {"k": "call", "f": _V("it"), "args": []}},
        {"k": "set", "n": "c", "e": {"k": "tupat", "e": _V("r"), "i": 1}},
        {"k": "set", "n": "before", "e": {"k": "deref", "e": _V("c")}},
        {"k": "asg", "op": "+=", "l": _V("c"), "r": I(5)},
        {"k": "tup", "es": [_V("before"), {"k": "deref", "e": _V("c")}]}]},
    {"id": "det-exhausted-placeholder-cell-in-tuple", "prog": [
        {"k": "set", "n": "it", "e": {"k": "iter", "e": {"k": "arr", "es": [{"k": "tup", "es": [{"k": "mut", "ty": T("int"), "e": I(1)}, I(2)]}]}}},
        {"k": "call", "f": _V("it"), "args": []},
        {"k": "set", "n": "r", "e": {"k": "call", "f": _V("it"), "args": []}},
        {"k": "set", "n": "c", "e": {"k": "tupat", "e": {"k": "tupat", "e": _V("r"), "i": 1}, "i": 0}},
        {"k": "set", "n": "before", "e": {"k": "deref", "e": _V("c")}},
        {"k": "asg", "op": "=", "l": _V("c"), "r": I(1000)},
        {"k": "tup", "es": [_V("before"), {"k": "deref", "e": _V("c")}]}]},
    # a callee whose static type is a union of functions over structs with the same field names and different field types:
    # whether the call is accepted is the same at every parse (the meet of the parameter types does not depend on the order
    # in which two field maps happen to be walked)
    {"id": "det-union-callee-struct-params", "prog": [
        {"k": "fndecl", "n": "g", "ps": [{"n": "s", "ty": T("struct", fs=[["v", T("int")], ["w", T("int")], ["z", T("int")]])}], "r": T("int"), "body": [{"k": "ret", "e": I(1)}]},
        {"k": "fndecl", "n": "h", "ps": [{"n": "s", "ty": T("struct", fs=[["v", T("multi", ms=[T("int"), T("float")])], ["w", T("int")], ["z", T("multi", ms=[T("int"), T("string")])]])}], "r": T("int"), "body": [{"k": "ret", "e": I(2)}]},
        {"k": "set", "n": "f", "e": {"k": "if", "c": {"k": "hide", "ty": T("bool"), "e": lit({"k": "bool", "v": True})}, "t": {"k": "block", "body": [_V("g")]}, "f": {"k": "block", "body": [_V("h")]}}},
        {"k": "call", "f": _V("f"), "args": [{"k": "struct", "fs": [["v", I(1)], ["w", I(2)], ["z", I(3)]]}]}]},
    _union_operand(1, [{"k": "for", "n": "x", "e": _V("it"), "b": {"k": "block", "body": []}}, {"k": "ret", "e": I(1)}]),
    _union_operand(2, [{"k": "ret", "e": {"k": "reduce", "it": _V("it"), "init": I(0), "f": _ADD}}]),
    _union_operand(3, [{"k": "ret", "e": {"k": "collect", "it": {"k": "map", "it": _V("it"), "f": _ID}}}]),
    _union_operand(4, [{"k": "ret", "e": {"k": "collect", "it": {"k": "filter", "it": _V("it"), "f": _TRUE}}}]),
    _union_operand(5, [{"k": "ret", "e": {"k": "part", "it": _V("it"), "f": _TRUE}}]),
    _union_operand(6, [{"k": "ret", "e": {"k": "collect", "it": {"k": "tfilter", "it": _V("it"), "ty": T("int")}}}]),
]


def differs_only_in_exhausted(a, b):
    """True when two outcomes differ only in the value carried by exhausted iterator results (false, v)."""
    def walk(x, y):
        if x == y:
            return True
        if isinstance(x, dict) and isinstance(y, dict):
            if x.get("k") == "tuple" and y.get("k") == "tuple":
                xe, ye = x.get("es", []), y.get("es", [])
                if len(xe) == 2 and len(ye) == 2 and xe[0] == ye[0] == {"k": "bool", "v": False}:
                    return True
            if x.keys() != y.keys():
                return False
            return all(walk(x[k], y[k]) for k in x)
        if isinstance(x, list) and isinstance(y, list) and len(x) == len(y):
            return all(walk(p, q) for p, q in zip(x, y))
        return False
    return walk(a, b)


def run(tier):
    chk = C.Check("C05", tier)
    # (a) type level
    out = C.workdir("types_out_c05")
    res = c10.tlc_types(tier, out)
    chk.add_tlc("MC_Types", res, "FoldsOrderInsensitive and the algebraic laws on the set-based specification")
    r = c10.replay(out, 6 if tier == "quick" else 12)
    for m in r["mismatches"]:
        if c10.KIND_TO_PROP.get(m["kind"]) == "C05":
            chk.violation({"kind": m["kind"], "type": m.get("type"), "query": m.get("query"), "what": m.get("what")}, m)
    # (b) program level
    k = 5 if tier == "quick" else 6
    n = 300 if tier == "quick" else 2500
    work = C.workdir("det")
    src = os.path.join(work, "in.ndjson")
    C.run_vh(["gen", str(n), src], env_extra={"VERIF_SEED": str(C.seed() * 1000 + 5)})
    # the suites' cases: iterator pipelines (c11), evaluation order incl. struct / tuple / array / call operands
    # with effects (c07), scopes, closures, modules and imports incl. files shared between programs (c06),
    # cells and aliases (c13); positive cases only
    # ... and the type-test suite (c12t: its `extra' programs apply one type test to values whose types differ only inside)
    every = {"c11": 8, "c07": 2, "c06": 1, "c13": 8, "c12t": 12} if tier == "quick" else {"c11": 4, "c07": 1, "c06": 1, "c13": 4, "c12t": 4}
    cases = os.path.join(work, "cases.ndjson")
    with open(cases, "w") as f:
        f.write(open(src).read())
        for suite in ("c11", "c07", "c06", "c13", "c12t"):
            r_s = L.run_suite(chk, suite, tier)
            path = os.path.join(os.path.dirname(r_s["events_path"]), suite + "_cases.ndjson")
            for i, line in enumerate(open(path)):
                if i % every[suite] == 0 or '"import' in line or '"c12t-extra' in line:
                    f.write(line)
        for e in EXTRA:
            f.write(json.dumps(e) + "\n")
    recs = os.path.join(work, "records.ndjson")
    with open(recs, "w") as f:
        # every process meets the programs in another order: an outcome must not depend on the work done before
        for proc, order in enumerate(("fwd", "rev", "shuf")):
            rc, txt = C.run_vh(["det", cases, str(k), "p%d-" % proc, order], timeout=3000)
            f.write(txt)
        # the hand-written cases once more in further fresh processes: state that is fixed per process (a lazily
        # built set, a cache) shows only between processes
        extra_cases = os.path.join(work, "extra_cases.ndjson")
        C.write_ndjson(extra_cases, EXTRA)
        for proc in range(3, 3 + (6 if tier == "quick" else 16)):
            rc, txt = C.run_vh(["det", extra_cases, "2", "p%d-" % proc, ("fwd", "rev", "fwd+fromstr")[proc % 3]], timeout=600)
            f.write(txt)
    records = C.read_ndjson(recs)
    # TLC does not need the structured copy
    slim = os.path.join(work, "records_slim.ndjson")
    C.write_ndjson(slim, [{"id": x["id"], "run": x["run"], "outcome": x["outcome"]} for x in records])
    res = C.run_tlc("Trace_Det", "Trace_Det.cfg", workers=1, dfs=True, timeout=3000, env_extra={"VERIF_IN": slim},
                    name="det_" + tier, heap="6g")
    if res.rc != 0 or "Model checking completed" not in res.out:
        raise C.ToolError("Trace_Det did not complete")
    chk.add_tlc("Trace_Det", res, "one state per recorded run; write-once map program -> outcome")
    first = {}
    for x in records:
        first.setdefault(x["id"], x)
    for b in res.printed("BAD"):
        rec = records[b["l"] - 1]
        ref = first[rec["id"]]
        cls = "exhausted-union-default" if differs_only_in_exhausted(ref["o"], rec["o"]) else "outcome-differs"
        chk.violation({"class": cls, "id": rec["id"] if cls != "exhausted-union-default" else "*"},
                      {"program_id": rec["id"], "run_a": ref["run"], "outcome_a": ref["o"], "run_b": rec["run"], "outcome_b": rec["o"]})
    cov = chk.cov
    progs = len(first)
    cov["traces_validated_against_impl"] = len(records) + r["determinism_checks"]
    cov["evaluations"] = len(records) + r["evaluations"]
    cov["distinct_nontrivial"] = progs + r["universe"]
    cov["rule"] = ("(a) %d types x %d independently built instances each: equality, hashing, mutual matches, all queries; "
                   "(b) %d programs (generated + cases of the iterator, evaluation-order, scope/module/import and cell suites + hand-written union/struct cases) x %d runs x 3 processes, each meeting the programs in another order (forwards, backwards, shuffled); "
                   "distinct = programs / types; non-trivial = accepted by the checker" % (r["universe"], r["instances_per_type"], progs, k))
    cov["runs_recorded"] = len(records)
    chk.sample({"program": EXTRA[0]["id"], "note": "five pulls of [1, 2.5, \"s\"]~ in every run"})
    chk.sample({"type_level": r["samples"][0]})
    chk.assumptions += ["fresh HashMap/HashSet instances get fresh random keys (std RandomState), so repetitions vary the iteration order",
                        "a 2-way order dependence escapes K*3 repetitions with probability 2^-(3K-1) per program"]
    # (c) imports over a changing file tree: the outcome of a parse is a function of the files as they are now, whatever
    # was parsed before in the same process (MC_Imports.tla, every behaviour replayed in one process)
    from vlib import importswalk
    iw = importswalk.run(chk, tier)
    for m in iw["mismatches"]:
        if m["kind"] == "outcome":
            chk.violation({"kind": "imports-walk-outcome", "text": m.get("text"), "history": " ; ".join(m.get("history", []))}, m)
    # (d) parsed programs with a history: every execution of a program gives the same answer whatever was parsed and run
    # before in the process (MC_Codes.tla, every behaviour replayed in one process)
    from vlib import codeswalk
    codeswalk.run(chk, tier)
    return chk.finish()
