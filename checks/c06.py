"""C06 — lexical scoping and capture: MC_C06.tla (ScopeDiscipline: the machine computes the documented
result for every shadowing / capture / recursion / iterator-local-name / module case) + replay."""
from checks._suitecheck import run_one


def run(tier):
    return run_one("C06", "c06", tier,
        "shadowing grid (scoping construct x kind of inner declaration x outer binding hidden/constant), capture and "
        "re-declaration, closures returned/passed, recursion by declared name through every call path and iterator "
        "operator, iterator bodies declaring the consumer's names x every consumer, modules; distinct by source text",
        [])
