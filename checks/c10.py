"""C10 — the subtype relation obeys its laws and is sound for values.
TLC checks the laws on spec/Types.tla over the universe built in MC_Types.tla and writes the
specification's answers; the harness replays every pair / join / meet / value against
simplesl::variable::Type built through both constructors and Type::from_str."""
import json
import os
from vlib import common as C


def tlc_types(tier, out):
    thorough = tier == "thorough"
    cfg = "MC_Types_thorough.cfg" if thorough else "MC_Types.cfg"
    res = C.run_tlc("MC_Types", cfg, workers=12 if thorough else 8,
                    timeout=3600 if thorough else 600, env_extra={"VERIF_OUT": out},
                    heap="8g" if thorough else "3g", name="types_" + tier)
    C.require_tlc_ok(res, "MC_Types (laws of matches/join/meet, value soundness, fold order)")
    return res


def replay(out, reps):
    rc, txt = C.run_vh(["types", out, str(reps)])
    return json.loads(txt)


KIND_TO_PROP = {"matches": "C10", "join": "C10", "meet": "C10", "value": "C10", "tag": "C10",
                "construct": "C15", "parse": "C15", "eq": "C05", "query": "C05"}


def run(tier):
    chk = C.Check("C10", tier)
    out = C.workdir("types_out")
    res = tlc_types(tier, out)
    chk.add_tlc("MC_Types", res, "invariants: reflexive, transitive, never least, any greatest, "
                "variance, union laws, meet lower bound, value soundness, folds order-insensitive")
    r = replay(out, 4 if tier == "quick" else 8)
    cov = chk.cov
    cov["traces_validated_against_impl"] = r["pairs_checked"] + r["joinmeet_checked"] + r["value_type_checked"]
    cov["evaluations"] = r["evaluations"]
    cov["distinct_nontrivial"] = r["universe"] * r["universe"]
    cov["rule"] = ("every ordered pair of the %d-type universe (distinct by construction; non-trivial = "
                   "both types built by constructors and by Type::from_str) compared with the "
                   "specification's Matches; joins/meets for all pairs of representatives; "
                   "value/type pairs by run-time tag" % r["universe"])
    cov["exhaustive"] = True
    cov["universe_types"] = r["universe"]
    cov["mismatch_counts"] = r["mismatch_counts"]
    for s in r["samples"]:
        chk.sample(s)
    for m in r["mismatches"]:
        if KIND_TO_PROP.get(m["kind"]) != "C10":
            continue  # reported by the property it belongs to (C05 / C15)
        sig = {"kind": m["kind"], "a": m.get("a", m.get("value")), "b": m.get("b", m.get("type"))}
        chk.violation(sig, m)
    chk.assumptions += ["TLC/SANY and the CommunityModules are correct",
                        "the harness' wire<->Type conversion (harness/src/wire.rs) is faithful",
                        "universe bounded: depth <= 2 with reduced alphabets at depth 2 (MC_Types.tla)"]
    return chk.finish()
