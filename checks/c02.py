"""C02 — accepted programs do not go wrong: the outcome of every run must be an outcome of the specification's
status machine (value or one of six documented errors); a panic has no action in the specification."""
from checks._soundcheck import run_sound


def run(tier):
    return run_sound("C02", tier,
        "same runs as C01; a run ends in value / documented error / panic (violation) / budget exhausted (inconclusive); "
        "every function value the programs define is called with boundary inhabitants of its parameter types",
        ["fuel / call-depth budgets turn non-termination into 'inconclusive'"])
