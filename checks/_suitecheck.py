"""Template for properties decided by one Lang suite (C07, C12, C13, ...)."""
from vlib import common as C
from vlib import langsuite as L


def run_one(prop, suite, tier, rule, assumptions):
    chk = C.Check(prop, tier)
    r = L.run_suite(chk, suite, tier)
    bad, n = L.validate_events(chk, r["events_path"], suite)
    L.fill_coverage(chk, [r], n, rule)
    chk.cov["exhaustive"] = True
    others = L.report(chk, prop, [r], bad)
    chk.cov["violations_of_other_properties_seen"] = others
    chk.assumptions += assumptions + [
        "TLC/SANY/CommunityModules are correct",
        "the AST->source renderer (harness/src/render.rs) is faithful (every sub-expression parenthesised)",
        "machine numbers stay below 2^30 (larger intermediate values are classified inconclusive)"]
    return chk.finish()
