"""Template for properties decided by one Lang suite (C07, C12, C13, ...)."""
import json
import os
from vlib import common as C
from vlib import langsuite as L


def run_one(prop, suite, tier, rule, assumptions, extra_thorough=(), gen=0, extra_always=(), twin_suites=(), claim=(), extra_stage=None, ctx=True):
    """extra_thorough: further suites run in the thorough tier; gen: number of generated programs whose
    result-level disagreements attributed to `prop` are reported too (thorough tier; 250 in the quick tier)."""
    from vlib import gensuite as G
    chk = C.Check(prop, tier)
    results = [L.run_suite(chk, suite, tier)]
    bad, n = L.validate_events(chk, results[0]["events_path"], suite)
    if ctx:
        rc = L.run_ctx(chk, suite, tier)
        b2, n2 = L.validate_events(chk, rc["events_path"], suite + "_ctx")
        chk.cov["context_twins"] = {"cases_incl_constant_and_repl_twins": rc["cases"], "outcomes": rc["counts"]}
        results.append(rc)
        bad += b2
        n += n2
    for s in extra_always:
        r = L.run_suite(chk, s, tier)
        b2, n2 = L.validate_events(chk, r["events_path"], s)
        results.append(r)
        bad += b2
        n += n2
    if tier == "thorough":
        for s in extra_thorough:
            r = L.run_suite(chk, s, tier)
            b2, n2 = L.validate_events(chk, r["events_path"], s)
            results.append(r)
            bad += b2
            n += n2
        if gen:
            results.append(G.run_gen(chk, tier, gen, salt=sum(map(ord, prop))))
    elif gen:
        # quick tier: a small batch of generated programs (own salt per property, so the four checks that do this
        # look at different programs); only disagreements attributed to `prop` are reported here
        results.append(G.run_gen(chk, tier, 250, salt=sum(map(ord, prop))))
    # constant twins of OTHER suites' cases (C04): the case with its hidden operands visible to the folder must
    # behave like the case itself; reported here when the twin disagrees with the specification and the case does not
    n_twins = 0
    for s in twin_suites:
        r = L.run_suite(chk, s, tier)
        broken = {m.get("id") for m in r["mismatches"] if not str(m.get("id", "")).endswith("#const")}
        broken_twins = {str(m.get("id", ""))[:-6] for m in r["mismatches"] if str(m.get("id", "")).endswith("#const")}
        n_twins += r["cases"]
        # which cases have a constant twin at all (hidden operands, not negative / grouped / notwin: harness/src/lang.rs)
        with_twin = set()
        cases_path = os.path.join(os.path.dirname(r["events_path"]), s + "_cases.ndjson")
        if os.path.exists(cases_path):
            for line in open(cases_path):
                if '"hide"' in line and '"negative":true' not in line.replace(" ", "") and '"notwin":true' not in line.replace(" ", ""):
                    try:
                        with_twin.add(json.loads(line)["id"])
                    except ValueError:
                        pass
        for m in r["mismatches"]:
            cid = str(m.get("id", ""))
            if cid.endswith("#const") and cid[:-6] not in broken:
                chk.violation({"kind": "const-twin-diverges", "suite": s, "what": m.get("what", "")[:200],
                               "program": m.get("program", "")}, m)
            elif not cid.endswith("#const") and "#" not in cid and cid in with_twin and cid not in broken_twins \
                    and m.get("kind") in ("value", "log", "outcome", "watch", "panic", "tag"):
                # the converse: the program with its constants HIDDEN departs from the specification while the same
                # program with the constants visible does not - the two twins behave differently
                chk.violation({"kind": "hidden-twin-diverges", "suite": s, "what": m.get("what", "")[:200],
                               "program": m.get("program", "")}, m)
    # cases of another suite that also decide this property (claim = ((suite, (id substrings ...)), ...))
    for s, pats in claim:
        r = L.run_suite(chk, s, tier)
        n_claimed = 0
        for m in r["mismatches"]:
            if any(p in str(m.get("id", "")) for p in pats):
                n_claimed += 1
                chk.violation({"kind": "claimed:" + m["kind"], "suite": s, "what": m.get("what", "")[:200],
                               "program": m.get("program", "")}, m)
        chk.cov.setdefault("claimed_cases", {})[s] = {"patterns": list(pats), "cases_run": r["cases"]}
    if extra_stage:
        extra_stage(chk, tier)
    if twin_suites:
        chk.cov["const_twin_suites"] = {"suites": list(twin_suites), "cases_incl_twins": n_twins}
    L.fill_coverage(chk, results, n, rule)
    chk.cov["exhaustive"] = True
    others = L.report(chk, prop, results, bad, attribute=G.attribute)
    chk.cov["violations_of_other_properties_seen"] = others
    chk.assumptions += assumptions + [
        "TLC/SANY/CommunityModules are correct",
        "the AST->source renderer (harness/src/render.rs) is faithful (every sub-expression parenthesised)",
        "machine numbers stay below 2^30 (larger intermediate values are classified inconclusive)"]
    return chk.finish()
