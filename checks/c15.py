"""C15 — types survive printing and re-parsing.
spec/Print.tla defines the texts of a type (PrintType / PrintSet over all orderings of union
members and struct fields) and a transcription of the type grammar (ParseTree / Denote); TLC checks
ParseType(PrintType(T, o)) = T, Unambiguous, ParensNeeded, the type filter's context and the
membership test on MC_Print's universe and writes every type with all its texts.  The harness
(vh print types) builds each type with the constructors (several insertion orders) and from every
text, requires everything the implementation prints to be one of the specification's texts and to
parse back to the type, parses EVERY text of PrintSet(T), and runs `pool~ ? T $]` (the internal
re-parse of type_filter.rs) against the specification's Matches on run-time tags.  Near misses
(texts with one token dropped / replaced) check that the parser model and the pest grammar agree on
what is rejected, what is accepted as a prefix, and which type that prefix denotes.
Other direction: seeded random deeper types are printed by the implementation and every record is
validated by TLC (MC_PrintTrace: the token sequence is in PrintSet(T) and parses to T)."""
import json
import os
import re
from vlib import common as C


def run(tier):
    thorough = tier == "thorough"
    chk = C.Check("C15", tier)
    out = C.workdir("print_types_" + tier)
    # ---- the model: laws + emission
    res = C.run_tlc("MC_Print", "MC_Print_thorough.cfg" if thorough else "MC_Print.cfg", workers=8 if thorough else 4,
                    timeout=3000 if thorough else 600, env_extra={"VERIF_OUT": out}, name="print_" + tier)
    C.require_tlc_ok(res, "MC_Print (round trip, unambiguous, parentheses needed, filter context, membership)")
    chk.add_tlc("MC_Print", res, "invariants: RoundTrip (every ordering parses, whole text, to the same tree and "
                "to T), Unambiguous (global on the depth-2 universe + pairwise on the look-alikes), ParensNeeded, "
                "FilterContext, MembershipAgrees, |PrintSet| = |Orderings| = OrderingCount, ParsePrintsBack on near misses")
    m = re.search(r'<<"PRINT_UNIVERSE", (\d+), (\d+), (\d+), (\d+), (\d+)>>', res.out)
    if not m:
        raise C.ToolError("MC_Print did not report its universe")
    # ---- spec -> impl
    reps, ftexts = (8, 3) if thorough else (4, 2)
    rc, txt = C.run_vh(["print", "types", out, str(reps), str(ftexts)], timeout=3000)
    r = json.loads(txt)
    if "error" in r:
        raise C.ToolError("vh print types: " + r["error"])
    def size(mm):
        return len(str(mm.get("text") or mm.get("printed") or mm.get("program") or mm.get("type") or ""))
    for mm in sorted(r["mismatches"], key=size):   # simplest failing text first
        sig = {"kind": mm["kind"], "type": mm.get("type"),
               "text": mm.get("text", mm.get("printed", mm.get("program")))}
        chk.violation(sig, mm)
    # ---- impl -> spec: random deeper types, validated by TLC
    n, depth = (9000, 6) if thorough else (500, 5)
    trace = os.path.join(out, "gen_types.ndjson")
    rc, txt = C.run_vh(["print", "gentypes", str(n), str(depth), trace])
    g = json.loads(txt)
    for mm in g["mismatches"]:
        chk.violation({"kind": "gen_" + mm["kind"], "type": mm.get("type"), "text": mm.get("printed")}, mm)
    tres = C.run_tlc("MC_PrintTrace", "MC_PrintTrace.cfg", workers=8 if thorough else 4, timeout=1800, heap="6g" if thorough else "3g",
                     env_extra={"VERIF_IN": trace}, name="print_trace_" + tier)
    C.require_tlc_ok(tres, "MC_PrintTrace (validation of printed random types)")
    chk.add_tlc("MC_PrintTrace", tres, "every recorded text is in PrintSet(T) and parses to T")
    seen = re.search(r'<<"TRACE_RECORDS", (\d+)>>', tres.out)
    if not seen or int(seen.group(1)) != g["records"]:
        raise C.ToolError("MC_PrintTrace did not see every record")
    rejected = sorted(int(x) for x in re.findall(r'<<"REJECT", (\d+)>>', tres.out))
    if rejected:
        recs = C.read_ndjson(trace)
        for i in rejected:
            rec = recs[i - 1]
            chk.violation({"kind": "trace_reject", "type": json.dumps(rec["t"], sort_keys=True), "text": rec["printed"]},
                          {"what": "the text the implementation printed is not in the specification's PrintSet(T) "
                                   "or does not parse to T", "record": rec})
    cov = chk.cov
    cov["traces_validated_against_impl"] = (r["parsed_texts"] + r["printed_instances"] + r["filter_programs"]
                                            + r["near_misses"] + g["records"])
    cov["evaluations"] = r["evaluations"] + 2 * g["records"]
    cov["distinct_nontrivial"] = r["texts"] - 7 + g["distinct_types"]
    cov["rule"] = ("distinct (type, ordering) texts of the universe, each parsed with Type::from_str (the 7 leaf "
                   "types excluded), plus distinct random types of the trace run")
    cov["exhaustive"] = True
    cov["universe_types"] = r["universe"]
    cov["texts"] = r["texts"]
    cov["printed_instances"] = r["printed_instances"]
    cov["distinct_texts_printed_by_impl"] = r["distinct_texts_printed_by_impl"]
    cov["types_with_several_texts"] = r["types_with_several_texts"]
    cov["of_which_impl_showed_several"] = r["of_which_impl_showed_several"]
    cov["filter_programs"] = r["filter_programs"]
    cov["near_misses"] = {"texts": r["near_misses"], "accepted_as_prefix_by_both": r["near_misses_accepted_as_prefix"]}
    cov["random_types"] = {"generated": g["generated"], "distinct": g["distinct_types"], "records": g["records"],
                           "max_nesting": g["max_nesting"], "rejected_by_tlc": len(rejected)}
    cov["mismatch_counts"] = r["mismatch_counts"]
    if r["filter_skipped_no_default"]:
        chk.inconclusive("type filter not run: Variable::of_type(T) has no value (uninhabited component; "
                         "`it ? !` panics - C02, not a text question)", r["filter_skipped_no_default"])
    for s in r["samples"]:
        chk.sample(s)
    chk.assumptions += [
        "TLC/SANY and the CommunityModules are correct",
        "the harness' wire<->Type conversion (harness/src/wire.rs), its tokenizer and its spacing policy "
        "(a blank after `,`, `:` and `mut`) are faithful; the parser model works on tokens, so lexical "
        "questions (key words as prefixes of identifiers) are outside the model",
        "universe bounded: MC_Types' depth-2 universe + look-alikes + the closure of 14 seeds under 11 one-hole "
        "contexts applied %d times; tuples have >= 2 components, unions are what `|` builds (flat, >= 2 "
        "members, no any / never member), field names a, b, c" % (3 if thorough else 2),
        "Type::from_str accepts a prefix; trailing text is outside the property (texts are what types print as); "
        "the model additionally requires the whole text to be consumed",
        "type filter: members decided by Types!Matches on run-time tags over MC_Types' value pool; types without "
        "a default value are skipped there (counted as inconclusive)",
    ]
    return chk.finish()
