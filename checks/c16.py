"""C16 — parsed code and values are safe to share between threads.

Specification: spec/Conc.tla (threads x cells; the lock steps of `c op= v`, `*c` and of
rendering a cell; atomic reference machine).  TLC checks MutualExclusion, Linearizable,
NoLostUpdate, IncrementsPermutation, OutcomeIsSerial (atomicity), IndependentRunsEqualSequential,
FailureLeavesContent, deadlock freedom and (FairSpec) termination over bounded program spaces,
and shows that the two forbidden alternatives (read guard held while rendering; read and write
under separate guards) break them.

Binding:
  spec -> impl  every case of the program spaces is run on OS threads sharing the parsed Code /
                Function / cells (`vh conc replay`): the observed outcome must be one the atomic
                reference allows; every serial order TLC enumerated is forced with gates at the
                library's lock points (`vh conc forced`) and must give exactly its outcome.
  impl -> spec  stress histories with seeded schedule perturbation (`vh conc record`): calls with
                [start, end] sequence numbers + the under-lock Write events are validated by
                spec/Trace_Conc.tla; the calls alone (nothing from the hooks) by
                spec/Trace_ConcLin.tla (linearization search, increments form a permutation,
                additions are not lost).
  plus          runs that share no cell equal the sequential run (`vh conc solo`), the F17
                scenario under a watchdog (`vh conc render`).
"""
import json
import os
import re

from vlib import common as C

INVS = ("TypeOK, MutualExclusion, Linearizable, LinearizableStep, WritesOnlyUnderLock, ReturnsOwnUpdate, "
        "NoLostUpdate, IncrementsPermutation, OutcomeIsSerial, IndependentRunsEqualSequential, "
        "FailureLeavesContent, QuiescentAtEnd, deadlock check")


TAG = {"tier": "quick"}   # work directories and TLC run names are per tier (tiers may run side by side)


def tlc(chk, cfg, out, workers, note, timeout=1500, expect=None):
    """expect: None = must hold; 'deadlock' / 'invariant' = the run must FAIL that way
    (the forbidden alternative really breaks the property, so the property is not vacuous)."""
    res = C.run_tlc("MC_Conc", "MC_Conc_%s.cfg" % cfg, workers=workers, timeout=timeout,
                    env_extra={"VERIF_OUT": out}, deadlock=True, name="conc_%s_%s" % (TAG["tier"], cfg))
    chk.add_tlc("MC_Conc_" + cfg, res, note)
    if expect is None:
        C.require_tlc_ok(res, "MC_Conc_%s (%s)" % (cfg, note))
    elif expect == "deadlock":
        if "Deadlock reached" not in res.out:
            raise C.ToolError("MC_Conc_%s: the nested-read alternative no longer deadlocks in the model" % cfg)
    elif expect == "invariant":
        if not re.search(r"Invariant (Linearizable|NoLostUpdate|IncrementsPermutation|OutcomeIsSerial|OutcomeInSerialSet) is violated", res.out):
            raise C.ToolError("MC_Conc_%s: the split-guards alternative no longer loses updates in the model" % cfg)
    return res


ACTIONS = {"EvalTarget", "EvalValue", "ReqWrite", "AcqWrite", "Update", "Release", "SplitAcqRead", "SplitRelRead",
           "AcqRead", "RelRead", "RenderContent", "Unwind", "Terminated"}


def vacuity(chk, out):
    """-coverage: every action of Conc is taken somewhere in the suite, and in the configurations
    of the specified behaviour exactly the actions of the forbidden alternatives are dead."""
    live = set()
    dead_in_spec = set()
    for cfg in ("cells", "render", "f17_nested_nopref", "split"):
        res = C.run_tlc("MC_Conc", "MC_Conc_%s.cfg" % cfg, workers=4, timeout=1500, env_extra={"VERIF_OUT": out},
                        deadlock=True, coverage=True, name="conc_%s_cov_%s" % (TAG["tier"], cfg))
        chk.add_tlc("MC_Conc_%s (coverage)" % cfg, res, "vacuity: which actions are taken")
        seen = {}
        for m in re.finditer(r"^<(\w+) line \d+[^>]*>: (\d+):(\d+)$", res.out, re.M):
            seen[m.group(1)] = seen.get(m.group(1), 0) + int(m.group(3))
        if not (ACTIONS - {"Terminated"}) <= set(seen):
            raise C.ToolError("coverage output of MC_Conc_%s lists only %s" % (cfg, sorted(seen)))
        live |= {a for a, n in seen.items() if n > 0}
        if cfg == "render":
            dead_in_spec = {a for a in ACTIONS if seen.get(a, 0) == 0}
    if live & ACTIONS != ACTIONS:
        raise C.ToolError("vacuity: actions never taken in any configuration: %s" % sorted(ACTIONS - live))
    if dead_in_spec != {"SplitAcqRead", "SplitRelRead", "Unwind"}:
        raise C.ToolError("vacuity: dead actions in the render configuration: %s" % sorted(dead_in_spec))
    chk.cov["vacuity"] = {"actions_live_in_suite": sorted(live & ACTIONS),
                          "dead_in_specified_behaviour": sorted(dead_in_spec)}


def vh_json(args, timeout=1800):
    rc, txt = C.run_vh(["conc"] + [str(a) for a in args], timeout=timeout)
    try:
        return json.loads(txt)
    except ValueError:
        raise C.ToolError("vh conc %s printed no JSON: %r" % (args[0], txt[-300:]))


def shares_cell(case):
    """non-trivial replay case: at least two threads name the same cell"""
    seen = {}
    for t, prog in enumerate(case["progs"]):
        for op in prog:
            cells = {op["c"]}
            if op.get("rhs", {}).get("k") == "cell":
                cells.add(op["rhs"]["c"])
            for c in cells:
                seen.setdefault(c, set()).add(t)
    return any(len(ts) > 1 for ts in seen.values())


def report_deadlock(chk, where, info):
    chk.violation({"kind": "deadlock", "where": where},
                  {"what": "threads did not finish before the watchdog fired (reported as deadlock)",
                   "where": where, "detail": info})


def replay_and_force(chk, out, cfg_name, reps, stride, stats):
    path = os.path.join(out, "conc_cases_%s.ndjson" % cfg_name)
    if not os.path.exists(path):
        raise C.ToolError("TLC did not write " + path)
    cases = C.read_ndjson(path)
    stats["cases"] += len(cases)
    stats["nontrivial_cases"] += sum(1 for c in cases if shares_cell(c))
    if cfg_name == "chain":
        reps = max(reps, 4000)    # few cases; the window of two cell locks held at once is narrow
    r = vh_json(["replay", path, reps])
    stats["replay_runs"] += r["runs"]
    stats["outcomes_observed"] += r["outcomes_observed"]
    stats["outcomes_allowed"] += r["outcomes_allowed"]
    stats["cases_with_several_outcomes"] += r["cases_with_several_outcomes_observed"]
    stats["panics"] += r["panics"]
    if not stats["sampled_replay"]:
        for s in r["samples"][:1]:
            stats["sampled_replay"] = 1
            chk.sample({"kind": "replayed case (spec -> impl)", **s})
    if r["deadlock"] is not None:
        report_deadlock(chk, "replay:" + cfg_name, r["deadlock"])
        return False
    for m in r["mismatches"]:
        sig = {"kind": m["kind"], "config": m.get("config"), "texts": m.get("texts", m.get("text")),
               "route": m.get("route")}
        chk.violation(sig, m)
    if cases and cases[0].get("orders") and not cases[0].get("chained"):
        f = vh_json(["forced", path, stride])
        stats["forced_orders"] += f["runs"]
        if not stats["sampled_forced"]:
            for s in f["samples"][:1]:
                stats["sampled_forced"] = 1
                chk.sample({"kind": "forced serial order (spec -> impl)", **s})
        if f["deadlock"] is not None:
            report_deadlock(chk, "forced:" + cfg_name, f["deadlock"])
            return False
        for m in f["mismatches"]:
            chk.violation({"kind": m["kind"], "config": m.get("config"), "order": m.get("order"),
                           "progs": json.dumps(m.get("progs"), sort_keys=True)}, m)
    return True


def history_lines(path, h):
    """lines of history h in conc_trace.ndjson with their 1-based line numbers"""
    res = []
    with open(path) as f:
        for i, line in enumerate(f, 1):
            if '"h":%d,' % h in line or '"h":%d}' % h in line:
                res.append((i, json.loads(line)))
    return res


def diagnose(module, cfg, path, h):
    """Re-run TLC on one rejected history with deadlock checking: the stuck state is where the
    specification stopped accepting the recorded events."""
    res = C.run_tlc(module, cfg.replace(".cfg", "_diag.cfg"), workers=1, timeout=600, dfs=True, deadlock=True,
                    env_extra={"VERIF_IN": path, "VERIF_ONLY": str(h)}, name="conc_%s_diag" % TAG["tier"])
    m = re.findall(r"^/\\ l = (\d+)$", res.out, re.M)
    state = res.out[res.out.rfind("State "):][:3000] if "State " in res.out else res.out[-2000:]
    return (int(m[-1]) if m else None), state


def validate_trace(chk, path, stats):
    res = C.run_tlc("Trace_Conc", "Trace_Conc.cfg", workers=1, timeout=1500, dfs=True,
                    env_extra={"VERIF_IN": path}, name="conc_%s_trace" % TAG["tier"])
    chk.add_tlc("Trace_Conc", res, "recorded calls + under-lock Write events, one state per event")
    ok = {int(x) for x in re.findall(r'^<<"HIST_OK", (\d+)>>$', res.out, re.M)}
    m = re.search(r'^<<"TRACE", (\d+), (\d+), (\d+)>>$', res.out, re.M)
    if not m:
        C.require_tlc_ok(res, "Trace_Conc")
        raise C.ToolError("Trace_Conc printed no TRACE line")
    distinct, lines, hcount = map(int, m.groups())
    stats["trace_events"] += lines
    stats["trace_histories_accepted"] += len(ok)
    rejected = [h for h in range(1, hcount + 1) if h not in ok]
    if not rejected and distinct != lines:
        raise C.ToolError("Trace_Conc: all histories accepted but %d states for %d lines" % (distinct, lines))
    return rejected


def report_trace_rejections(chk, path, rejected):
    for h in rejected[:3]:
        l, state = diagnose("Trace_Conc", "Trace_Conc.cfg", path, h)
        lines = history_lines(path, h)
        head = lines[0][1] if lines else {}
        bad = next((e for (i, e) in lines if i == l), None)
        around = [e for (i, e) in lines if l is not None and l - 6 <= i <= l + 2]
        sig = {"kind": "trace", "history_kind": head.get("kind"),
               "event": (bad or {}).get("ev"), "op": (bad or {}).get("op")}
        chk.violation(sig, {"what": "the specification does not accept the recorded event",
                            "history": head, "first_unaccepted_event": bad, "events_before_and_after": around,
                            "specification_state_before_it": state,
                            "replay": "VERIF_IN=%s VERIF_ONLY=%d tlc Trace_Conc (deadlock check on)" % (path, h)})
    for h in rejected[3:]:
        chk.violation({"kind": "trace", "history": h}, {"history": h, "trace_file": path})


def validate_lin(chk, path, stats):
    res = C.run_tlc("Trace_ConcLin", "Trace_ConcLin.cfg", workers=1, timeout=1500, dfs=True,
                    env_extra={"VERIF_IN": path}, name="conc_%s_lin" % TAG["tier"])
    chk.add_tlc("Trace_ConcLin", res, "hook-independent: linearization search + aggregate laws on the calls only")
    ok = {int(x) for x in re.findall(r'^<<"LIN_OK", (\d+)>>$', res.out, re.M)}
    m = re.search(r'^<<"LIN", (\d+), (\d+)>>$', res.out, re.M)
    if not m:
        C.require_tlc_ok(res, "Trace_ConcLin")
        raise C.ToolError("Trace_ConcLin printed no LIN line")
    hist = C.read_ndjson(path)
    stats["lin_histories_accepted"] += len(ok)
    stats["lin_histories_searched"] += sum(1 for x in hist if x["search"])
    rejected = [x for x in hist if x["h"] not in ok]
    for x in rejected[:5]:
        calls = x["calls"]
        sig = {"kind": "lin", "history_kind": x["kind"], "searched": x["search"]}
        chk.violation(sig, {"what": ("no linearization of the calls explains the returned values and the final "
                                     "contents" if x["search"] else
                                     "the aggregate law of the history kind does not hold (increments: returned "
                                     "values are not a permutation / wrong final value; additive: lost update)"),
                            "history": {k: x[k] for k in ("h", "kind", "init", "final")},
                            "calls": calls[:60], "number_of_calls": len(calls),
                            "replay": "VERIF_IN=%s VERIF_ONLY=%d tlc Trace_ConcLin" % (path, x["h"])})
    return rejected


def corrupt_selftest(chk, path, out, stats, which):
    """The trace specification must reject a corrupted known-good trace (DESIGN 4.4a)."""
    rows = C.read_ndjson(path)
    writes = [i for i, r in enumerate(rows) if r["ev"] == "write" and r["new"].get("k") == "int"]
    if len(writes) < 4:
        return
    for kind in which:
        mut = [dict(r) for r in rows]
        if kind == "flip-new":
            i = writes[len(writes) // 2]
            mut[i]["new"] = {"k": "int", "v": mut[i]["new"]["v"] + 1}
            h_bad = mut[i]["h"]
        elif kind == "drop-write":
            i = writes[len(writes) // 3]
            h_bad = mut[i]["h"]
            del mut[i]
            # keep the index in the headers consistent
            at = 0
            for j, r in enumerate(mut, 1):
                if r["ev"] == "hist":
                    r["at"] = j
        elif kind == "stale-old":
            i = next((w for w in writes if rows[w]["old"] != rows[w]["new"] and w + 1 < len(rows)), writes[0])
            mut[i]["old"] = {"k": "int", "v": mut[i]["old"]["v"] - 1}
            h_bad = mut[i]["h"]
        else:
            continue
        p = os.path.join(out, "corrupt_%s.ndjson" % kind)
        C.write_ndjson(p, mut)
        res = C.run_tlc("Trace_Conc", "Trace_Conc.cfg", workers=1, timeout=900, dfs=True,
                        env_extra={"VERIF_IN": p}, name="conc_%s_corrupt" % TAG["tier"])
        ok = {int(x) for x in re.findall(r'^<<"HIST_OK", (\d+)>>$', res.out, re.M)}
        if h_bad in ok:
            raise C.ToolError("self-test: Trace_Conc accepted a trace corrupted by '%s'" % kind)
        stats["corrupted_traces_rejected"] += 1


def run(tier):
    chk = C.Check("C16", tier)
    thorough = tier == "thorough"
    TAG["tier"] = tier
    out = C.workdir("conc_out_" + tier)
    w = 6 if thorough else 4
    stats = {k: 0 for k in ("cases", "nontrivial_cases", "replay_runs", "forced_orders", "outcomes_observed",
                            "outcomes_allowed", "cases_with_several_outcomes", "panics", "trace_events",
                            "trace_histories_accepted", "lin_histories_accepted", "lin_histories_searched",
                            "corrupted_traces_rejected", "sampled_replay", "sampled_forced")}

    # ---- 1. the specification satisfies the property (and its forbidden alternatives do not)
    emit = []
    if thorough:
        tlc(chk, "ops_thorough", out, w, "2 threads x 1 cell x <=2 ops, all 12 operators incl. failing operands, *c; VIEW hides hist; " + INVS, timeout=3000)
        tlc(chk, "cells_thorough", out, w, "2 threads x 2 cells x <=2 ops (shared and unshared cells); " + INVS)
        tlc(chk, "chain", out, w, "2 threads x 2 cells, chained assignments x = y = n in the same and in opposite orders; " + INVS)
        tlc(chk, "render_thorough", out, w, "2 threads x {s: mut any holding int/itself/c, c} x <=2 ops incl. render; " + INVS, timeout=3000)
        tlc(chk, "t3x", out, w, "3 threads x 1 cell x <=2 ops; VIEW hides hist; " + INVS, timeout=3000)
        tlc(chk, "inc", out, w, "3 threads x 3 increments: IncrementsPermutation, NoLostUpdate", timeout=3000)
        tlc(chk, "render_nopref", out, w, "render space without writer preference (safety under both lock policies)")
        tlc(chk, "live_thorough", out, w, "FairSpec: Termination (<>AllDone), no state constraint")
        emit = ["ops", "cells", "chain", "render", "t3x", "inc"]
    else:
        tlc(chk, "ops", out, w, "2 threads x 1 cell, all 12 operators incl. failing operands, *c; " + INVS)
        tlc(chk, "cells", out, w, "2 threads x 2 cells (shared and unshared cells); " + INVS)
        tlc(chk, "chain", out, w, "2 threads x 2 cells, chained assignments x = y = n in the same and in opposite orders; " + INVS)
        tlc(chk, "render", out, w, "2 threads x {s: mut any holding int/itself/c, c} incl. render; " + INVS)
        tlc(chk, "t3", out, w, "3 threads x 1 cell x 1 op each, and 3 x 2 increments; " + INVS)
        tlc(chk, "live", out, w, "FairSpec: Termination (<>AllDone), no state constraint")
        emit = ["ops", "cells", "chain", "render", "t3"]
    tlc(chk, "t3_nopref", out, w, "3 threads without writer preference (safety under both lock policies)")
    tlc(chk, "f17", out, w, "s = s || render s on a self-containing cell: no deadlock with the guard released before rendering")
    tlc(chk, "f17_nested", out, 1, "EXPECTED FAILURE: guard held while rendering (pre-df0b31e) deadlocks", expect="deadlock")
    tlc(chk, "f17_nested_nopref", out, w, "guard held while rendering but readers do not wait for queued writers: no deadlock")
    tlc(chk, "split", out, 1, "EXPECTED FAILURE: read and write under separate guards loses an update", expect="invariant")

    if thorough:
        vacuity(chk, out)

    # ---- 2. spec -> impl: every case of the program spaces on real threads, every serial order forced
    alive = True
    for name in emit:
        if not replay_and_force(chk, out, name, 10 if thorough else 3, 1, stats):
            alive = False
            break

    # ---- 3. impl -> spec: recorded stress histories
    rec = None
    if alive:
        rdir = C.workdir("conc_rec_" + tier)
        if thorough:
            rec = vh_json(["record", rdir, 600, 6, 8, 80, 12, 150])
        else:
            rec = vh_json(["record", rdir, 60, 5, 6, 8, 8, 100])
        for s in rec["samples"][:2]:
            chk.sample({"kind": "recorded history (impl -> spec)", **s})
        if rec["deadlock"] is not None:
            report_deadlock(chk, "record", rec["deadlock"])
            alive = False
        if rec["panics"]:
            chk.violation({"kind": "panic", "where": "record"}, {"what": "a call panicked in a recorded history",
                                                                  "panics": rec["panics"]})
        tpath = os.path.join(rdir, "conc_trace.ndjson")
        lpath = os.path.join(rdir, "conc_lin.ndjson")
        rejected = validate_trace(chk, tpath, stats)
        if rejected:
            report_trace_rejections(chk, tpath, rejected)
        validate_lin(chk, lpath, stats)
        if not rejected:
            corrupt_selftest(chk, tpath, rdir, stats,
                             ["flip-new", "drop-write", "stale-old"] if thorough else ["flip-new"])

    # ---- 4. runs that share no cell; the F17 scenario
    solo = None
    rnd = None
    if alive:
        solo = vh_json(["solo", 12 if thorough else 8, 60 if thorough else 12])
        if solo["deadlock"] is not None:
            report_deadlock(chk, "solo", solo["deadlock"])
            alive = False
        for m in solo["mismatches"]:
            chk.violation({"kind": m["kind"], "text": m.get("text")}, m)
        for s in solo["samples"][:1]:
            chk.sample({"kind": "one Code run by many threads, no shared cell", **s})
    if alive:
        rnd = vh_json(["render", 6000 if thorough else 1500])
        if rnd["deadlock"] is not None:
            report_deadlock(chk, "render", rnd["deadlock"])
        for m in rnd["mismatches"]:
            chk.violation({"kind": "render", "what": m.get("what")}, m)

    # ---- evidence
    cov = chk.cov
    hist_n = rec["histories"] if rec else 0
    cov["traces_validated_against_impl"] = (stats["replay_runs"] + stats["forced_orders"]
                                            + stats["trace_histories_accepted"] + stats["lin_histories_accepted"]
                                            + (solo["runs"] if solo else 0))
    cov["evaluations"] = (stats["replay_runs"] + stats["forced_orders"] + (rec["calls"] if rec else 0)
                          + (solo["runs"] if solo else 0) + (rnd["iterations"] if rnd else 0))
    cov["distinct_nontrivial"] = stats["nontrivial_cases"] + (rec.get("contended_histories", 0) if rec else 0)
    cov["rule"] = ("replay cases are the distinct tuples of thread programs enumerated by TLC (MC_Conc.tla, distinct by "
                   "construction); one is non-trivial when at least two threads name the same cell. Recorded histories "
                   "are seeded random (kinds inc/additive/mixed/mixed2, 2..12 threads); one is non-trivial when at least "
                   "one call overlaps in [start,end] sequence numbers with a call of another thread on the same cell "
                   "(counted by the harness). distinct_nontrivial = such cases + such histories.")
    cov["exhaustive"] = True
    cov["exhaustive_note"] = ("the bounded program spaces are enumerated completely, and for the spaces without nested "
                              "rendering every serial order of the atomic operations is forced; thread schedules inside "
                              "the library beyond those are sampled (perturbed stress), not enumerated")
    cov["replay"] = stats
    cov["recorded"] = {k: rec[k] for k in ("histories", "events", "calls", "writes", "panics", "contended_calls",
                                           "contended_histories", "kinds", "perturb_hits") if rec and k in rec}
    cov["solo"] = {k: solo[k] for k in ("programs", "threads", "runs", "rejected")} if solo else {}
    cov["render_scenario"] = {k: rnd[k] for k in ("iterations", "per_thread")} if rnd and "per_thread" in rnd else {}
    cov["rejected"] = solo["rejected"] if solo else 0
    chk.assumptions += [
        "TLC/SANY and the CommunityModules are correct",
        "the lock model (one write holder, readers excluded, a new reader waits while a writer is queued) is std's RwLock on this platform; safety is also checked without the waiting rule",
        "real thread schedules beyond the enumerated serial orders are sampled (seeded perturbation at the library's before-write-lock / write-locked points), not enumerated",
        "integers stay inside |n| < 2^29 (64-bit wrap-around of the same operators is C08's business)",
        "`vh conc solo` compares a concurrent run with the implementation's own sequential run of the same parsed Code (that IS the property's reference for runs sharing no cell; no second oracle)",
        "a hang is reported as a deadlock after VERIF_CONC_WATCHDOG_S (>= 20, default 30) seconds",
        "the hooks of src/verif.rs report what assign.rs did under the lock; the hook-independent checks (Trace_ConcLin, replay, forced orders) do not rely on them",
    ]
    return chk.finish()
