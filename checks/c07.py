"""C07 — evaluation order: MC_C07.tla (LeftToRightOnce on the specification) + replay of every case."""
from checks._suitecheck import run_one


def run(tier):
    return run_one("C07", "c07", tier,
        "every construct with >= 2 sub-expressions x operand forms (tick / literal) x context (top level, "
        "function body); a case is distinct by its rendered source text; non-trivial = accepted by the "
        "checker and executed; compared: result value and the log of tick numbers",
        ["tick functions t_k(i, v) { log += [i]; return v } make evaluation observable"], gen=3000)
