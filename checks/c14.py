"""C14 — operator precedence and associativity follow the documented table.

Specification: spec/Prec.tla (the 14-level table of docs/operators.md as a constant, the declarative
Group, the admissible-tree formulation, precedence climbing as a shift/reduce machine, Lex = maximal
munch, an evaluator over small values).

  MC_Prec      TLC runs the shift/reduce machine over every case of the quantifier (pairs, triples,
               prefix x binary, prefix x postfix, postfix x binary, operator adjacencies with and
               without blanks), checks the laws as invariants and writes every case with the
               prescribed fully parenthesised tree (or "reject").
  MC_PrecVal   TLC searches operand values for which the groupings are observably different and
               writes them with the predicted values.
  vh prec replay   structural observation (real grammar + real PRATT_PARSER) of every case, and
               observation by value through Code::parse(..).exec() of the chosen operands.
  vh prec record + MC_PrecTrace   the other direction: long random expressions parsed by the real
               code, the recorded grouping recomputed by TLC.
"""
import glob
import json
import os
import threading
from vlib import common as C

INV_PREC = ("invariants: cases inside the domain, Group uses every token once, exactly one admissible "
            "tree and it is Group's, machine conserves tokens, machine result = Group, progress, "
            "Lex lossless/maximal/never splits, table is a function")
INV_VAL = ("invariants: rows well-formed and grouped alike by Group / machine / admissible trees, the "
           "chosen operands discriminate every alternative grouping, all idioms usable, evaluation "
           "independent of the formulation")
INV_TRACE = ("invariants: recorded tokens well-formed, the three formulations agree on the recorded "
             "(longer) sequences; postcondition: observed tree = prescribed tree")


def run_both(tier, out):
    thorough = tier == "thorough"
    res = {}
    err = {}

    def job(key, module, cfg, workers, timeout):
        try:
            res[key] = C.run_tlc(module, cfg, workers=workers, timeout=timeout,
                                 env_extra={"VERIF_OUT": out, "VERIF_SEED": C.seed()},
                                 heap="6g" if thorough else "3g", name="%s_%s" % (key, tier))
        except Exception as e:  # re-raised in the main thread
            err[key] = e

    jobs = [("prec", "MC_Prec", "MC_Prec_thorough.cfg" if thorough else "MC_Prec.cfg", 6 if thorough else 4,
             3000 if thorough else 400),
            ("precval", "MC_PrecVal", "MC_PrecVal_thorough.cfg" if thorough else "MC_PrecVal.cfg", 6 if thorough else 4,
             3000 if thorough else 400)]
    ths = [threading.Thread(target=job, args=j) for j in jobs]
    for t in ths:
        t.start()
    for t in ths:
        t.join()
    for k in err:
        raise err[k]
    C.require_tlc_ok(res["prec"], "MC_Prec (grouping laws, lexing laws)")
    C.require_tlc_ok(res["precval"], "MC_PrecVal (operand search, evaluation laws)")
    return res["prec"], res["precval"]


def gather_rows(out, vres):
    """MC_PrecVal writes one file per row while the row is computed; put them together."""
    info = vres.printed("VROWS")
    if not info:
        raise C.ToolError("MC_PrecVal did not report its rows")
    want = info[0]["searched"] + info[0]["idioms"]
    rows = []
    for path in glob.glob(os.path.join(out, "rows", "*.ndjson")):
        rows += C.read_ndjson(path)
    rows.sort(key=lambda r: r["id"])
    if [r["id"] for r in rows] != list(range(1, want + 1)):
        raise C.ToolError("MC_PrecVal wrote %d rows, %d expected" % (len(rows), want))
    C.write_ndjson(os.path.join(out, "prec_values.ndjson"), rows)
    return info[0]


def coverage_selftest():
    """Vacuity: both machine actions must have been taken (TLC -coverage on the quick bound)."""
    out = C.workdir("prec_cov_out")
    res = C.run_tlc("MC_Prec", "MC_Prec.cfg", workers=4, timeout=900, coverage=True,
                    env_extra={"VERIF_OUT": out, "VERIF_SEED": C.seed()}, name="prec_coverage")
    C.require_tlc_ok(res, "MC_Prec with coverage")
    zeros = [z for z in res.coverage_zero() if z in ("Shift", "Reduce", "Init")]
    if zeros:
        raise C.ToolError("vacuous model: actions never taken: %s" % zeros)
    return res


def run(tier):
    thorough = tier == "thorough"
    chk = C.Check("C14", tier)
    out = C.workdir("prec_out")
    os.makedirs(os.path.join(out, "rows"))
    C.build_harness()  # fail early (and overlap nothing with TLC: cargo is heavy)
    pres, vres = run_both(tier, out)
    chk.add_tlc("MC_Prec", pres, INV_PREC)
    chk.add_tlc("MC_PrecVal", vres, INV_VAL)
    vinfo = gather_rows(out, vres)
    counts = pres.printed("COUNTS")[0]
    table = pres.printed("TABLE")[0]

    # ---- spec -> impl
    rc, txt = C.run_vh(["prec", "replay", out])
    r = json.loads(txt)
    if r["structural_cases"] != table["cases"] or r["families"] != {k: v for k, v in counts.items() if v}:
        raise C.ToolError("replay saw %s cases, TLC wrote %s" % (r["structural_cases"], table["cases"]))

    # ---- impl -> spec
    n_rec = 30000 if thorough else 3000
    trace = os.path.join(out, "prec_trace.ndjson")
    rc, txt = C.run_vh(["prec", "record", out, str(n_rec), trace])
    rec = json.loads(txt)
    tres = C.run_tlc("MC_PrecTrace", "MC_PrecTrace.cfg", workers=4, timeout=1800,
                     env_extra={"VERIF_IN": trace}, name="prectrace_" + tier)
    C.require_tlc_ok(tres, "MC_PrecTrace (recorded groupings recomputed)")
    chk.add_tlc("MC_PrecTrace", tres, INV_TRACE)
    tinfo = tres.printed("TRACE")
    if not tinfo or tinfo[0]["records"] != n_rec:
        raise C.ToolError("MC_PrecTrace did not account for every record")
    tinfo = tinfo[0]

    if thorough:
        cres = coverage_selftest()
        chk.add_tlc("MC_Prec(coverage)", cres, "vacuity self-test: Shift and Reduce both taken")

    # ---- evidence
    cases = C.read_ndjson(os.path.join(out, "prec_cases.ndjson"))
    accepted_texts = {c["sep"].join(c["parts"]) for c in cases if c["expect"] != "reject"}
    cov = chk.cov
    cov["traces_validated_against_impl"] = r["structural_cases"] + r["value_cases"] + tinfo["ok"] + tinfo["mismatch"]
    cov["evaluations"] = r["structural_cases"] + r["value_runs"] + rec["recorded"]
    cov["distinct_nontrivial"] = len(accepted_texts) + r["value_cases"] + tinfo["ok"] + tinfo["mismatch"]
    cov["rule"] = ("distinct source texts that the specification accepts as one expression with at least one "
                   "operator (distinct by text; every one parsed by the real grammar and grouped by the real "
                   "table), plus by-value cases whose operands the specification chose so that every other "
                   "grouping is rejected or yields a different (value, cell contents), plus recorded long "
                   "expressions on which the table settles the grouping")
    cov["exhaustive"] = thorough
    cov["exhaustive_families"] = ("pairs of the %d binary operators, prefix x binary, binary x prefix, prefix x postfix, "
                                  "postfix x binary, postfix x postfix, adjacencies of <= %d operator symbols: all; "
                                  "triples: %s" % (table["bin"], 3 if thorough else 2,
                                                   "all %d" % counts["triple"] if thorough else
                                                   "all with two operators of one level + seeded sample (%d of 42875)" % counts["triple"]))
    cov["families"] = counts
    cov["table"] = table
    cov["rejects_expected_and_observed"] = r["rejects_expected"]
    cov["by_value"] = {"rows_searched": vinfo["searched"], "idioms": vinfo["idioms"], "cases_with_operands": r["value_cases"],
                       "without_discriminating_operands": r["value_unfound"], "runs": r["value_runs"],
                       "strength": r["value_strength"]}
    cov["recorded"] = dict(rec, **tinfo)
    cov["mismatch_counts"] = r["mismatch_counts"]
    structural = [s for s in r["samples"] if "text" in s]
    by_value = [s for s in r["samples"] if "program" in s]
    for s in structural[:2] + [s for s in structural if s["fam"].startswith("adj")][:1] + by_value[:2]:
        chk.sample(s)
    if tinfo["ok"]:
        first = C.read_ndjson(trace)[0]
        chk.sample({"fam": "recorded", "text": first["text"], "impl": first["got"]})

    for m in r["mismatches"]:
        sig = {"kind": m["kind"], "fam": m.get("fam"), "text": m.get("text")}
        chk.violation(sig, m)
    for m in tres.printed("TRACE_MISMATCH"):
        chk.violation({"kind": "trace", "fam": "recorded", "text": m["text"]}, m)
    if tinfo["mismatch"] and not tres.printed("TRACE_MISMATCH"):
        raise C.ToolError("trace mismatches reported but not listed")

    # ---- long chains of one level, by value (floats: every grouping rounds differently)
    cpath = os.path.join(out, "chains.ndjson")
    _, txt = C.run_vh(["arith", "chains", cpath, "400" if thorough else "100"])
    cr = json.loads(txt)
    for m in cr["mismatches"]:
        chk.violation({"kind": "chain-" + m["kind"], "op": m.get("op"), "a": m.get("a"), "b": m.get("b")}, m)
    cres = C.run_tlc("Trace_Arith", "Trace_Arith.cfg", workers=1, timeout=1800, env_extra={"VERIF_IN": cpath}, name="trace_chains_" + tier)
    done = cres.printed("TRACE_DONE")
    if cres.printed("TRACE_STUCK") or not done or cres.rc != 0 or done[0]["n"] != cr["records"]:
        raise C.ToolError("Trace_Arith did not consume the chain trace %s" % cpath)
    chk.add_tlc("Trace_Arith[chains]", cres, "%d step records + %d chains of 3..16 float operands with operators of one level "
                "(FloatChain: every form = end of the left-to-right chain of recorded steps)" % (cr["steps"], cr["chains"]))
    crecs = C.read_ndjson(cpath)
    for m in cres.printed("MISMATCH"):
        rec_ = crecs[m["i"] - 1]
        chk.violation({"kind": "long-chain", "text": rec_.get("as")},
                      {"direction": "impl->spec (Trace_Arith, FloatChain)", "chain": rec_.get("as"),
                       "specification_expects": m["expected"], "observed": rec_["rs"], "programs": rec_.get("programs")})
    cov["long_chains"] = {k: cr[k] for k in ("chains", "steps", "executions")}
    cov["traces_validated_against_impl"] += cr["records"]
    for s_ in cr["samples"][:1]:
        chk.sample(s_)

    chk.assumptions += [
        "TLC/SANY and the CommunityModules are correct",
        "long chains: the IEEE result of each single step is the host's f64 (compared in the harness); that the chain is "
        "the left-to-right composition of the steps is decided by Trace_Arith.tla",
        "structural observation: pest's PrattParser applies PRATT_PARSER's table the same way for the harness' "
        "string-building callbacks as for the library's instruction-building callbacks (same entry points: "
        "SimpleSLParser::parse(Rule::input, ..) and PRATT_PARSER.map_*..parse(pair.into_inner())); the by-value "
        "route goes through Code::parse and does not rely on this",
        "by-value programs are rendered by harness/src/prec.rs (operand declarations, the four named functions "
        "inc/dbl/odd/add, the observation tuple (result, *cells)); values stay within |n| <= 2^20",
        "outside the module (the table does not settle them, Prec.tla Determined/Settled): a level-1 postfix form "
        "after a level-3 postfix operator when a prefix or level-3 binary operator stands in front (`-a ~ [i]`), "
        "`a ? ! b` (`? type` with the type never), `a $ i - b` / `a $ i * b` (initial value is an expression), "
        "comment openers `//` and `/* */`; the grammar admits one prefix operator per operand (`- - a` is a "
        "syntax error), stacked prefixes are not in the quantifier",
        "`$]` (collect) is taken as one of the level-3 postfix reducers although docs/operators.md has no row for it",
    ]
    return chk.finish()
