"""C04 — constant folding and propagation are unobservable: MC_C04.tla (every literal/hidden twin has the
single meaning the specification gives it; the permitted parse-time errors are specified per twin) + replay.
In addition the cases of the scope, evaluation-order, cell, type-test and iterator suites are run together with their constant
twins (every hidden operand visible to the folder, see harness/src/lang.rs `unhide`): a twin that departs from the
specification where the case itself does not is a folding defect."""
from checks._suitecheck import run_one


def run(tier):
    return run_one("C04", "c04", tier,
        "every construct x each of the 2^k literal/hidden choices for its k operand positions x boundary operands "
        "(incl. zero divisor, shift 64/-1, index = +-len, negative length) x context (top, called function, "
        "uncalled function, after an effect, via a name); distinct by source text; each twin must give the "
        "specification's value and log, or one of the parse-time errors the specification allows for that twin",
        ["`hide` = identity function h_k(v) the optimiser cannot see through",
         "named deviation (DESIGN §10): an always-failing operation on captured values inside a closure body may "
         "surface as that documented error when the closure is created"],
        twin_suites=("c06", "c07", "c13", "c12t", "c11"))
