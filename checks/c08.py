"""C08 — scalar operators are total and follow the documented arithmetic.

Specification: spec/Int64.tla (an int is a little-endian tuple of N limbs of B bits).
 1. MC_Int64Small: at small widths (4..8 bits, several limb layouts) TLC compares every limb
    operator with its mathematical definition on native integers for ALL operand pairs.
 2. MC_Int64Grid (N=8, B=8): laws on the boundary grid G x G, and every case (operator, operands,
    predicted value | error kind) is written out; `vh arith replay` executes each case against the
    real code in every execution form (literal / run time / compound assignment ...) and compares.
 3. `vh arith record`: a seeded random stream over all of i64 / f64 is executed in every form
    and Trace_Arith.tla recomputes every record on limbs (floats: comparisons and unary minus are
    recomputed from the bit patterns; + - * / ** must be functions of the operand patterns, and
    their IEEE-754 result is compared with the host's f64 by the harness).
 4. self-test: a corrupted trace must be rejected by Trace_Arith at exactly the corrupted records.
"""
import glob
import json
import os
import re
import struct

from vlib import common as C

EXPECTED_G_QUICK = 24
N_BIN, N_UN = 17, 2
FLOAT_ARITH = ("+", "-", "*", "/", "**")


def decode(r):
    """a result on the wire, made readable for replay files"""
    if not isinstance(r, dict):
        return r
    if r.get("k") == "int":
        x = sum(v << (8 * i) for i, v in enumerate(r["l"]))
        return {"int": x - (1 << 64) if x >= 1 << 63 else x}
    if r.get("k") == "float":
        x = sum(v << (8 * i) for i, v in enumerate(r["l"]))
        return {"float_bits": "0x%016x" % x, "float": repr(struct.unpack("<d", struct.pack("<Q", x))[0])}
    if r.get("k") == "bool":
        return {"bool": r["v"]}
    if r.get("k") == "err":
        return {"error": r["e"]}
    if "r" in r and "cell" in r:
        return {"value": decode(r["r"]), "cell_afterwards": decode(r["cell"])}
    return r


def case_key(r):
    return (r["t"], r["op"], json.dumps(r["a"]), json.dumps(r.get("b")))


def dead_expressions(res, modules):
    """(module, line) of expressions that TLC's coverage reports as never evaluated"""
    dead = set()
    for m in re.finditer(r"^\s*\|*line (\d+), col \d+ to line \d+, col \d+ of module (\w+): 0$", res.out, re.M):
        if m.group(2) in modules:
            dead.add((m.group(2), int(m.group(1))))
    return sorted(dead)


def run_small(chk, tier):
    cfgs = ["MC_Int64Small.cfg", "MC_Int64Small_3x2.cfg"]
    if tier == "thorough":
        cfgs += ["MC_Int64Small_4x1.cfg", "MC_Int64Small_1x4.cfg", "MC_Int64Small_1x5.cfg",
                 "MC_Int64Small_5x1.cfg", "MC_Int64Small_2x4.cfg", "MC_Int64Small_4x2.cfg"]
    widths = []
    for cfg in cfgs:
        first = cfg == "MC_Int64Small.cfg"
        res = C.run_tlc("MC_Int64Small", cfg, workers=4, timeout=1500, coverage=first,
                        name="int64small_" + cfg[:-4].split("_")[-1])
        C.require_tlc_ok(res, "MC_Int64Small/%s (limb operators = mathematical definitions)" % cfg)
        m = re.search(r'<<"SMALL", (\d+), (\d+), (\d+)>>', res.out)
        if not m:
            raise C.ToolError("MC_Int64Small/%s did not report its width" % cfg)
        n, b, words = int(m.group(1)), int(m.group(2)), int(m.group(3))
        chunks = int(re.search(r"Chunks = (\d+)", open(os.path.join(C.SPEC, cfg)).read()).group(1))
        if res.distinct != 1 + chunks + words:      # start, chunk states, one row per word
            raise C.ToolError("MC_Int64Small/%s: unexpected number of states %d" % (cfg, res.distinct))
        if first:
            dead = dead_expressions(res, {"Int64", "MC_Int64Small"})
            if dead:
                raise C.ToolError("vacuity: expressions never evaluated in MC_Int64Small: %s" % dead[:10])
        widths.append("N=%d,B=%d" % (n, b))
        chk.add_tlc("MC_Int64Small[%s]" % widths[-1], res,
                    "all %d x %d operand pairs: + - * neg not & | ^ comparisons / %% (and uniqueness of the "
                    "quotient/remainder relation up to 5 bits) << >> ** vs the mathematical definitions; "
                    "error kinds exactly when documented" % (words, words))
    return widths


def run_grid(chk, tier, out):
    thorough = tier == "thorough"
    cfg = "MC_Int64Grid_thorough.cfg" if thorough else "MC_Int64Grid.cfg"
    res = C.run_tlc("MC_Int64Grid", cfg, workers=8 if thorough else 4, timeout=3000, coverage=True,
                    env_extra={"VERIF_OUT": out}, name="int64grid_" + tier)
    C.require_tlc_ok(res, "MC_Int64Grid (laws on the boundary grid at 64 bits)")
    dead = dead_expressions(res, {"Int64", "MC_Int64Grid"})
    if dead:
        raise C.ToolError("vacuity: expressions never evaluated in MC_Int64Grid: %s" % dead[:10])
    m = re.search(r'<<"GRID", (\d+), (\d+), (\d+), (\d+), (\d+), (\d+), (\d+)>>', res.out)
    if not m:
        raise C.ToolError("MC_Int64Grid did not report the grid")
    ng, nf, n_int = int(m.group(1)), int(m.group(2)), int(m.group(3))
    chk.add_tlc("MC_Int64Grid", res, "grid of %d ints x %d ints and %d float patterns; invariants: ring/bitwise "
                "algebra, order, division relation, shifts vs multiplication, power laws incl. exponents > 2^32, "
                "error table, float comparison laws (strict weak order, -0.0 = 0.0, NaN)" % (ng, ng, nf))
    # one file per row (written by the row states) + the float / bool tables
    files = sorted(glob.glob(os.path.join(out, "arith_int_*.ndjson")),
                   key=lambda p: int(re.search(r"_(\d+)\.ndjson$", p).group(1)))
    if len(files) != ng:
        raise C.ToolError("expected %d row files from MC_Int64Grid, found %d" % (ng, len(files)))
    cases = os.path.join(out, "arith_cases.ndjson")
    lines = 0
    with open(cases, "w") as w:
        for p in files + [os.path.join(out, "arith_tables.ndjson")]:
            with open(p) as f:
                for line in f:
                    if line.strip():
                        w.write(line if line.endswith("\n") else line + "\n")
                        lines += 1
    expected = n_int + sum(int(m.group(i)) for i in range(4, 8))
    if n_int != ng * (N_BIN * ng + N_UN) or lines != expected:
        raise C.ToolError("MC_Int64Grid wrote %d cases, expected %d" % (lines, expected))
    if not thorough and ng != EXPECTED_G_QUICK:
        raise C.ToolError("the quick grid must be the 24 values of DESIGN §6 C08")
    return cases, ng, nf, lines


def report_replay(chk, r, direction):
    for m in r["mismatches"]:
        sig = {"kind": m["kind"], "t": m.get("t"), "op": m.get("op"), "a": m.get("a"), "b": m.get("b")}
        m = dict(m)
        m["direction"] = direction
        m["how_to_reproduce"] = "harness/target/release/vh run '<program>' (text forms) / the function text " \
                                "called through Function::create_call with the operands (api forms)"
        chk.violation(sig, m)


def trace_chunk(chk, tier, idx, path, coverage=False):
    res = C.run_tlc("Trace_Arith", "Trace_Arith.cfg", workers=1, timeout=3000, coverage=coverage,
                    env_extra={"VERIF_IN": path}, name="trace_arith_%s_%d" % (tier, idx))
    done = res.printed("TRACE_DONE")
    stuck = res.printed("TRACE_STUCK")
    if stuck or not done or res.rc != 0:
        tail = "\n".join(res.out.splitlines()[-25:])
        raise C.ToolError("Trace_Arith did not consume the trace %s (%s)\n%s" % (path, stuck or "no summary", tail))
    mism = res.printed("MISMATCH")
    if done[0]["bad"] != len(mism):
        raise C.ToolError("Trace_Arith: %d mismatches counted but %d printed" % (done[0]["bad"], len(mism)))
    return res, done[0]["n"], mism


def corrupt_selftest(chk, trace_path, work, already_bad=()):
    """DESIGN §4.4(a): a corrupted trace must be rejected, at exactly the corrupted records.  Records the trace
    specification already rejected in the real run (`already_bad`, 0-based: violations, reported as such) are not used."""
    recs = C.read_ndjson(trace_path)
    pick = {}
    for i, r in enumerate(recs):
        if i in already_bad:
            continue
        kinds = []
        if r["t"] == "int2" and r["rs"][0]["r"]["k"] == "int":
            kinds.append("int_value")
        if r["t"] == "int2" and r["rs"][0]["r"]["k"] == "err":
            kinds.append("int_error")
        if r["t"] == "int2" and r["rs"][0]["r"]["k"] == "bool":
            kinds.append("int_bool")
        if r["t"] == "int2" and r["cells"]:
            kinds.append("cell")
        if r["t"] == "float2" and r["op"] in FLOAT_ARITH and len(r["rs"]) >= 3:
            kinds.append("float_form")
        if r["t"] == "float2" and r["op"] in ("<", "<=", "==", "!=", ">", ">="):
            kinds.append("float_cmp")
        if r["t"] in ("int1", "float1"):
            kinds.append("unary")
        for k in kinds:
            if k not in pick and i not in pick.values():
                pick[k] = i
    sel = sorted(set(pick.values()))
    out = []
    corrupted = []
    for pos, i in enumerate(sel):
        good = recs[i]
        out.append(good)                      # the untouched record must still be accepted
    for kind, i in sorted(pick.items()):
        r = json.loads(json.dumps(recs[i]))
        if kind == "int_value" or kind == "unary":
            r["rs"][-1]["r"]["l"][0] ^= 1
        elif kind == "int_error":
            r["rs"][0]["r"]["e"] = "ZeroModulo" if r["rs"][0]["r"]["e"] != "ZeroModulo" else "ZeroDivision"
        elif kind in ("int_bool", "float_cmp"):
            r["rs"][-1]["r"]["v"] = not r["rs"][-1]["r"]["v"]
        elif kind == "cell":
            r["cells"][0]["r"] = {"k": "int", "l": [1, 2, 3, 4, 5, 6, 7, 8]}
        elif kind == "float_form":
            r["rs"][1]["r"]["l"][0] ^= 1     # one form disagrees with the others
        out.append(r)
        corrupted.append(len(out))
    # the same (op, a, b) seen again with another result in ALL forms: only the memo can tell
    if "float_form" in pick:
        r = json.loads(json.dumps(recs[pick["float_form"]]))
        for x in r["rs"] + r["cells"]:
            x["r"]["l"][1] ^= 4
        out.append(r)
        corrupted.append(len(out))
    if len(corrupted) < 5:
        raise C.ToolError("self-test: the trace offers too few kinds of records to corrupt")
    p = os.path.join(work, "trace_corrupted.ndjson")
    C.write_ndjson(p, out)
    res, n, mism = trace_chunk(chk, "selftest", 0, p)
    flagged = sorted(m["i"] for m in mism)
    if flagged != corrupted:
        raise C.ToolError("self-test: Trace_Arith flagged records %s of the corrupted trace, expected %s"
                          % (flagged, corrupted))
    chk.cov["selftest_corrupted_trace"] = {"records": n, "corrupted": len(corrupted), "flagged": len(flagged),
                                           "kinds": sorted(pick) + ["memo"]}
    return res


def run(tier):
    chk = C.Check("C08", tier)
    thorough = tier == "thorough"
    work = C.workdir("c08_" + tier)
    cov = chk.cov

    widths = run_small(chk, tier)
    cases, ng, nf, n_cases = run_grid(chk, tier, work)

    # ---- spec -> impl
    _, txt = C.run_vh(["arith", "replay", cases])
    rp = json.loads(txt)
    if rp["cases"] != n_cases:
        raise C.ToolError("the harness replayed %d of %d cases" % (rp["cases"], n_cases))
    report_replay(chk, rp, "spec->impl (grid case predicted by MC_Int64Grid)")
    trivial = set(rp["trivial_case_indices"])
    distinct = {case_key(r) for i, r in enumerate(C.read_ndjson(cases)) if i not in trivial}
    if len(distinct) != rp["distinct_nontrivial"]:
        raise C.ToolError("distinct non-trivial grid cases: %d counted here, %d by the harness"
                          % (len(distinct), rp["distinct_nontrivial"]))

    # ---- impl -> spec
    chunks = 5 if thorough else 1
    n_int, n_float = (15000, 3000) if thorough else (2500, 500)
    traced = 0
    trace_mismatches = 0
    rec_tot = {"cases": 0, "executions": 0, "distinct_nontrivial": 0, "ieee": 0}
    kinds = {}
    first_trace = None
    for c in range(chunks):
        path = os.path.join(work, "arith_trace_%d.ndjson" % c)
        _, txt = C.run_vh(["arith", "record", path, str(n_int), str(n_float), cases, str(c)])
        rc = json.loads(txt)
        report_replay(chk, rc, "impl->spec (IEEE-754 result compared with the host's f64)")
        for k in ("cases", "executions", "distinct_nontrivial"):
            rec_tot[k] += rc[k]
        rec_tot["ieee"] += rc["ieee_results_compared_with_host"]
        recs = C.read_ndjson(path)
        for r in recs:
            key = r["t"] + ("/arith" if r["t"] == "float2" and r["op"] in FLOAT_ARITH else "")
            kinds[key] = kinds.get(key, 0) + 1
            if r["nt"]:
                distinct.add(case_key(r))
        res, n, mism = trace_chunk(chk, tier, c, path, coverage=(thorough and c == chunks - 1))
        if n != len(recs):
            raise C.ToolError("Trace_Arith read %d of %d records" % (n, len(recs)))
        chk.add_tlc("Trace_Arith[%d]" % c, res, "%d records recomputed on limbs (ints) / checked for functionality "
                    "and comparison laws (floats)" % n)
        traced += n
        for m in mism:
            r = recs[m["i"] - 1]
            trace_mismatches += 1
            sig = {"kind": "trace", "t": r["t"], "op": r["op"], "a": r.get("as"), "b": r.get("bs")}
            chk.violation(sig, {"direction": "impl->spec (Trace_Arith recomputed the record)",
                                "case": {"t": r["t"], "op": r["op"], "a": r.get("as"), "b": r.get("bs")},
                                "specification_expects": decode(m["expected"]),
                                "observed": [{"form": x["f"], "got": decode(x["r"])} for x in r["rs"]],
                                "observed_cells": [{"form": x["f"], "got": decode(x["r"])} for x in r["cells"]],
                                "record": r})
        if first_trace is None:
            first_bad = {m["i"] - 1 for m in mism}
            first_trace = path
        if thorough and c == chunks - 1:
            # FloatFold / FloatChain consume the records of C11's float-fold stage and C14's long-chain stage; C08's trace holds none
            zero = [a for a in res.coverage_zero() if a not in ("FloatFold", "FloatChain")]
            if zero:
                raise C.ToolError("vacuity: trace actions never taken: %s" % zero)
    for need in ("int2", "int1", "float2", "float2/arith", "float1"):
        if not kinds.get(need):
            raise C.ToolError("vacuity: the recorded trace has no %s record" % need)
    st = corrupt_selftest(chk, first_trace, work, first_bad)
    chk.add_tlc("Trace_Arith[selftest]", st, "corrupted trace: every corrupted record and only those rejected")

    # ---- evidence
    cov["traces_validated_against_impl"] = rp["cases"] + traced
    cov["evaluations"] = rp["executions"] + rec_tot["executions"]
    cov["distinct_nontrivial"] = len(distinct)      # union over the grid replay and all trace chunks
    cov["rule"] = ("distinct (type, operator, operand values) cases; non-trivial = executed against the real code in "
                   "at least three execution forms including the host-API run-time form (float cases whose NaN "
                   "operand has no source text run in the API forms only and are not counted)")
    cov["exhaustive"] = True
    cov["exhaustive_note"] = ("exhaustive over the grid (%d x %d ints x 17 binary + 2 unary operators, %d x %d float "
                              "patterns x 11 operators, all bool tables) and over all operand pairs at the small "
                              "widths %s; random beyond" % (ng, ng, nf, nf, ", ".join(widths)))
    cov["grid_cases"] = n_cases
    cov["replay"] = {k: rp[k] for k in ("cases", "executions", "by_form", "errors_reported_while_parsing",
                                       "errors_reported_by_exec", "cases_without_literal_form")}
    cov["random_stream"] = {"records": traced, "executions": rec_tot["executions"], "chunks": chunks,
                            "ieee_results_compared_with_host": rec_tot["ieee"], "record_kinds": kinds,
                            "trace_mismatches": trace_mismatches}
    cov["mismatch_counts"] = rp["mismatch_counts"]
    for s in rp["samples"][:4] + rc["samples"][:2]:
        chk.sample(s)
    chk.assumptions += [
        "TLC/SANY and the CommunityModules (Json, IOUtils) are correct",
        "TLA+ cannot express IEEE-754: the result of float + - * / ** is compared with the host's f64 arithmetic "
        "(Rust f64 operators and f64::powf on this machine) by the harness, bit for bit; the specification states "
        "only that these operators are functions of the operand bit patterns (all execution forms and repeated "
        "evaluations agree) and never yield an error; float comparisons and unary minus ARE specified (Int64.tla, "
        "on the bit patterns) and predicted by TLC",
        "the limb algorithms of Int64.tla are validated against mathematical integers exhaustively only at widths "
        "of 4..8 bits (N,B in %s); at 64 bits they are cross-checked by algebraic laws on the grid" % ", ".join(widths),
        "operands of the literal form are written as constant expressions (negative numbers with unary minus, "
        "MIN_INT as -9223372036854775807 - 1, infinities and NaN as quotients); the harness checks that each such "
        "text evaluates to the intended operand before using it, and skips the literal forms otherwise "
        "(two of the three NaN patterns of the grid)",
        "64-bit grid: the 24 boundary values of DESIGN §6 C08" + (" plus %d further ones" % (ng - 24) if thorough else ""),
    ]
    return chk.finish()
