"""C18 — standard library functions honour their declared signatures.

spec/Stdlib.tla: export table of docs/stdlib.md + reference definitions of the pure helpers +
the judgement (member of the declared result type by tag and content, documented result);
spec/Fs.tla: the nine std.fs calls as a state machine over a small file tree.

  TLC  MC_Stdlib (laws, 16-bit ints)   internal laws of the definitions, exhaustively vs TLC's integers
  TLC  MC_Stdlib (cases, 64-bit ints)  boundary argument vectors of every export with predictions -> ndjson
  TLC  MC_Fs                           every call sequence up to Depth; emits the transition graph
  vh   stdlibx table/replay/random/stdin/fs   runs the real code (generated programs and host API)
  TLC  Trace_Stdlib                    judges every recorded observation (impl -> spec)
  TLC  Trace_Fs                        validates seeded random fs walks beyond the enumerated depth (impl -> spec)
"""
import glob
import json
import os
import shutil
import subprocess
from concurrent.futures import ThreadPoolExecutor

from vlib import common as C

NOBODY = ["setpriv", "--reuid=65534", "--regid=65534", "--clear-groups"]


def _load(path):
    with open(path) as f:
        return json.load(f)


def _vh(args, stdin_path=None, timeout=3000):
    """run the harness; stdout carries the noise of std.io.print*, results are in files"""
    C.run_vh(args, stdin_path=stdin_path, stdout_path=os.devnull, timeout=timeout)


def tlc_laws(tier):
    cfg = "MC_Stdlib_laws_thorough.cfg" if tier == "thorough" else "MC_Stdlib_laws.cfg"
    res = C.run_tlc("MC_Stdlib", cfg, workers=4, timeout=2400, name="stdlib_laws_" + tier)
    C.require_tlc_ok(res, "MC_Stdlib laws (bit counting, byte swap, ilog, parse_int, UTF-8, split/join, trim ...)")
    return res


def stdlib_side(tier, out):
    """boundary cases -> replay; declared types; random arguments; cgetline; all judged by Trace_Stdlib"""
    res = C.run_tlc("MC_Stdlib", "MC_Stdlib_cases.cfg", workers=2, timeout=900, env_extra={"VERIF_OUT": out},
                    name="stdlib_cases_" + tier)
    C.require_tlc_ok(res, "MC_Stdlib cases (argument vectors admitted, predictions well typed)")
    scratch = os.path.join(out, "scratch_calls")
    o = lambda n: os.path.join(out, n)
    _vh(["stdlibx", "table", o("obs_table.ndjson")])
    _vh(["stdlibx", "replay", o("stdlib_cases.ndjson"), o("obs_replay.ndjson"), o("sum_replay.json"), scratch])
    n_random = 6000 if tier == "quick" else 200000
    _vh(["stdlibx", "random", o("stdlib_table.ndjson"), str(n_random), o("obs_random.ndjson"), o("sum_random.json"), scratch])
    shutil.rmtree(scratch, ignore_errors=True)
    # cgetline: one process per stdin content, plus one with stdin closed
    stdin_sums = []
    obs_stdin = []
    for case in C.read_ndjson(o("stdlib_stdin.ndjson")):
        sid = case["id"]
        path = o("stdin_%d.bin" % sid)
        with open(path, "wb") as f:
            f.write(bytes(case["stdin"]))
        _vh(["stdlibx", "stdin", o("stdlib_stdin.ndjson"), str(sid), o("obs_stdin_%d.ndjson" % sid), o("sum_stdin_%d.json" % sid)],
            stdin_path=path)
        stdin_sums.append(_load(o("sum_stdin_%d.json" % sid)))
        obs_stdin += C.read_ndjson(o("obs_stdin_%d.ndjson" % sid))
    # file descriptor 0 really closed (the shell closes it before exec'ing the harness)
    p = subprocess.run(["sh", "-c", 'exec "$0" "$@" <&-', C.VH, "stdlibx", "stdin", o("stdlib_stdin.ndjson"), "1",
                        o("obs_stdin_closed.ndjson"), o("sum_stdin_closed.json")],
                       stdout=subprocess.DEVNULL, stderr=subprocess.PIPE, timeout=300,
                       env=dict(os.environ, VERIF_SEED=str(C.seed())))
    if p.returncode != 0:
        raise C.ToolError("harness failed with stdin closed: " + p.stderr.decode("utf-8", "replace")[-500:])
    stdin_sums.append(_load(o("sum_stdin_closed.json")))
    obs_stdin += C.read_ndjson(o("obs_stdin_closed.ndjson"))
    C.write_ndjson(o("obs_stdin.ndjson"), obs_stdin)
    return res, stdin_sums


def fs_side(tier, out):
    cfg = "MC_Fs_thorough.cfg" if tier == "thorough" else "MC_Fs.cfg"
    res = C.run_tlc("MC_Fs", cfg, workers=4, timeout=2400, env_extra={"VERIF_OUT": out}, name="fs_" + tier)
    C.require_tlc_ok(res, "MC_Fs (tree well formed, failing call leaves the tree unchanged, laws)")
    depth, sample3 = ("2", "150") if tier == "quick" else ("3", "0")
    o = lambda n: os.path.join(out, n)
    root_scratch = os.path.join(out, "fs_scratch")

    def as_root():
        _vh(["stdlibx", "fs", out, root_scratch, o("obs_fs.ndjson"), o("sum_fs.json"), depth, sample3, "all"])
        shutil.rmtree(root_scratch, ignore_errors=True)
        return _load(o("sum_fs.json"))

    def as_nobody():
        """directory permissions are not enforced for root: replay the unwritable trees as `nobody'"""
        if os.geteuid() != 0 or shutil.which("setpriv") is None:
            return None
        d = os.path.join(out, "fs_nobody")
        os.makedirs(d, exist_ok=True)
        os.chmod(d, 0o777)
        for n in ("obs.ndjson", "sum.json"):
            open(os.path.join(d, n), "w").close()
            os.chmod(os.path.join(d, n), 0o666)
        p = subprocess.run(NOBODY + [C.VH, "stdlibx", "fs", out, os.path.join(d, "scratch"), os.path.join(d, "obs.ndjson"),
                                     os.path.join(d, "sum.json"), depth, sample3, "only"],
                           stdin=subprocess.DEVNULL, stdout=subprocess.DEVNULL, stderr=subprocess.PIPE, timeout=3000,
                           env=dict(os.environ, VERIF_SEED=str(C.seed())))
        if p.returncode != 0:
            return {"failed": p.stderr.decode("utf-8", "replace")[-500:]}
        s = _load(os.path.join(d, "sum.json"))
        s["obs"] = C.read_ndjson(os.path.join(d, "obs.ndjson"))
        subprocess.run(NOBODY + ["rm", "-rf", os.path.join(d, "scratch")], stderr=subprocess.DEVNULL)
        return s

    def walks():
        """impl -> spec: seeded random walks longer than the enumerated depth, judged by Trace_Fs"""
        nw, ln = ("300", "12") if tier == "quick" else ("8000", "20")
        ws = os.path.join(out, "fs_walk_scratch")
        _vh(["stdlibx", "fswalk", ws, o("fswalk.ndjson"), o("sum_walk.json"), nw, ln])
        shutil.rmtree(ws, ignore_errors=True)
        tr = C.run_tlc("Trace_Fs", "Trace_Fs.cfg", workers=1, dfs=True, timeout=2400,
                       env_extra={"VERIF_IN": o("fswalk.ndjson")}, name="fs_trace_" + tier)
        C.require_tlc_ok(tr, "Trace_Fs")
        return tr, _load(o("sum_walk.json"))

    with ThreadPoolExecutor(3) as ex:
        fa, fb, fc = ex.submit(as_root), ex.submit(as_nobody), ex.submit(walks)
        return res, fa.result(), fb.result(), fc.result()


def classify(name, args):
    if name.startswith("std.string.str_from_utf8"):
        for e in args[0].get("es", []):
            v = int.from_bytes(bytes(e["l"]), "little", signed=True)
            if not 0 <= v <= 255:
                return "array element outside 0..255"
        return "byte array"
    return ""


def run(tier):
    chk = C.Check("C18", tier)
    for f in glob.glob(os.path.join(C.REPLAY, "C18", "C18_%s_*.json" % tier)):
        os.remove(f)          # replay files of an earlier run
    out = C.workdir("c18_" + tier)
    C.build_harness()
    with ThreadPoolExecutor(3) as ex:
        f_laws = ex.submit(tlc_laws, tier)
        f_std = ex.submit(stdlib_side, tier, out)
        f_fs = ex.submit(fs_side, tier, out)
        res_cases, stdin_sums = f_std.result()
        res_fs, fs_root, fs_nobody, (res_walk, walk_sum) = f_fs.result()
        res_laws = f_laws.result()
    o = lambda n: os.path.join(out, n)
    chk.add_tlc("MC_Stdlib laws", res_laws, "NL=2: all 16-bit ints vs TLC integers (quick: sampled), string laws on all strings "
                "over a 7-letter alphabet, UTF-8 decoder on all byte sequences of length <= 2 and edge bytes up to 4/5")
    chk.add_tlc("MC_Stdlib cases", res_cases, "NL=8: every boundary argument vector admitted by the declared parameter types, "
                "every exact prediction a member of the declared result type and accepted by the judgement")
    chk.add_tlc("MC_Fs", res_fs, "every call sequence up to Depth from 7 initial trees: well-formedness, failed call = no change, laws")

    # ---- impl -> spec: every observation judged by the trace specification
    obs = []
    for n in ("obs_table.ndjson", "obs_replay.ndjson", "obs_random.ndjson", "obs_stdin.ndjson", "obs_fs.ndjson"):
        obs += C.read_ndjson(o(n))
    if fs_nobody and "obs" in fs_nobody:
        obs += fs_nobody["obs"]
    C.write_ndjson(o("obs_all.ndjson"), obs)
    res_tr = C.run_tlc("Trace_Stdlib", "Trace_Stdlib.cfg", workers=4, timeout=2400,
                       env_extra={"VERIF_IN": o("obs_all.ndjson"), "VERIF_DECLS": "1"}, name="stdlib_trace_" + tier)
    C.require_tlc_ok(res_tr, "Trace_Stdlib")
    if '<<"TRACE", %d>>' % len(obs) not in res_tr.out:
        raise C.ToolError("Trace_Stdlib did not judge all %d observations" % len(obs))
    chk.add_tlc("Trace_Stdlib", res_tr, "one state per observation; Judge = Types!Member + documented result recomputed from the recorded arguments")

    seen = {}

    def violate(sig, obj):
        key = (sig.get("fn"), sig.get("kind"), sig.get("input_class"))
        seen[key] = seen.get(key, 0) + 1
        if seen[key] <= 3:
            chk.violation(sig, obj)

    for bad in res_tr.printed("BAD"):
        if bad["i"] == 0:
            violate({"fn": bad["why"].split(": ")[-1], "kind": "missing_export"}, bad)
            continue
        r = obs[bad["i"] - 1]
        if bad["why"].startswith("GENERATOR"):
            raise C.ToolError("harness generated arguments outside the declared parameter types: %s" % json.dumps(r)[:600])
        if r["ev"] == "decl":
            violate({"fn": r["name"], "kind": "declared_type"}, {"why": bad["why"], "observed": r})
        elif r["ev"] == "stdin":
            violate({"fn": "std.io.cgetline", "kind": "cgetline", "stdin": r["stdin"]}, {"why": bad["why"], "observed": r})
        else:
            violate({"fn": r["name"], "kind": "judgement", "input_class": classify(r["name"], r["args"]), "program": r.get("text", "")},
                    {"why": bad["why"], "program": r.get("text"), "route": r["route"], "args": r["args"],
                     "expected": bad.get("expected", "a member of the declared result type"), "observed": r["out"]})

    # ---- spec -> impl: the harness' comparisons with TLC's predictions
    rep = _load(o("sum_replay.json"))
    rnd = _load(o("sum_random.json"))
    for m in rep["mismatches"] + rnd["mismatches"]:
        violate({"fn": m["name"], "kind": m["kind"], "input_class": classify(m["name"], m["args"]), "program": m.get("program", "")}, m)
    for s in stdin_sums:
        for m in s["mismatches"]:
            violate({"fn": "std.io.cgetline", "kind": "cgetline", "stdin": m["stdin"]}, m)
    fs_runs = [fs_root] + ([fs_nobody] if fs_nobody and "behaviours" in fs_nobody else [])
    for s in fs_runs:
        for m in s["mismatches"]:
            violate({"fn": "std.fs.%s" % m["f"], "kind": m["kind"], "p": m["p"], "q": m["q"],
                     "input_class": json.dumps(m["tree_before"], sort_keys=True)}, m)

    # ---- impl -> spec for the file system: random walks judged by Trace_Fs
    chk.add_tlc("Trace_Fs", res_walk, "one state per recorded event: Fs!Step with the logged call must give the logged result and tree")
    events = C.read_ndjson(o("fswalk.ndjson"))
    if '<<"TRACE", %d>>' % len(events) not in res_walk.out:
        raise C.ToolError("Trace_Fs did not consume all %d events" % len(events))
    for bad in res_walk.printed("BAD"):
        e = events[bad["i"] - 1]
        start = max(j for j in range(bad["i"]) if events[j]["ev"] == "init")
        history = [{"f": x["f"], "p": "/".join(x["p"]), "q": "/".join(x["q"]), "returned": x["ret"]} for x in events[start + 1:bad["i"]]]
        violate({"fn": "std.fs.%s" % e["f"], "kind": "fs_walk", "p": "/".join(e["p"]), "q": "/".join(e["q"]),
                 "input_class": json.dumps(events[bad["i"] - 2]["tree"], sort_keys=True)},
                {"initial_tree": events[start]["tree"], "calls": history, "expected": bad,
                 "observed": {"returns": e["ret"], "raw": e["raw"], "tree": e["tree"]}})

    # ---- coverage
    cov = chk.cov
    fs_beh = sum(s["behaviours"] for s in fs_runs)
    fs_calls = sum(s["calls"] for s in fs_runs)
    stdin_calls = sum(s["calls"] for s in stdin_sums)
    cov["traces_validated_against_impl"] = walk_sum["walks"] + rep["calls"] + rnd["calls"] + fs_beh + stdin_calls + sum(1 for r in obs if r["ev"] == "decl")
    cov["evaluations"] = rep["calls"] + rnd["calls"] + fs_calls + walk_sum["calls"] + stdin_calls + len(obs) + len(events)
    nt = res_tr.printed("NONTRIVIAL")
    nontrivial_calls = nt[0]["n"] if nt else 0
    fs_nontrivial = sum(s.get("nontrivial", 0) for s in fs_runs)
    cov["distinct_nontrivial"] = nontrivial_calls + fs_nontrivial
    cov["rule"] = ("distinct (export, argument vector) pairs among the judged calls for which docs/stdlib.md fixes the result "
                   "(exact prediction or the split/join law; counted by Trace_Stdlib as a set) = %d, plus distinct std.fs call "
                   "sequences in which at least one call succeeded (changed or read the tree) = %d" % (nontrivial_calls, fs_nontrivial))
    cov["exhaustive"] = True
    cov["exhaustive_note"] = ("boundary table and fs call sequences up to the depth are enumerated completely; "
                              "the seeded random arguments and (quick tier) the sampled length-3 fs sequences are not")
    cov["boundary_cases"] = rep["cases"]
    cov["exports"] = rep["exports_called"]
    cov["random_calls"] = rnd["calls"]
    cov["fs_behaviours"] = fs_beh
    cov["fs_calls_executed"] = fs_calls
    cov["fs_successful_calls"] = sum(s["successful_calls"] for s in fs_runs)
    cov["cgetline_calls"] = stdin_calls
    cov["fs_random_walks"] = walk_sum
    cov["observations_judged_by_tlc"] = len(obs)
    cov["mismatch_counts"] = {"replay": rep["mismatch_counts"], "random": rnd["mismatch_counts"],
                              "fs": [s["mismatch_counts"] for s in fs_runs], "trace_rejected": len(res_tr.printed("BAD"))}
    cov["doc_readings"] = C.read_ndjson(o("stdlib_docreadings.ndjson"))
    cov["notes"] = ["std.fs.copy_file(f, f) returns () and leaves f empty (std::fs::copy truncates the target first); "
                    "Fs.tla does not enumerate copy onto the same path; outside C18's statement, reported to the lead"]
    if not fs_root["permissions_enforced"]:
        if fs_nobody is None:
            chk.inconclusive("unwritable directory: permissions are not enforced for this user and setpriv is unavailable",
                             fs_root["initial_trees_skipped_unwritable"])
        elif "failed" in fs_nobody:
            chk.inconclusive("unwritable directory: re-run as nobody failed: " + fs_nobody["failed"][:200],
                             fs_root["initial_trees_skipped_unwritable"])
        elif not fs_nobody["permissions_enforced"]:
            chk.inconclusive("unwritable directory: permissions not enforced even as nobody",
                             fs_nobody["initial_trees_skipped_unwritable"])
    for s in rep["samples"][:2]:
        chk.sample(s)
    for s in fs_root["samples"][:2]:
        chk.sample(s)
    if stdin_sums:
        chk.sample({"cgetline": "see obs_stdin.ndjson", "calls": stdin_calls})
    chk.assumptions += [
        "TLC/SANY and the CommunityModules are correct",
        "the harness' value/type serialiser and argument renderer (harness/src/stdlibx.rs, wire.rs) are faithful",
        "float math functions (sin, ln, ... and the sign of zero results of rounding) are checked for declared type / no "
        "panic / equality of the two routes only: IEEE-754 results are outside what TLA+ expresses; classification "
        "predicates, to_bits/from_bits and rounding of exact half-integers are predicted from the bit pattern",
        "operating-system error codes and messages are not modelled (success/failure class and resulting tree only)",
        "to_string/print text, parse_float, to_lowercase/to_uppercase beyond ASCII, str_from_utf8_lossy on invalid input, "
        "split/replace on the empty pattern (join law only), std.operators.float_sum/float_product and std.operators.* on "
        "iterators that are not `array~` are checked for type / no panic only",
        "fs: single process, no symlinks, names p q d d/x, file contents are short tokens; resource exhaustion excluded",
        "docs/stdlib.md headings are read as listed in coverage.doc_readings (Stdlib!DocReadings)",
    ]
    return chk.finish()
