"""C03 — parsing and checking is total: any text yields a program or an error, never a panic.

spec/Syntax.tla states the token alphabet, the outcome machine Parse(text) in {Program, Error},
the abstract grammar without typing constraints, the mutation operators and the folding sub-suite.
TLC explores three state graphs whose states are the cases and writes every state, with the
specification's prediction, the moment it discovers it:
  MC_Syntax      (a) token sequences of length <= 3, (b) ASTs of depth <= 2 + restricted depth 3,
                 the folding sub-suite (seed x live/dead nesting, one and two levels)
  MC_SyntaxMut   (c) every single-token deletion / duplication / replacement of the tokenised corpus
                 and of accepted programs of (b)   (input through VERIF_IN)
  MC_SyntaxWalk  thorough: `tlc -simulate` random walks of the grammar to depth 5
`vh total ...` joins the tokens, runs Code::parse / Variable::from_str / Type::from_str in child
processes under catch_unwind with a location-recording panic hook and compares the observed
outcome with the specification's prediction; a panic or an abort is not a state of the outcome
machine.  Thorough adds seeded byte/char mutations of the corpus."""
import glob
import json
import os
import time
from vlib import common as C

CORPUS = os.path.join(C.VERIF, "corpus")
JOPTS = "-Xss1g -Dfile.encoding=UTF-8"


def count_lines(path):
    if not os.path.exists(path):
        return 0
    with open(path, "rb") as f:
        return sum(1 for _ in f)


TIMES = {}


def vh_json(args, timeout=3000):
    t0 = time.time()
    rc, txt = C.run_vh(["total"] + args, timeout=timeout)
    TIMES["vh total " + args[0]] = round(time.time() - t0, 1)
    try:
        r = json.loads(txt)
    except ValueError:
        raise C.ToolError("vh total %s did not print JSON: %s" % (args[0], txt[-500:]))
    if "error" in r:
        raise C.ToolError("vh total %s: %s" % (args[0], r["error"]))
    return r


def signature(d):
    ex = d["example"]
    kind = ex.get("kind", "")
    if kind == "panic":
        return {"location": ex["location"], "message": ex["message"]}
    if kind == "abort":
        return {"kind": "abort", "status": ex.get("status", "").split(";")[0]}
    return {"kind": kind, "key": d["key"]}


def run(tier):
    thorough = tier == "thorough"
    chk = C.Check("C03", tier)
    for old in glob.glob(os.path.join(C.REPLAY, "C03", "C03_%s_*.json" % tier)):
        os.remove(old)     # replay files of an earlier run of this tier
    out = C.workdir("c03_out")
    env = {"VERIF_OUT": out, "VERIF_SEED": C.seed(), "JAVA_TOOL_OPTIONS": JOPTS}
    stages = {}

    # ---- stage 1: token sequences, ASTs, folding sub-suite ------------------------------
    cfg = "MC_Syntax_thorough.cfg" if thorough else "MC_Syntax.cfg"
    res = C.run_tlc("MC_Syntax", cfg, workers=4, timeout=3000 if thorough else 400, env_extra=env,
                    name="syntax_" + tier)
    C.require_tlc_ok(res, "MC_Syntax (alphabet, sorts, bracket discipline, nesting bound, outcome machine)")
    chk.add_tlc("MC_Syntax", res, "states = cases: token sequences <= 3, ASTs depth <= 2 (+ restricted 3), "
                "folding sub-suite; invariants TokInv AstInv FoldInv OutcomeInv ContextInv")
    written = sum(count_lines(os.path.join(out, f)) for f in
                  ("syntax_tok.ndjson", "syntax_ast.ndjson", "syntax_fold.ndjson"))
    if written != res.distinct - 1:
        raise C.ToolError("MC_Syntax wrote %d cases but found %d distinct states" % (written, res.distinct))

    if thorough:
        wres = C.run_tlc("MC_SyntaxWalk", "MC_SyntaxWalk.cfg", workers=1, timeout=1200, env_extra=env,
                         simulate=12000, depth=6, extra=["-seed", str(C.seed())], name="syntax_walk")
        if wres.rc != 0 or wres.violated:
            C.require_tlc_ok(wres, "MC_SyntaxWalk (random walks to depth 5)")
        m = __import__("re").search(r"(\d+) states checked", wres.out)
        walk_states = int(m.group(1)) if m else 0
        chk.cov["tlc_runs"].append({"name": "MC_SyntaxWalk (-simulate)", "states_checked": walk_states,
                                    "wall_s": round(wres.wall, 1), "note": "random walks of the grammar to depth 5"})
        chk.cov["states"] += count_lines(os.path.join(out, "syntax_walk.ndjson"))

    gen = vh_json(["gen", out, "1500" if thorough else "300"])
    stages["generated (tokens, ASTs, folding" + (", walks)" if thorough else ")")] = gen

    # ---- stage 2: corpus, then every single-token mutation ------------------------------
    corp = vh_json(["corpus", CORPUS, out, "400"])
    stages["corpus (original text and re-joined tokens)"] = corp
    env2 = dict(env, VERIF_IN=os.path.join(out, "mut_in.ndjson"))
    mcfg = "MC_SyntaxMut_thorough.cfg" if thorough else "MC_SyntaxMut.cfg"
    mres = C.run_tlc("MC_SyntaxMut", mcfg, workers=4, timeout=3000 if thorough else 400, env_extra=env2,
                     name="syntaxmut_" + tier)
    C.require_tlc_ok(mres, "MC_SyntaxMut (MutationLaw)")
    chk.add_tlc("MC_SyntaxMut", mres, "states = mutations (program, operator, position, replacement); "
                "invariants MutInv ProgInv OutcomeInv")
    nmut = count_lines(os.path.join(out, "syntax_mut.ndjson"))
    if nmut != mres.distinct - 1 - corp["bases"]:
        raise C.ToolError("MC_SyntaxMut wrote %d mutations, expected %d" % (nmut, mres.distinct - 1 - corp["bases"]))
    mut = vh_json(["mut", out])
    stages["single-token mutations"] = mut
    if mut["cross_check_mismatches"]:
        raise C.ToolError("the harness applies a mutation differently from Syntax!Mutate: %s"
                          % json.dumps(mut["cross_check_mismatches"][0])[:600])

    if thorough:
        byt = vh_json(["bytes", CORPUS, out, "300"])
        stages["byte/char mutations"] = byt

    # ---- judgement ------------------------------------------------------------------------
    cov = chk.cov
    runs = sum(s["runs"] for s in stages.values())
    cases = sum(s["cases"] for s in stages.values())
    cov["traces_validated_against_impl"] = runs
    cov["evaluations"] = runs
    cov["distinct_nontrivial"] = sum(s["accepted_programs"] for s in stages.values())
    cov["rule"] = ("runs of Code::parse (not from_str, not bare token sequences) that returned a program, i.e. the "
                   "text passed the grammar, instruction construction, type checking and constant folding; every "
                   "case is a distinct TLC state")
    cov["exhaustive"] = True
    cov["cases"] = cases
    cov["stages"] = {k: {f: v[f] for f in ("cases", "runs", "by_outcome", "by_suite", "accepted_programs",
                                           "worker_aborts", "worker_timeouts") if f in v}
                     for k, v in stages.items()}
    cov["harness_wall_s"] = dict(TIMES)
    cov["error_classes_seen"] = sorted(set().union(*[set(s["error_classes"]) for s in stages.values()]))
    cov["forms"] = gen["forms"]
    cov["forms_never_accepted"] = gen["forms_never_accepted"]
    cov["corpus_files"] = corp["corpus_files"]
    cov["mutation_bases"] = corp["bases"]
    cov["mutants"] = mut["mutants"]
    cov["mutations_cross_checked_against_spec"] = mut["cross_checked_against_spec"]
    cov["resource_exhaustion_outside_claim"] = [
        {"text": r["text"][:200], "status": r["status"][:200], "class": r["class"]}
        for s in stages.values() for r in s["resource_exhaustion"]][:10]
    for s in stages.values():
        for x in s["samples"][:2]:
            chk.sample(x)
    for name, s in stages.items():
        n_res = len(s["resource_exhaustion"])
        if n_res:
            chk.inconclusive("resource exhaustion (stack/memory/time), outside the claim: " + name, n_res)
        for d in s["defects"]:
            ex = dict(d["example"])
            ex["occurrences"] = d["count"]
            ex["stage"] = name
            ex["reproduce"] = "harness/target/release/vh total one %s '<text>'%s" % (
                "host" if ex.get("api") == "host" else ex.get("api", "plain"),
                " " + out if ex.get("api") == "host" else "")
            chk.violation(signature(d), ex)
    # ---- imports over a changing file tree, all behaviours of MC_Imports replayed in one process
    from vlib import importswalk
    iw = importswalk.run(chk, tier)
    for m in iw["mismatches"]:
        if m["kind"] == "panic":
            chk.violation({"kind": "imports-walk-panic", "text": m.get("text"), "history": " ; ".join(m.get("history", []))}, m)
    cov["imports_walk_mismatches_of_other_properties"] = sum(1 for m in iw["mismatches"] if m["kind"] != "panic")
    chk.assumptions += [
        "TLC/SANY and the CommunityModules (Json, IOUtils.Serialize) are correct",
        "the specification enumerates the syntax space and classifies outcomes; it does not model pest's matching "
        "(DESIGN.md section 6 C03, honest limit)",
        "rendering = tokens joined by one blank (token sequences also glued), \"@kind\" in string tokens replaced by "
        "the scratch path; the lexer used to tokenise the corpus is checked by re-parsing the re-joined tokens",
        "nesting <= 40 brackets, literals small: stack/memory exhaustion is outside the claim and reported separately",
        "catch_unwind + worker exit status observe every panic/abort of Code::parse, Variable::from_str, Type::from_str",
        "bounds: " + ("all core-alphabet triples + sample of the rest, full leaf sets, 22+10 representatives, all replacements"
                      if thorough else
                      "seeded sample of token triples, reduced leaf sets for three-child forms, 8+3 representatives, "
                      "1 of 8 replacements"),
    ]
    return chk.finish()
