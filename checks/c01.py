"""C01 — type soundness: every value produced while an accepted program runs belongs to the static type the
checker computed (trace validation of hook events against Types!Member via Trace_Sound.tla)."""
from checks._soundcheck import run_sound


def run(tier):
    return run_sound("C01", tier,
        "programs of the enumerated Lang suites + seeded generated typed programs (unions, empty arrays, hidden tags, "
        "iterators pulled past exhaustion, type-changing maps, reducers over run-time-empty arrays, slices, width "
        "subtyping, functions falling off the end); every instruction result / argument / function result / cell "
        "allocation / final result is one event; distinct events are validated once; distinct_nontrivial = distinct programs",
        [])
