"""STATIC — the static semantics as a specification (spec/Static.tla) and its conformance with the checker.

Not one of C01..C20: a pseudo-property that binds the typing judgement of the specification to
`Code::parse` of the implementation.

1. cases: the programs of every Lang suite (the suites' own MC modules, run here with VERIF_OUT pointing
   into this check's work directory), seeded generated programs (`vh gen`, 3 seeds), the extra programs and
   the operator / operand-type grid owned by MC_Static (`MC_Static_extra*.cfg`);
2. TLC on the specification (MC_Static): TypeSound, Progress, SubjectNames — Static.tla against Lang.tla;
3. `vh statics`: what Code::parse says about every rendered program (accepted?, error class, static type);
4. TLC trace validation (Trace_Static): one step per record; kinds a (both accept, Matches(impl, spec)),
   b (spec only), c (impl only), d (both reject), fold (named difference D4), panic, tool.
   Both accept: EQUAL types are demanded unless the program is sensitive to constant folding
   (Static!FoldSensitive, named differences D1/D2/D5), where Matches(impl, spec) is demanded.
   Kinds a-dev, a-narrow, b, c and panic are violations; tool is a tool error."""
import collections
import json
import os
import re
import subprocess
from concurrent.futures import ThreadPoolExecutor

from vlib import common as C
from vlib import langsuite as L

SUITES = ["c04", "c06", "c07", "c11", "c12", "c12t", "c13"]
DEV_KINDS = ("a-dev", "a-narrow", "b", "c", "panic")


def _suite(s, tier, out):
    module, qcfg, tcfg, _ = L.SUITES[s]
    # the longest enumeration gets two workers, the others one: four TLC workers in all (three lanes)
    res = C.run_tlc(module, tcfg if tier == "thorough" else qcfg, workers=2 if s == "c12" else 1, timeout=3000,
                    env_extra={"VERIF_OUT": out}, name="static_src_%s_%s" % (s, tier))
    C.require_tlc_ok(res, "%s (source of the cases of suite %s)" % (module, s))
    paths = [os.path.join(out, s + "_cases.ndjson")]
    neg = os.path.join(out, s + "_neg_cases.ndjson")
    if os.path.exists(neg):
        paths.append(neg)
    return s, res, paths


def _extra(tier, work):
    dummy = os.path.join(work, "empty.ndjson")
    with open(dummy, "w") as f:
        f.write(json.dumps({"id": "none", "suite": "none", "negative": False, "prog": []}) + "\n")
    cfg = "MC_Static_extra_thorough.cfg" if tier == "thorough" else "MC_Static_extra.cfg"
    res = C.run_tlc("MC_Static", cfg, workers=1, timeout=1200, env_extra={"VERIF_OUT": work, "VERIF_IN": dummy},
                    name="static_extra_" + tier)
    C.require_tlc_ok(res, "MC_Static (emission of the extra programs and the grid)")
    return "extra", res, [os.path.join(work, "static_extra.ndjson"), os.path.join(work, "static_grid.ndjson")]


def _gen(salt, n, work):
    path = os.path.join(work, "gen_%d.ndjson" % salt)
    C.run_vh(["gen", str(n), path], env_extra={"VERIF_SEED": str(C.seed() * 1000 + 500 + salt)})
    return "gen%d" % salt, None, [path]


def _normalise(sources, out):
    """One case file: {id, suite, negative, prog} per line (ids of generated programs made unique)."""
    n = 0
    by_suite = collections.Counter()
    with open(out, "w") as o:
        for name, paths in sources:
            for p in paths:
                for d in C.read_ndjson(p):
                    cid = d["id"] if not name.startswith("gen") else "%s-%s" % (name, d["id"])
                    row = {"id": cid, "suite": d.get("suite", name), "negative": bool(d.get("negative", False)),
                           "prog": d["prog"]}
                    o.write(json.dumps(row, separators=(",", ":")) + "\n")
                    by_suite[row["suite"]] += 1
                    n += 1
    return n, dict(by_suite)


def _probe(text, work, i):
    """`vh run` on one program text: what happens when an accepted program is executed."""
    p = os.path.join(work, "probe_%d.sl" % i)
    with open(p, "w") as f:
        f.write(text)
    try:
        rc, out = C.run_vh(["run", "-"], stdin_path=p, timeout=120, check=False)
        return json.loads(out) if out and out.strip().startswith("{") else {"rc": rc, "out": (out or "")[-400:]}
    except C.ToolError as e:
        return {"error": str(e)}


def run(tier):
    chk = C.Check("STATIC", tier)
    work = C.workdir("static_" + tier)
    suites_out = os.path.join(work, "suites")
    os.makedirs(suites_out, exist_ok=True)
    C.build_harness()
    n_gen = 1000 if tier == "thorough" else 100

    # ---- 1. the cases (three lanes, at most 4 TLC workers at a time)
    jobs = [lambda s=s: _suite(s, tier, suites_out) for s in sorted(SUITES, key=lambda s: s not in ("c12", "c13", "c12t"))]
    jobs.append(lambda: _extra(tier, work))
    jobs += [lambda k=k: _gen(k, n_gen, work) for k in (1, 2, 3)]
    with ThreadPoolExecutor(max_workers=3) as ex:
        done = list(ex.map(lambda j: j(), jobs))
    sources = []
    for name, res, paths in done:
        if res is not None:
            chk.add_tlc("source:" + name, res, "enumeration of the cases (the suite's own laws hold on the specification)")
        sources.append((name, paths))
    allc = os.path.join(work, "all_cases.ndjson")
    n_cases, by_suite = _normalise(sources, allc)

    # ---- 2. laws on the specification  ||  3. the implementation's checker on every program
    rec = os.path.join(work, "records.ndjson")
    with ThreadPoolExecutor(max_workers=2) as ex:
        f_mc = ex.submit(C.run_tlc, "MC_Static", "MC_Static_thorough.cfg" if tier == "thorough" else "MC_Static.cfg",
                         workers=3, timeout=3000, env_extra={"VERIF_IN": allc}, name="static_mc_" + tier,
                         extra=["-continue"], heap="6g" if tier == "thorough" else "3g")
        f_vh = ex.submit(C.run_vh, ["statics", allc, rec], timeout=3000)
        mc = f_mc.result()
        rc, txt = f_vh.result()
    summary = json.loads(txt)
    chk.add_tlc("MC_Static", mc, "one state per program: TypeSound, Progress, SubjectNames (Static.tla against Lang.tla)")
    broken = {tag: mc.printed(tag) for tag in ("TYPESOUND", "PROGRESS", "SUBJECTNAMES")}
    posrej = mc.printed("POSREJ")
    negacc = mc.printed("NEGACC")
    dishonest = mc.printed("DISHONEST")
    if any(broken.values()) or '"CASES"' not in mc.out:
        for tag, items in broken.items():
            for it in items[:5]:
                print("SPEC-LAW %s fails for case %s: %s" % (tag, it.get("id"), json.dumps(it)[:300]))
        raise C.ToolError("the static semantics does not satisfy its laws against the dynamic semantics (MC_Static); "
                          "see work/tlc_static_mc_%s.log" % tier)

    # ---- 4. trace validation: one step per record
    tr = C.run_tlc("Trace_Static", "Trace_Static_thorough.cfg" if tier == "thorough" else "Trace_Static.cfg",
                   workers=4, timeout=3000, env_extra={"VERIF_IN": allc, "VERIF_REC": rec}, name="static_trace_" + tier,
                   extra=["-continue"], heap="6g" if tier == "thorough" else "3g")
    chk.add_tlc("Trace_Static", tr, "one state per record of the implementation's checker")
    if '"RECORDS"' not in tr.out or "Consumed" in tr.out and "violated" in tr.out:
        raise C.ToolError("Trace_Static did not consume every record; see work/tlc_static_trace_%s.log" % tier)
    kinds = collections.Counter()
    n_sensitive = 0
    for k, eq, sens in re.findall(r'^<<"K", "([^"]+)", (TRUE|FALSE), (TRUE|FALSE)>>$', tr.out, re.M):
        kinds[k + ("=" if eq == "TRUE" else "")] += 1
        n_sensitive += sens == "TRUE"
    devs = tr.printed("DEV")
    wider = tr.printed("WIDER")
    if sum(kinds.values()) != n_cases:
        raise C.ToolError("Trace_Static judged %d of %d records" % (sum(kinds.values()), n_cases))
    tools = [d for d in devs if d["kind"] == "tool"]
    texts = {}
    distinct = set()
    with open(rec + ".text") as f:
        for line in f:
            d = json.loads(line)
            texts[d["i"]] = d
            distinct.add(d["text"])
    if tools:
        d = tools[0]
        raise C.ToolError("a program the specification accepts could not be rendered / parsed, or records out of step: %s\n%s"
                          % (json.dumps(d)[:400], texts.get(d["i"], {}).get("detail", "")[:400]))

    # ---- violations
    suites_of = {}
    for d in devs:
        if d["kind"] not in DEV_KINDS:
            continue
        t = texts.get(d["i"], {})
        spec = d["spec"].get("why") if d["spec"].get("k") == "reject" else "type"
        impl = d["impl"].get("why") if d["impl"].get("k") == "reject" else "type"
        sig = {"kind": d["kind"], "spec": spec, "impl": impl, "program": t.get("text", "")}
        replay = {"case": d["id"], "kind": d["kind"],
                  "meaning": {"a-dev": "both accept but Matches(implementation's type, specification's type) fails",
                              "a-narrow": "both accept, the implementation's type is strictly narrower than the specification's "
                                          "and the program is not sensitive to constant folding",
                              "b": "the specification accepts, the implementation's checker rejects",
                              "c": "the specification rejects, the implementation's checker accepts",
                              "panic": "the checker panicked"}[d["kind"]],
                  "specification": d["spec"], "implementation": d["impl"], "checker_message": t.get("detail", ""),
                  "program": t.get("text", "")}
        if d["kind"] in ("c", "a-dev", "a-narrow") and len(suites_of) < 40:
            replay["run"] = _probe(t.get("text", ""), work, d["i"])
            ex_ = replay["run"].get("exec") if isinstance(replay["run"], dict) else None
            replay["goes_wrong_when_run"] = bool(isinstance(ex_, dict) and "panic" in ex_)
        suites_of[d["i"]] = 1
        chk.violation(sig, replay)

    # ---- evidence
    cov = chk.cov
    cov["traces_validated_against_impl"] = n_cases
    cov["evaluations"] = n_cases
    cov["distinct_nontrivial"] = len(distinct)
    cov["rule"] = "distinct rendered program texts checked by Code::parse and judged by Trace_Static"
    cov["by_suite"] = by_suite
    cov["kinds"] = dict(kinds)
    cov["kinds_legend"] = ("a=: both accept, equal types; a: both accept, fold-sensitive program, implementation strictly more "
                           "precise (D1/D2); c-fold: fold-sensitive program accepted by the implementation only (D5); b-decl / c-decl: a function "
                           "literal bound to a name its body mentions is a declaration in the text (D8); d: both reject; "
                           "d-syntax: rejected AST not in the grammar; fold: constant sub-expression failed while folded (D4); "
                           "a-dev / a-narrow / b / c / panic: deviations")
    cov["fold_sensitive_programs"] = n_sensitive
    cov["implementation_checker"] = summary
    cov["generated_programs"] = 3 * n_gen
    cov["negatives_accepted_by_the_specification"] = {"count": len(negacc), "ids": [x["id"] for x in negacc[:12]]}
    cov["accepted_programs_with_dishonest_annotations_not_judged_dynamically"] = {
        "count": len(dishonest), "ids": [x["id"] for x in dishonest[:12]],
        "note": "untyped `mut e' whose stated cell type is not TypeOf(e), or `$+'/`$*' with the wrong element kind (near-miss programs)"}
    cov["positives_rejected_by_the_specification"] = {"count": len(posrej), "ids": [x["id"] for x in posrej[:12]]}
    cov["implementation_strictly_more_precise"] = {"count": len(wider),
                                                   "samples": [{"id": w["id"], "spec": w["spec"], "impl": w["impl"]} for w in wider[:6]]}
    cov["exhaustive"] = True
    cov["exhaustive_over"] = ("operator / operand-type grid (MC_Static!Grid): 19 binary operators x %s operand types squared, 12 assignment "
                         "operators x targets x operand types, %d one-operand forms x 28 operand types"
                         % ("28" if tier == "thorough" else "12", 60))
    for i in sorted(texts)[:: max(1, len(texts) // 5)][:5]:
        chk.sample({"id": texts[i]["id"], "program": texts[i]["text"][-600:], "checker": texts[i]["detail"][:200]})
    chk.assumptions += [
        "TLC/SANY/CommunityModules are correct",
        "harness/src/render.rs (AST -> source text) is faithful; wire.rs type conversion is faithful",
        "relation: accepted by both => equal static types; for fold-sensitive programs Matches(implementation's type, TypeOf); "
        "named differences D1..D8 in spec/Static.tla",
        "a rejection of the implementation with the class of a run-time error (constant folding, D4) is not compared",
        "Lang.tla's `tick'/`mark' need the log cell: Static.tla rejects a program that shadows `log' and then ticks"]
    return chk.finish()
