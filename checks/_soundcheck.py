"""C01 / C02 share their runs: all Lang suites + generated programs, hooks on, every event validated."""
import os
from vlib import common as C
from vlib import langsuite as L
from vlib import gensuite as G

QUICK_SUITES = ["c07", "c06", "c11", "c13", "c12t"]
ALL_SUITES = ["c07", "c06", "c11", "c13", "c12t", "c12", "c04"]


def run_sound(prop, tier, rule, assumptions):
    chk = C.Check(prop, tier)
    results = []
    for s in (ALL_SUITES if tier == "thorough" else QUICK_SUITES):
        results.append(L.run_suite(chk, s, tier))
    n = 6000 if tier == "thorough" else 700
    results.append(G.run_gen(chk, tier, n))
    merged = os.path.join(C.workdir("sound_" + prop), "events.ndjson")
    with open(merged, "w") as out:
        for r in results:
            with open(r["events_path"]) as f:
                out.write(f.read())
    bad, nev = L.validate_events(chk, merged, prop.lower())
    L.fill_coverage(chk, results, nev, rule)
    chk.cov["generated_programs"] = n
    others = L.report(chk, prop, results, bad, attribute=G.attribute)
    chk.cov["violations_of_other_properties_seen"] = others
    chk.assumptions += assumptions + [
        "TLC/SANY/CommunityModules are correct",
        "hooks (cfg simplesl_verif) report what the surrounding code did; placeholder-typed library closures (MAP/FILTER/ITER bodies) are not judged, the user callbacks they invoke are",
        "events are judged one by one by Trace_Sound.tla (value in the static type the implementation computed, by tag and by contents)"]
    return chk.finish()
