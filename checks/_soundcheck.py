"""C01 / C02 share their runs: all Lang suites + generated programs, hooks on, every event validated."""
import os
from vlib import common as C
from vlib import langsuite as L
from vlib import gensuite as G

QUICK_SUITES = ["c07", "c06", "c11", "c13", "c12t"]
ALL_SUITES = ["c07", "c06", "c11", "c13", "c12t", "c12", "c04"]


def run_grid(chk, tier):
    """The operator / operand-type grid and the extra programs of the static semantics (MC_Static: every binary and
    assignment operator x pairs of operand types, every one-operand form x operand types; most of them ill-typed).
    No outcome is predicted here: the checker may refuse a program; one it accepts — as written and with its
    operands visible to the folder — is run with the hooks on, judged event by event, and must not panic."""
    import json
    from checks import static as S
    work = C.workdir("sound_grid")
    _, res, paths = S._extra(tier, work)
    chk.add_tlc("MC_Static(grid)", res, "emission of the operator / operand-type grid and the extra programs")
    cases = os.path.join(work, "grid_cases.ndjson")
    with open(cases, "w") as out:
        for p in paths:
            for d in C.read_ndjson(p):
                if d["id"] == "static-params-duplicate-name":
                    # two parameters of one name: the recorder identifies arguments by parameter name and cannot
                    # tell them apart (the later parameter is the one the body sees); not judged by events
                    continue
                out.write(json.dumps({"id": d["id"], "suite": "grid", "prog": d["prog"], "negative": True, "twin": True,
                                      "exp": {"status": "rejected", "v": {"k": "void"}, "log": []}}) + "\n")
        for c in boundary_arith_cases():
            out.write(json.dumps(c) + "\n")
    events = os.path.join(work, "events.ndjson")
    rc, txt = C.run_vh(["lang", cases, events], timeout=3000)
    r = json.loads(txt)
    r["events_path"] = events
    r["suite"] = "grid"
    return r


def boundary_arith_cases():
    """Integer operators on operands at the edges of the 64-bit range (results that wrap, 3 ** 41, 2 ** 64, MAX * MAX,
    shifts by 63 ...), with hidden operands: as an expression at top level, as the result of a function declared to
    return int, and as a compound assignment to a `mut int` cell.  The values are outside the exact range of Lang.tla,
    so no result is predicted here (C08 decides the values on limbs); what is judged is every recorded event: the
    result, the function result and the cell content must be ints (Trace_Sound), and nothing may panic."""
    MAX = 2 ** 63 - 1
    lit = lambda n: {"k": "lit", "v": {"k": "int", "v": n}}
    hide = lambda n: {"k": "hide", "ty": {"k": "int"}, "e": lit(n)}
    var = lambda n: {"k": "var", "n": n}
    INT = {"k": "int"}
    pairs = [(3, 41), (10, 19), (2, 64), (2, 63), (-2, 63), (-2, 64), (MAX, 2), (MAX, MAX), (-MAX, MAX), (MAX, 1), (-MAX, -1),
             (-MAX, 2), (2 ** 62, 2), (2 ** 62, 4), (3037000500, 3037000500), (1, 63), (-1, 63), (MAX, 63), (7, 0), (0, 7),
             (-MAX, 3), (123456789012, 987654321098), (2 ** 32, 2 ** 32), (2 ** 31, 2), (-7, 2), (7, -2)]
    ops = ["+", "-", "*", "/", "%", "**", "<<", ">>", "&", "|", "^"]
    out = []
    for op in ops:
        for (a, b) in pairs:
            if op in ("<<", ">>") and not 0 <= b <= 63:
                continue
            if op == "**" and b < 0:
                continue
            e = {"k": "bin", "op": op, "l": hide(a), "r": hide(b)}
            progs = {
                "top": [{"k": "set", "n": "r", "e": e}, var("r")],
                "fn": [{"k": "fndecl", "n": "g", "ps": [{"n": "a", "ty": INT}, {"n": "b", "ty": INT}], "r": INT,
                        "body": [{"k": "ret", "e": {"k": "bin", "op": op, "l": var("a"), "r": var("b")}}]},
                       {"k": "set", "n": "r", "e": {"k": "call", "f": var("g"), "args": [hide(a), hide(b)]}},
                       {"k": "arr", "es": [var("r"), lit(0)]}],
                "asg": [{"k": "set", "n": "c", "e": {"k": "mut", "ty": INT, "e": hide(a)}},
                        {"k": "set", "n": "y", "e": {"k": "asg", "op": op + "=", "l": var("c"), "r": hide(b)}},
                        {"k": "tup", "es": [var("y"), {"k": "deref", "e": var("c")}]}],
            }
            for form, prog in progs.items():
                out.append({"id": "arith-boundary-%s-%d,%d-%s" % (op, a, b, form), "suite": "grid", "prog": prog, "negative": True,
                            "twin": True, "exp": {"status": "rejected", "v": {"k": "void"}, "log": []}})
    return out


def run_sound(prop, tier, rule, assumptions):
    chk = C.Check(prop, tier)
    results = []
    for s in (ALL_SUITES if tier == "thorough" else QUICK_SUITES):
        results.append(L.run_suite(chk, s, tier))
    n = 6000 if tier == "thorough" else 700
    results.append(G.run_gen(chk, tier, n))
    results.append(run_grid(chk, tier))
    merged = os.path.join(C.workdir("sound_" + prop), "events.ndjson")
    with open(merged, "w") as out:
        for r in results:
            with open(r["events_path"]) as f:
                out.write(f.read())
    bad, nev = L.validate_events(chk, merged, prop.lower())
    L.fill_coverage(chk, results, nev, rule)
    chk.cov["generated_programs"] = n
    others = L.report(chk, prop, results, bad, attribute=G.attribute)
    chk.cov["violations_of_other_properties_seen"] = others
    chk.assumptions += assumptions + [
        "TLC/SANY/CommunityModules are correct",
        "hooks (cfg simplesl_verif) report what the surrounding code did; placeholder-typed library closures (MAP/FILTER/ITER bodies) are not judged, the user callbacks they invoke are",
        "events are judged one by one by Trace_Sound.tla (value in the static type the implementation computed, by tag and by contents)"]
    return chk.finish()
