"""C09 — indexing, slicing and len agree for all sequences and indices.
spec -> impl: TLC checks the consistency laws of spec/Seqs.tla (At, PySlice, SeqLen) on the universe of
MC_Seqs.tla and writes every (sequence, index) and (sequence, start, stop, step) case with the
specification's prediction; `vh seqs replay` renders each case as SimpleSL programs — folded (literal
sequence and operands), through variables, and at run time through an in-language function with a
kind-specific and a union-typed parameter — runs them and compares value / error kind, kind of the
result, std.len and membership of the value in the program's static type.
impl -> spec: `vh seqs record` drives the implementation with seeded random cases beyond the enumerated
bound; Trace_Seqs.tla accepts the recorded trace only if every outcome is the specification's."""
import json
import os
from vlib import common as C

LAWS = ("invariants: s[i] succeeds iff -n <= i < n, negative index = index from the end, i64 extremes out of "
        "bounds, s[i:i+1] = <<s[i]>>, slice keeps the kind, len(slice) = closed form, walk = declarative "
        "position set, step 0 empty, indexing a slice = indexing the sequence, absent operands = Python's "
        "defaults, saturation beyond +-(n+1) (symbolic MIN/MAX are the limit of the finite behaviour), full "
        "reverse, s[:k] ++ s[k:] = s, slices of slices compose")


def tlc_model(tier, out):
    cfg = "MC_Seqs_thorough.cfg" if tier == "thorough" else "MC_Seqs.cfg"
    res = C.run_tlc("MC_Seqs", cfg, workers=4, timeout=1800, env_extra={"VERIF_OUT": out},
                    name="seqs_" + tier)
    C.require_tlc_ok(res, "MC_Seqs (laws of At / PySlice / SeqLen)")
    return res


def validate_trace(chk, path, name, module="Trace_Seqs", sigfn=None, what="recorded runs"):
    """Run the trace specification over the recorded trace; a rejected record becomes a violation, is
    skipped, and validation goes on behind it (at most a few rounds). Returns the number of accepted
    records."""
    sigfn = sigfn or (lambda bad: signature(bad.get("op"), bad))
    rows = C.read_ndjson(path)
    accepted = 0
    for rnd in range(6):
        if not rows:
            break
        cur = path + ".cur"
        C.write_ndjson(cur, rows)
        res = C.run_tlc(module, module + ".cfg", workers=1, timeout=1800, dfs=True,
                        env_extra={"VERIF_IN": cur}, name="%s_%d" % (name, rnd))
        chk.add_tlc(module, res, "trace validation of %d %s" % (len(rows), what))
        if "ACCEPTED" in res.out and not res.violated:
            accepted += len(rows)
            return accepted
        rej = [ln for ln in res.out.splitlines() if ln.startswith('<<"REJECTED"')]
        if not rej:
            C.require_tlc_ok(res, module)
            raise C.ToolError(module + " neither accepted nor rejected the trace")
        d = int(rej[0].split(",")[1].strip(" >"))      # first record (1-based) that no step accepts
        bad = dict(rows[d - 1])
        accepted += d - 1
        bad["note"] = "the recorded outcome is not the one the specification demands (%s rejected it)" % module
        chk.violation(sigfn(bad), bad)
        rows = rows[d:]
    return accepted


def signature(kind, m):
    got = m.get("observed", m.get("got", {}))
    if kind == "slice" and got.get("k") == "panic":
        for key in ("start", "stop", "a", "b"):
            x = m.get(key)
            if isinstance(x, dict) and x.get("k") == "min" and x.get("d") == 0:
                return {"kind": "slice", "bound": "MIN_INT", "outcome": "panic", "mode": m.get("mode")}
    return {"kind": kind, "mode": m.get("mode"), "program": m.get("program")}


def run(tier):
    chk = C.Check("C09", tier)
    out = C.workdir("seqs_out")
    res = tlc_model(tier, out)
    chk.add_tlc("MC_Seqs", res, LAWS)
    uni = res.out.split('<<"UNIVERSE", ')[1].split(">>")[0] if '<<"UNIVERSE", ' in res.out else "?"
    rc, txt = C.run_vh(["seqs", "replay", out, tier], timeout=3000)
    r = json.loads(txt)
    # the other direction: random cases beyond the bound, validated by the trace specification
    n_rec = 1500 if tier == "quick" else 100000
    trace = os.path.join(out, "trace.ndjson")
    C.run_vh(["seqs", "record", str(n_rec), trace])
    accepted = validate_trace(chk, trace, "seqs_trace_" + tier)
    cov = chk.cov
    cases = r["at_cases"] + r["len_cases"] + r["slice_runs"]
    cov["traces_validated_against_impl"] = cases + accepted
    cov["evaluations"] = r["evaluations"] + n_rec
    cov["distinct_nontrivial"] = r["at_in_range"] + r["slice_nonempty"]
    cov["rule"] = ("distinct = (sequence, index) and (sequence, start, stop, step) cases of the enumerated space "
                   "(distinct by construction); non-trivial = the index is in range / the slice selects at least "
                   "one element (%d in-range of %d index cases, %d non-empty of %d slice cases, %d distinct "
                   "(sequence, result) pairs); each case is run in 2-4 renderings (folded literal, variables, "
                   "run-time function with kind-specific / union-typed parameter)"
                   % (r["at_in_range"], r["at_in_range"] + r["at_out_of_range"], r["slice_nonempty"],
                      r["slice_cases"], r["slice_distinct_results"]))
    cov["exhaustive"] = True
    cov["universe"] = "at sequences, slice sequences, indices, bounds per axis = " + uni
    cov["replay"] = {key: r[key] for key in r if key not in ("mismatches", "samples", "min_int_bound_examples")}
    cov["recorded_runs_accepted_by_trace_spec"] = accepted
    for s in r["samples"]:
        chk.sample(s)
    for m in r["min_int_bound_examples"]:
        m = dict(m)
        m["occurrences_this_run"] = r["min_int_bound_panics"]
        chk.violation(signature("slice", m), m)
    for m in r["mismatches"]:
        chk.violation(signature(m["kind"], m), m)
    chk.assumptions += [
        "TLC/SANY and the CommunityModules (Json, IOUtils, SequencesExt) are correct",
        "the harness' renderer of values / operands as source text and its tag-free description of result "
        "values (harness/src/seqs.rs: render_value, render_ext, content_of) are faithful",
        "sequences bounded to length 0..4 (quick) / 0..6 (thorough) over four scalar values of 1-4 UTF-8 bytes and "
        "four element kinds; slices over 4-6 sequences per length and kind; operands -(n+3)..n+3 plus MIN_INT, "
        "MIN_INT+1, MAX_INT(-1); the symbolic extremes are justified by the saturation laws checked on the "
        "finite part of the axes (Seqs.tla header); recorded runs: length 0..12, operands up to 10^6, around "
        "2^29 and within 2 of the extremes",
        "a slice operand that cannot be written as a literal (MIN_INT) is rendered -9223372036854775807-1",
    ]
    return chk.finish()
