"""C17 — embedding API: MC_C17.tla (the API as a state machine over Lang.tla's machine; ReplEqualsBatch and
FailuresAgree are invariants of every reachable REPL state; host-call acceptance rule) + replay through
Code::parse / exec_unscoped / exec / Function::create_call."""
import json
import os
from vlib import common as C


def run(tier):
    chk = C.Check("C17", tier)
    out = C.workdir("c17")
    cfg = "MC_C17_thorough.cfg" if tier == "thorough" else "MC_C17.cfg"
    res = C.run_tlc("MC_C17", cfg, workers=8, timeout=3000, env_extra={"VERIF_OUT": out}, name="c17_" + tier,
                    heap="8g" if tier == "thorough" else "3g")
    C.require_tlc_ok(res, "MC_C17 (ReplEqualsBatch, FailuresAgree, HostCallsSound)")
    chk.add_tlc("MC_C17", res, "states = REPL states reachable by feeding every session in every split")
    rc, txt = C.run_vh(["api", out], timeout=3000)
    r = json.loads(txt)
    # the scope API of Interpreter (insert / create_layer / drop_layer / get_variable) as its own state machine
    ires = C.run_tlc("MC_Interp", "MC_Interp_thorough.cfg" if tier == "thorough" else "MC_Interp.cfg", workers=4, timeout=1200,
                     name="interp_" + tier)
    C.require_tlc_ok(ires, "MC_Interp (NearestWins, DropRestores)")
    chk.add_tlc("MC_Interp", ires, "scope API: layers, lookups, drop")
    ilog = os.path.join(C.WORK, "tlc_interp_%s.log" % tier)
    rc, itxt = C.run_vh(["interp", ilog])
    ir = json.loads(itxt)
    for m in ir["mismatches"]:
        chk.violation({"kind": "interpreter-scope-api", "what": m.get("kind")}, m)
    cov = chk.cov
    cov["scope_api_behaviours"] = ir["behaviours"]
    cov["scope_api_lookups_checked"] = ir["checks"]
    cov["traces_validated_against_impl"] = r["repl_inputs"] + r["host_calls"] + r["sessions"] + ir["behaviours"]
    cov["evaluations"] = r["repl_inputs"] + r["host_calls"] + 2 * r["sessions"]
    cov["distinct_nontrivial"] = r["sessions"] + r["host_calls"]
    cov["rule"] = ("every sequence of <= MaxLen statements from a 12-statement pool (constants, hidden values, cells, closures, "
                   "re-declaration, functions, a failing input) x every split into REPL inputs x every prefix: last result and all "
                   "top-level variables on both routes and against the specification; whole session parsed once and exec()'d twice "
                   "(interpreter untouched, equal results); %d function values x argument vectors (well/ill-typed, wrong arity): "
                   "create_call acceptance = specification's rule = in-language acceptance, equal results" % 7)
    cov["exhaustive"] = True
    cov["prefix_comparisons"] = r["prefix_comparisons"]
    cov["mismatch_counts"] = r["mismatch_counts"]
    for s in r["samples"]:
        chk.sample(s)
    for m in r["mismatches"]:
        if m["kind"] == "panic":
            continue  # C02 / C03 report panics; here they only end the comparison
        chk.violation({"kind": m["kind"], "what": m.get("what", "")[:160], "program": m.get("program", m.get("call", ""))}, m)
    from vlib import codeswalk
    codeswalk.run(chk, tier)
    chk.assumptions += ["the incremental route may reject more programs than the batch route (it sees values where the batch route sees types): not compared",
                        "repeatability of exec() is demanded when the program left the host's own cell untouched"]
    return chk.finish()
