"""C20 — literal values survive printing and re-parsing.
spec/Print.tla (part 2) fixes the token structure of a value's text (PrintVal: brackets, separators,
where minus signs and quoted strings go), transcribes the two readers (var_from_str for
Variable::from_str; the expression grammar with unary minus for programs) and gives the value of
every integer literal form in 8-bit limbs with overflow detection (FromDigits).  TLC checks
LitRoundTrip / ProgRoundTrip on nested values to depth 3 over boundary leaf tables (MC_PrintVal) and
emits each value, its token structure, its tag and what each route must answer; the harness
(vh print vals / lits) builds the value, prints it with {:?}, compares the structure, reads the text
back with Variable::from_str and as a program and compares bit for bit and by type tag.
Other direction: seeded random deeper values with random leaves are round-tripped by the harness and
every record (value, tokens, outcomes) is validated by TLC (MC_PrintValTrace).
Digit-level float formatting and the string escape alphabet are encode/decode fidelity that TLA+
cannot express: there the oracle for a leaf is the round-trip equation itself."""
import json
import os
import re
from vlib import common as C


def run(tier):
    thorough = tier == "thorough"
    chk = C.Check("C20", tier)
    out = C.workdir("print_vals_" + tier)
    res = C.run_tlc("MC_PrintVal", "MC_PrintVal_thorough.cfg" if thorough else "MC_PrintVal.cfg", workers=8 if thorough else 4,
                    timeout=3000 if thorough else 600, env_extra={"VERIF_OUT": out}, name="printval_" + tier)
    C.require_tlc_ok(res, "MC_PrintVal (round trips on both routes, MIN_INT, limb arithmetic, literal forms)")
    chk.add_tlc("MC_PrintVal", res, "invariants: LitRoundTrip, ProgRoundTrip (overflow iff MIN_INT inside), routes agree, "
                "MIN_INT is the only int whose magnitude is not an int, decimal table = limbs, radix 2/8/16 digits "
                "round-trip, FromDigits = Horner on small forms, leading zeros / underscores do not change the value, "
                "from_str and program differ exactly at -2^63, parentheses transparent in programs, LitPrintsBack on near misses")
    m = re.search(r'<<"PRINTVAL_UNIVERSE", (\d+), (\d+), (\d+), \d+>>', res.out)
    if not m:
        raise C.ToolError("MC_PrintVal did not report its universe")
    n_vals, n_forms, n_leaves = (int(x) for x in m.groups())
    # ---- spec -> impl
    rc, txt = C.run_vh(["print", "vals", out], timeout=3000)
    rv = json.loads(txt)
    rc, txt = C.run_vh(["print", "lits", out], timeout=3000)
    rl = json.loads(txt)
    for r in (rv, rl):
        if "error" in r:
            raise C.ToolError("vh print: " + r["error"])
    if rv["values"] != n_vals or rl["forms"] != n_forms:
        raise C.ToolError("the harness did not replay every emitted case")
    def size(mm):
        return len(str(mm.get("text") or ""))
    rv["mismatches"].sort(key=size)   # simplest failing text first
    rl["mismatches"].sort(key=size)
    for mm in rv["mismatches"]:
        chk.violation({"kind": mm["kind"], "text": mm.get("text"), "value": json.dumps(mm.get("value"), sort_keys=True)}, mm)
    for mm in rl["mismatches"]:
        chk.violation({"kind": mm["kind"], "text": mm.get("text")}, mm)
    # ---- impl -> spec
    n, depth = (60000, 5) if thorough else (2500, 5)
    trace = os.path.join(out, "gen_vals.ndjson")
    rc, txt = C.run_vh(["print", "genvals", str(n), str(depth), trace])
    g = json.loads(txt)
    for mm in g["mismatches"]:
        chk.violation({"kind": "gen_" + mm["kind"], "text": mm.get("text")}, mm)
    tres = C.run_tlc("MC_PrintValTrace", "MC_PrintValTrace.cfg", workers=8 if thorough else 4, timeout=1800, heap="6g" if thorough else "3g",
                     env_extra={"VERIF_IN": trace}, name="printval_trace_" + tier)
    C.require_tlc_ok(tres, "MC_PrintValTrace (validation of printed random values)")
    chk.add_tlc("MC_PrintValTrace", tres, "tokens = PrintVal(v); each route answered what the specification says")
    seen = re.search(r'<<"TRACE_RECORDS", (\d+)>>', tres.out)
    if not seen or int(seen.group(1)) != g["records"]:
        raise C.ToolError("MC_PrintValTrace did not see every record")
    rejected = sorted(int(x) for x in re.findall(r'<<"REJECT", (\d+)>>', tres.out))
    if rejected:
        recs = C.read_ndjson(trace)
        for i in rejected:
            rec = recs[i - 1]
            chk.violation({"kind": "trace_reject", "text": rec["text"]},
                          {"what": "random value: the text's structure is not PrintVal(v), or a route did not answer "
                                   "what the specification says (from_str / prog: observed outcome)", "record": rec})
    cov = chk.cov
    cov["traces_validated_against_impl"] = rv["values"] + rv["near_misses"] + rl["forms"] + g["records"]
    cov["evaluations"] = rv["evaluations"] + rl["evaluations"] + 3 * g["records"]
    cov["distinct_nontrivial"] = (n_vals - n_leaves) + rl["forms"] + g["records"]
    cov["rule"] = ("distinct nested values of the model (containers; the %d scalar leaves not counted) + distinct "
                   "integer literal forms + distinct random values (by printed text)" % n_leaves)
    cov["exhaustive"] = True
    cov["values"] = n_vals
    cov["leaves"] = n_leaves
    cov["literal_forms"] = n_forms
    cov["near_misses_from_str"] = rv["near_misses"]
    cov["literal_forms_rejected"] = rl["forms_rejected_by_from_str"]
    cov["program_route_ok"] = rv["program_route_ok"]
    cov["program_route_rejected_min_int"] = rv["program_route_rejected_min_int"]
    cov["random_values"] = {k: g[k] for k in ("generated", "records", "float_leaves", "string_leaves", "int_leaves")}
    cov["random_values"]["rejected_by_tlc"] = len(rejected)
    cov["mismatch_counts"] = {"values": rv["mismatch_counts"], "literals": rl["mismatch_counts"]}
    for s in rv["samples"][:3] + rl["samples"][:3]:
        chk.sample(s)
    chk.assumptions += [
        "TLC/SANY and the CommunityModules are correct",
        "digit-level float formatting and the string escape alphabet are not modelled (TLA+ has neither IEEE-754 nor "
        "characters): the specification fixes the structure of the text and the leaf tables; for a float or string "
        "leaf the oracle is the round-trip equation itself (bit-for-bit / code-point equality after re-parsing), "
        "evaluated by the harness on the boundary table and on seeded random leaves",
        "the harness' tokenizer for value texts (numbers with a fraction or exponent are float atoms, digits only are "
        "int atoms, a quoted string ends at the first unescaped quote) and its construction of values from the wire "
        "(ints via str::parse::<i64>, floats via f64::from_bits, strings via char::from_u32) are faithful",
        "values are what literals denote: an array's hidden element type is the join of its elements' tags (an array "
        "that carries a wider hidden type, e.g. the [int|float] slice [1, 2.5][0:1], prints as [1] and reads back as "
        "[int]: outside the quantifier); equality is bit-for-bit on floats (-0.0 is not 0.0)",
        "bounds: containers to depth 3 with reduced alphabets at depth 2 and 3 (MC_PrintVal.tla), one spine to depth 6; "
        "the debug rendering abbreviates below 6 nested containers ('..'), such values are outside the bound",
        "integer literal forms: boundary magnitudes 0, 1, 255, 256, 123456789, 2^31-1, 2^32, 2^53, 2^63-1, 2^63, "
        "2^64-1 and beyond 2^64 in radix 2, 8, 10, 16 with leading zeros, underscores in every admissible position, "
        "both hex cases, both signs, plus every well-formed body of length <= %d over {0, 1, top digit, _}; "
        "ill-formed bodies are not literal forms and are not judged" % (4 if thorough else 3),
    ]
    return chk.finish()
