"""C11 — iterator operators equal their sequence definitions: MC_C11.tla (IterLaws: machine = list-level
definitions, for results and for the log of pulls / callback applications) + replay."""
from checks._suitecheck import run_one


def run(tier):
    return run_one("C11", "c11", tier,
        "element sequences (ints, bools, mixed) x source (array-derived, user-written logging closure) x pipelines of "
        "<= 2 lazy stages (@ f, ? p, ? T) x consumer ($] \\\\ $init $+ $* $& $| $&& $|| for, manual calls past "
        "exhaustion); compared: result and the log of pulls and callback applications",
        ["the value carried by an exhausted iterator is unspecified (docs/iterators.md) and not compared"], gen=3000,
        # every consumer (incl. `for') runs the iterator in the iterator's own scope: the `noisy-*' and `rec-iter-*'
        # cases of the scope suite (an iterator body that declares the consumer's names; a recursive named iterator)
        claim=(("c06", ("noisy-", "rec-iter")),))
