"""C11 — iterator operators equal their sequence definitions: MC_C11.tla (IterLaws: machine = list-level
definitions, for results and for the log of pulls / callback applications) + replay."""
import json
import os
from checks._suitecheck import run_one
from vlib import common as C


def float_folds(chk, tier):
    """`xs~ $+` / `xs~ $*` over floats = the documented left fold from 0.0 / 1.0 with every step rounded on its own.
    Half-integers (Lang.tla's float domain) never round, so this is decided on recorded runs: the harness records the
    steps of the fold (the implementation's own binary operator; IEEE result compared with the host's f64) and the
    reduction in every execution form; Trace_Arith.tla (action FloatFold) chains the steps through its memo and accepts
    a reduction only if every form gave the end of the chain, bit for bit."""
    work = C.workdir("c11_folds")
    path = os.path.join(work, "folds.ndjson")
    _, txt = C.run_vh(["arith", "folds", path, "600" if tier == "thorough" else "120"])
    r = json.loads(txt)
    for m in r["mismatches"]:
        chk.violation({"kind": "float-fold-" + m["kind"], "op": m.get("op"), "a": m.get("a"), "b": m.get("b")}, m)
    res = C.run_tlc("Trace_Arith", "Trace_Arith.cfg", workers=1, timeout=3000, env_extra={"VERIF_IN": path}, name="trace_folds_" + tier)
    done = res.printed("TRACE_DONE")
    if res.printed("TRACE_STUCK") or not done or res.rc != 0 or done[0]["n"] != r["records"]:
        raise C.ToolError("Trace_Arith did not consume the fold trace %s" % path)
    chk.add_tlc("Trace_Arith[float folds]", res, "%d step records + %d reductions (FloatFold: every form = end of the recorded chain)"
                % (r["steps"], r["folds"]))
    recs = C.read_ndjson(path)
    for m in res.printed("MISMATCH"):
        rec = recs[m["i"] - 1]
        chk.violation({"kind": "float-fold", "op": rec["op"], "sequence": rec.get("as")},
                      {"direction": "impl->spec (Trace_Arith, FloatFold)", "sequence": rec.get("as"), "op": "$" + rec["op"],
                       "specification_expects": m["expected"], "observed": rec["rs"], "programs": rec.get("programs")})
    chk.cov["float_folds"] = {k: r[k] for k in ("sequences", "folds", "steps", "executions")}
    chk.cov["traces_validated_against_impl_extra"] = r["records"]
    for s in r["samples"][:1]:
        chk.sample(s)


def run(tier):
    return run_one("C11", "c11", tier,
        "element sequences (ints, bools, mixed) x source (array-derived, user-written logging closure) x pipelines of "
        "<= 2 lazy stages (@ f, ? p, ? T) x consumer ($] \\\\ $init $+ $* $& $| $&& $|| for, manual calls past "
        "exhaustion); compared: result and the log of pulls and callback applications",
        ["the value carried by an exhausted iterator is unspecified (docs/iterators.md) and not compared"], gen=3000,
        # every consumer (incl. `for') runs the iterator in the iterator's own scope: the `noisy-*' and `rec-iter-*'
        # cases of the scope suite (an iterator body that declares the consumer's names; a recursive named iterator)
        claim=(("c06", ("noisy-", "rec-iter")),), extra_stage=float_folds)
