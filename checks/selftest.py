"""Binding self-test (DESIGN §4.4 a): known-good traces are accepted, and the same traces with one recorded
field corrupted are rejected by the trace specifications. `./check SELFTEST quick`; exit 0 = the binding bites."""
import json
import os
from vlib import common as C
from vlib import langsuite as L


def run(tier):
    chk = C.Check("SELFTEST", tier, level="other")
    r = L.run_suite(chk, "c13", "quick")
    ev = C.read_ndjson(r["events_path"])
    work = C.workdir("selftest")
    failures = []

    def validate(events, name):
        path = os.path.join(work, name + ".ndjson")
        C.write_ndjson(path, events)
        bad, n = L.validate_events(chk, path, "selftest_" + name)
        return bad

    good = validate(ev, "good")
    if good:
        failures.append("known-good trace rejected: %s" % json.dumps(good[0])[:300])
    # 1. a value of the wrong kind in an int-typed instruction result
    i = next(k for k, e in enumerate(ev) if e["ev"] == "ret" and e["ty"] == {"k": "int"} and e["v"].get("k") == "int")
    c1 = [dict(e) for e in ev]
    c1[i] = dict(c1[i], v={"k": "string", "cps": []})
    b = validate(c1, "corrupt_ret")
    if len(b) != 1 or b[0]["i"] != i + 1:
        failures.append("corrupted ret event not (exactly) rejected: %d rejected" % len(b))
    # 2. a write whose stored value is not op(old, rhs)
    j = next(k for k, e in enumerate(ev) if e["ev"] == "write" and e["op"] == "+=" and e["new"].get("k") == "int")
    c2 = [dict(e) for e in ev]
    c2[j] = dict(c2[j], new={"k": "int", "v": c2[j]["new"]["v"] + 1})
    b = validate(c2, "corrupt_write")
    if len(b) != 1 or b[0]["i"] != j + 1:
        failures.append("corrupted write event not (exactly) rejected: %d rejected" % len(b))
    # 3. a cell allocated with a value outside its declared type
    k = next(q for q, e in enumerate(ev) if e["ev"] == "alloc" and e["ty"] == {"k": "int"})
    c3 = [dict(e) for e in ev]
    c3[k] = dict(c3[k], v={"k": "float", "v": 3})
    b = validate(c3, "corrupt_alloc")
    if len(b) != 1:
        failures.append("corrupted alloc event not rejected")
    # 4. Trace_Det: a repeated run with a different outcome
    recs = [{"id": "p1", "run": "a", "outcome": "X"}, {"id": "p2", "run": "a", "outcome": "Y"},
            {"id": "p1", "run": "b", "outcome": "X"}, {"id": "p2", "run": "b", "outcome": "Z"}]
    path = os.path.join(work, "det.ndjson")
    C.write_ndjson(path, recs)
    res = C.run_tlc("Trace_Det", "Trace_Det.cfg", workers=1, dfs=True, env_extra={"VERIF_IN": path}, name="selftest_det")
    badl = [b["l"] for b in res.printed("BAD")]
    if badl != [4]:
        failures.append("Trace_Det rejected %s instead of record 4" % badl)
    chk.cov["explanation"] = ("known-good C13 trace (%d events) accepted; 3 single-field corruptions each rejected at exactly "
                              "the corrupted event; Trace_Det rejects exactly the differing repetition" % len(ev))
    chk.cov["evaluations"] = 5
    chk.cov["distinct_nontrivial"] = 5
    for f in failures:
        chk.violation({"selftest": f[:80]}, {"failure": f})
    return chk.finish()
