"""C13 — mutable cells: MC_C13.tla (AliasesAgree, CellTyped, AssignYieldsStored, FailureLeavesContent)
+ replay of every history + validation of every recorded write event."""
from checks._suitecheck import run_one


def plain_assignment_bits(chk, tier):
    """`c = v' stores v and yields v bit for bit (the zero of the other sign over a zero, NaN): the float pairs of
    `vh arith record' (IEEE detail, not expressible in the specification's half-integer floats)."""
    import json, os
    from vlib import common as C
    work = C.workdir("c13_assign_bits")
    _, txt = C.run_vh(["arith", "record", os.path.join(work, "rec.ndjson"), "0", "300" if tier == "quick" else "5000", "-"])
    r = json.loads(txt)
    for m in r.get("mismatches", []):
        if m.get("form") == "plain_assign":
            chk.violation({"kind": "plain-assignment-not-bit-exact", "program": m.get("program"), "a": m.get("a"), "b": m.get("b")}, m)
    chk.cov["plain_assignments_checked_bitwise"] = r.get("records", 0)


def run(tier):
    return run_one("C13", "c13", tier,
        "histories of <= 2 assignments x declared cell type x alias used for the write x operator/operand pool "
        "(incl. failing operands); after every step the cell is read through all aliases; distinct by source "
        "text; compared: result, every read tuple, final content of the cell (also after a failing update)",
        ["write events are judged one by one (new = op(old, rhs), new in declared type); the order of writes to a cell is not re-validated"], gen=3000,
        extra_stage=plain_assignment_bits)
