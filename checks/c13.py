"""C13 — mutable cells: MC_C13.tla (AliasesAgree, CellTyped, AssignYieldsStored, FailureLeavesContent)
+ replay of every history + validation of every recorded write event."""
from checks._suitecheck import run_one


def run(tier):
    return run_one("C13", "c13", tier,
        "histories of <= 2 assignments x declared cell type x alias used for the write x operator/operand pool "
        "(incl. failing operands); after every step the cell is read through all aliases; distinct by source "
        "text; compared: result, every read tuple, final content of the cell (also after a failing update)",
        ["write events are judged one by one (new = op(old, rhs), new in declared type); the order of writes to a cell is not re-validated"], gen=3000)
