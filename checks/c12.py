"""C12 — control flow: MC_C12.tla (NoStuck, DeadNeverLogged, ReturnWins) + replay of every nesting."""
from checks._suitecheck import run_one


def run(tier):
    return run_one("C12", "c12", tier,
        "all nestings to depth D of the conditional / match / if-set / block / module / four loop forms inside a "
        "function called with a value of every member type of its union parameter, break/continue/return at every "
        "leaf (at depth >= 2 one of the two sub-positions is a leaf); distinct by source text; compared: "
        "the four call results and the marker log; second suite: run-time type tests (if-set / while-set / match type arms, also after value arms) over 27 test types x 30 values reaching the test through an any-typed parameter, each test instruction called with the whole history of values forwards and backwards",
        ["quick: every 3rd body of depth 2; thorough: all of depth 2 and a sample of depth 3"], extra_thorough=("c12deep",), gen=3000, extra_always=("c12t",))
