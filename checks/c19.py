"""C19 — equality is by content, independent of static or stored types.
spec -> impl: TLC checks the laws of Seqs!ValEq (symmetric, reflexive without NaN, != is the negation,
different kinds unequal, transitive, = structural equality up to the sign of zero) and that every producer
expression of MC_Eq.tla denotes its content; it writes the ValEq matrix over all contents and over all
producer pairs of small array contents under every wrapper. `vh eqv replay` renders each case as a
SimpleSL program that builds both sides along their producer paths (literal, +, slice, [v; n], $], \\ left /
right, ? p $], ? T $], any-typed parameter, union-typed cell, indexing), once with both sides bound to
variables and once inline (foldable), and compares x == y, x != y, match x { y => 1, => 0, } and y == x
with the prediction; the content matrix is also replayed at API level (Variable == Variable with
different hidden element types).
impl -> spec: `vh eqv record` generates seeded random contents and producer paths beyond the bound and
records the values the implementation produced and its four answers; Trace_Eq.tla accepts a record only if
the answers are ValEq's for the two observed values."""
import json
import os
from vlib import common as C
from checks import c09

LAWS = ("invariants: ValEq symmetric, reflexive iff NaN-free, != = not ==, different kinds unequal, transitive, "
        "ValEq = NaN-free and structurally equal up to -0.0 = 0.0; every producer expression denotes its content "
        "(Den, with PySlice / ConcatV / RepeatV / FilterSeq / PartitionSeq of Seqs) under every wrapper")


def signature(m):
    return {"kind": m.get("kind", m.get("op")), "px": m.get("px"), "py": m.get("py"), "wrapper": m.get("wrapper"),
            "mode": m.get("mode"), "program": m.get("program")}


def run(tier):
    chk = C.Check("C19", tier)
    out = C.workdir("eq_out")
    cfg = "MC_Eq_thorough.cfg" if tier == "thorough" else "MC_Eq.cfg"
    res = C.run_tlc("MC_Eq", cfg, workers=4, timeout=1800, env_extra={"VERIF_OUT": out}, name="eq_" + tier)
    C.require_tlc_ok(res, "MC_Eq (laws of ValEq, producers denote their content)")
    chk.add_tlc("MC_Eq", res, LAWS)
    rc, txt = C.run_vh(["eqv", "replay", out, tier], timeout=3000)
    r = json.loads(txt)
    n_rec = 3000 if tier == "quick" else 150000
    trace = os.path.join(out, "trace.ndjson")
    rc, txt = C.run_vh(["eqv", "record", str(n_rec), trace])
    rec = json.loads(txt)
    rows = C.read_ndjson(trace)
    failed = [x for x in rows if x.get("op") != "cmp"]
    for x in failed[:10]:
        # a generated program that does not run is either a defect or a generator hazard: never ignored
        x = dict(x)
        x["kind"] = "run"
        chk.violation(signature(x), x)
    C.write_ndjson(trace, [x for x in rows if x.get("op") == "cmp"])
    accepted = c09.validate_trace(chk, trace, "eq_trace_" + tier, module="Trace_Eq",
                                  sigfn=lambda bad: signature(dict(bad, kind="trace")),
                                  what="recorded comparisons")
    cov = chk.cov
    cov["traces_validated_against_impl"] = r["programs"] + r["api_checks"] + accepted
    cov["evaluations"] = r["evaluations"] + 4 * n_rec
    cov["distinct_nontrivial"] = r["equal_across_different_paths"]
    cov["rule"] = ("distinct = (content pair, producer pair, wrapper, rendering) cases, distinct by construction; "
                   "non-trivial = the specification predicts `equal' and the two sides are built along different "
                   "producer paths (%d of %d programs; %d programs predict equal; %d distinct ordered producer-path "
                   "pairs over %d paths)" % (r["equal_across_different_paths"], r["programs"], r["spec_equal_cases"],
                                             r["path_pairs_seen"], len(r["paths_seen"])))
    cov["exhaustive"] = True
    cov["replay"] = {key: r[key] for key in r if key not in ("mismatches", "samples")}
    cov["recorded"] = rec
    cov["recorded_comparisons_accepted_by_trace_spec"] = accepted
    for s in r["samples"]:
        s = {key: s[key] for key in ("program", "spec_equal", "impl", "px", "py", "wrapper", "mode") if key in s}
        chk.sample(s)
    for m in r["mismatches"]:
        chk.violation(signature(m), m)
    # identity of functions and cells inside running programs (a function's own name in its body, aliases, arrays
    # holding the function, value arms): the `identity-*' cases of the scope suite (MC_C06, Lang!ValEq: functions and
    # cells by id), replayed here
    from vlib import langsuite as L
    rs = L.run_suite(chk, "c06", tier)
    n_id = 0
    for line in open(os.path.join(os.path.dirname(rs["events_path"]), "c06_cases.ndjson")):
        n_id += '"c06-identity' in line or '"identity-' in line
    for m in rs["mismatches"]:
        if "identity" in str(m.get("id", "")):
            chk.violation({"kind": "identity:" + m["kind"], "program": m.get("program", ""), "what": m.get("what", "")[:200]}, m)
    cov["identity_cases_in_programs"] = n_id
    # value arms of `match' compare by == with every listed value (C19: "== and value arms of match"): the value-arm
    # cases among the extra cases of the type-test suite (MC_C12T ExtraCases)
    rt = L.run_suite(chk, "c12t", tier)
    for m in rt["mismatches"]:
        if "extra" in str(m.get("id", "")) and "match" in str(m.get("program", "")):
            chk.violation({"kind": "value-arm:" + m["kind"], "program": m.get("program", ""), "what": m.get("what", "")[:200]}, m)
    chk.assumptions += [
        "TLC/SANY and the CommunityModules (Json, IOUtils, SequencesExt) are correct",
        "the harness' renderer of producer expressions as source text (harness/src/eqv.rs: render_expr, "
        "harness/src/seqs.rs: render_value) and its content description of observed values (content_of) are faithful",
        "floats: the modelled domain is half-integers, 0.0, -0.0, NaN (written 0.0/0.0), +inf (thorough); IEEE "
        "equality on it is stated in Seqs!FloatEq (TLA+ has no floats)",
        "contents bounded: arrays of length 0..2 over 8 (quick) / 12 (thorough) atoms, arrays nested once, pairs and "
        "three triples, structs over fields a, b, two functions and two cells; all producer pairs only for 10 / 16 "
        "small array contents; recorded runs: nesting <= 3, arrays of length <= 4",
        "identity of cells / functions is observed through Arc pointer identity of the values the program returns",
    ]
    return chk.finish()
