#!/bin/bash
# usage: tools/reseed_all.sh [tier]   — re-runs every archived seeded change (seeded/<ID>/<name>/patch.diff) against the
# quick (default) check of its property in a private copy of /repo and prints one line per change:
#   <ID> <name> caught|MISSED|unappliable
# A patch that no longer applies (the code it changed was repaired since) is reported, not counted as a miss.
ROOT=$(cd "$(dirname "$0")/.." && pwd)
tier="${1:-quick}"
cd "$ROOT"
for dir in seeded/*/*/; do
  id=$(basename "$(dirname "$dir")"); name=$(basename "$dir")
  [ -f "$dir/patch.diff" ] || continue
  demo="-"; [ -f "$dir/demo.rs" ] && demo="$ROOT/$dir/demo.rs"
  out=$(tools/try_mutant.sh "rs_${id}_${name:0:20}" "$ROOT/$dir/patch.diff" "$demo" "$tier" "$id" 2>&1)
  rm -rf "/tmp/mut_rs_${id}_${name:0:20}"
  if echo "$out" | grep -q "apply: FAILED"; then echo "$id $name unappliable";
  elif echo "$out" | grep -q "check $id $tier: exit=1"; then echo "$id $name caught ($(echo "$out" | grep -o 'existing-tests: [A-Z]*'))";
  else echo "$id $name MISSED ($(echo "$out" | grep "check $id" | head -1))"; fi
done
