#!/bin/sh
# usage: tools/mutant_sandbox.sh <name>
# Creates a private copy of /repo (/tmp/mut_<name>/repo) and of the harness sources
# (/tmp/mut_<name>/harness, path dependencies rewritten to the private repo) so that a mutation
# can be tried without touching /repo:   edit /tmp/mut_<name>/repo/...   then
#   VERIF_HARNESS=/tmp/mut_<name>/harness ./check <ID> quick
# Remove with: rm -rf /tmp/mut_<name>
set -e
ROOT=$(cd "$(dirname "$0")/.." && pwd)
name="$1"; d="/tmp/mut_$name"
rm -rf "$d"; mkdir -p "$d"
rsync -a --exclude target --exclude .git /repo/ "$d/repo/"
rsync -a --exclude target "$ROOT/harness/" "$d/harness/"
sed -i "s#path = \"/repo\"#path = \"$d/repo\"#; s#path = \"/repo/parser\"#path = \"$d/repo/parser\"#" "$d/harness/Cargo.toml"
echo "$d"
