#!/bin/bash
# usage: tools/try_mutant.sh <name> <patch.diff> <demo.rs|-> <tier> <PROP>...
# Confirms a seeded change (compiles, existing tests pass, demo fails with / passes without) in a private copy
# of /repo and runs the named checks against it. Prints one summary line per step. Leaves /repo untouched.
set -u
ROOT=$(cd "$(dirname "$0")/.." && pwd)
name="$1"; patch="$2"; demo="$3"; tier="$4"; shift 4
d=$("$ROOT/tools/mutant_sandbox.sh" "$name")
cd "$d/repo"
export CARGO_TARGET_DIR="$d/repo_target"
if [ "$demo" != "-" ]; then
  cp "$demo" tests/demo.rs
  if cargo test --offline --test demo >"$d/demo_before.log" 2>&1; then echo "demo-unpatched: PASS"; else echo "demo-unpatched: FAIL (bad demo)"; tail -5 "$d/demo_before.log"; fi
fi
if ! git apply "$patch" 2>"$d/apply.log"; then echo "apply: FAILED"; cat "$d/apply.log"; exit 3; fi
echo "apply: ok"
if [ "$demo" != "-" ]; then
  if cargo test --offline --test demo >"$d/demo_after.log" 2>&1; then echo "demo-patched: PASS (patch does not break the demo!)"; else echo "demo-patched: FAIL (as intended)"; fi
  rm tests/demo.rs
fi
if cargo test --workspace --no-fail-fast --offline >"$d/tests.log" 2>&1; then echo "existing-tests: PASS"; else echo "existing-tests: FAIL"; grep -E "^test .* FAILED|panicked" "$d/tests.log" | head -5; fi
unset CARGO_TARGET_DIR
cd "$ROOT"
for p in "$@"; do
  out=$(VERIF_SCRATCH="$d/scratch" VERIF_HARNESS="$d/harness" ./check "$p" "$tier" 2>&1)
  rc=$?
  echo "check $p $tier: exit=$rc $(echo "$out" | grep -c '^VIOLATION') violation line(s)"
  echo "$out" | grep -E "^VIOLATION|TOOL-ERROR|Error|error|Traceback" | head -4; if [ $rc -eq 2 ]; then echo "$out" | tail -8; fi
  if [ $rc -eq 1 ]; then f=$(echo "$out" | grep '^VIOLATION' | head -1 | sed 's/.*replay=//'); mkdir -p "$d/replays"; cp "$f" "$d/replays/$p.json" 2>/dev/null; fi
done
echo "sandbox: $d"
