#!/usr/bin/env python3
"""tools/keep_seed.py <PROP> <name> <srcdir> <needs> <ran> <result>  — archive a confirmed seeded change."""
import json, os, shutil, sys
prop, name, src, needs, ran, result = sys.argv[1:7]
d = os.path.join("/verif/seeded", prop, name)
os.makedirs(d, exist_ok=True)
for f in ("patch.diff", "demo.rs", "notes.md"):
    if os.path.exists(os.path.join(src, f)):
        shutil.copy(os.path.join(src, f), d)
json.dump({"property": prop, "breaks": open(os.path.join(src, "notes.md")).read().split("\n\n")[0][:600] if os.path.exists(os.path.join(src, "notes.md")) else "",
           "needs_to_manifest": needs, "what_was_run": ran, "result": result}, open(os.path.join(d, "meta.json"), "w"), indent=1)
print("kept", d)
