#!/usr/bin/env python3
"""Regenerates /verif/MANIFEST.json from the table below (single place to edit)."""
import json, os, subprocess
V = os.path.dirname(os.path.dirname(os.path.abspath(__file__)))

CLAIMED = {
 "C10": dict(
   technique="TLA+ specification of the type algebra (spec/Types.tla) model-checked with TLC; the specification's matches/join/meet/membership answers replayed pair by pair against the implementation",
   text="TLC checks reflexivity, transitivity, least/greatest element, variance of every constructor, union upper-bound / below-exactly, meet lower-bound and value soundness on a transcription of the relation over a universe closed under all constructors to depth 2; every ordered pair of that universe, every join/meet of the representatives and every (value, type) pair is then replayed against simplesl::variable::Type (built by constructors and by Type::from_str, several hash orders). The implementation is therefore shown equal to a relation on which the laws were model-checked, exhaustively within the universe.",
   design_ref="§3.1, §6 C10",
   note="bounded universe (522 types, 98 values); trusted: TLC, harness wire conversion; laws beyond the universe are not claimed"),
 "C04": dict(
   technique="TLA+ definitional semantics (spec/Lang.tla) in which hiding a constant is the identity; TLC enumerates every literal/hidden twin (MC_C04.tla) with the parse-time errors the specification permits per twin; each twin replayed against the implementation; recorded events trace-validated",
   text="TLC enumerates, for every construct, each of the 2^k literal/hidden choices for its operand positions over boundary operands and five contexts (4 088 twins), checks on the specification that all twins of a program have one meaning and never go wrong, and emits that meaning (value, log, error) plus the set of parse-time errors permitted for the twin. The harness renders each twin, runs the real parser/optimiser/interpreter and requires exactly the specification's outcome or a permitted parse-time error. The oracle is the specification's evaluator, so 'both twins wrong in the same way' is caught too.",
   design_ref="§3.6, §6 C04",
   note="bounded: operand boundary sets and contexts of MC_C04.tla; machine ints < 2^30 (others inconclusive); trusted: TLC, renderer; one named deviation (closure-creation folding) documented in DESIGN §10"),
 "C06": dict(
   technique="TLA+ definitional semantics with environments as binding sequences and closures capturing by value (spec/Lang.tla); TLC checks ScopeDiscipline on the scoping suites (MC_C06.tla); every case replayed against the implementation",
   text="TLC evaluates the shadowing grid (every scoping construct x kind of inner declaration x hidden/constant outer binding, observed before/inside/after), capture-then-redeclare, shared captured cells, closures returned and passed, recursion by declared name through every call path and iterator operator, iterator bodies that declare the consumer's names under every consumer, and modules, and checks that the machine yields the documented result for each; the implementation must yield the same value for each rendered program.",
   design_ref="§3.6, §6 C06",
   note="bounded to the 147 programs of MC_C06.tla (each family exhaustive over its grid); imports of files are exercised by C03, not here"),
 "C07": dict(
   technique="TLA+ definitional semantics (spec/Lang.tla); TLC checks LeftToRightOnce on every construct with >= 2 sub-expressions whose operands are logging ticks (MC_C07.tla); each case replayed and its log compared",
   text="Operands are tick calls t(i, v) numbered in textual order (or literals, so that folding applies around them); TLC checks on the specification that the log equals the increasing list of the ticks the documentation says are evaluated (short-circuit, chosen branch, match candidates until first match, assignment value computed after the right operand ran), at top level and inside a function; the implementation must produce the same value and the same log for all 238 programs.",
   design_ref="§3.6, §6 C07",
   note="bounded to the constructs/operand forms of MC_C07.tla; evaluation is observed through writes to a log cell"),
 "C11": dict(
   technique="two formulations inside the TLA+ specification (closure-level machine vs list-level sequence definitions) checked equal by TLC (IterLaws, MC_C11.tla); cases with the predicted result and pull/callback log replayed against the implementation",
   text="For every element sequence x source (array-derived / user-written logging closure) x pipeline of <= 2 lazy stages x consumer, TLC checks that the abstract machine (closures calling closures through the iterator protocol) agrees with the documentation's sequence definitions on the result and on the log of pulls and callback applications (each element once and in order, laziness, early exit of $&& / $||); the implementation must produce the same result and log for each of the 1 295 programs.",
   design_ref="§3.3, §3.6, §6 C11",
   note="the value an exhausted iterator carries is unspecified and not compared (known findings about its type belong to C01); sequences up to length 3"),
 "C12": dict(
   technique="TLA+ definitional semantics (spec/Lang.tla); TLC checks NoStuck, DeadNeverLogged and ReturnWins on all nestings of control constructs to depth 2 (3 sampled) with exits at every leaf (MC_C12.tla); every program replayed, marker log and results compared",
   text="TLC generates every nesting of if / if-set / match (value, type, default arms) / block / module / loop / while / while-set / for inside a function whose union-typed parameter receives a value of every member type, with break/continue/return at every leaf and markers in every branch, checks the control laws on the specification and emits results and marker logs; the implementation must reproduce them exactly (3 158 programs at depth 2).",
   design_ref="§3.6, §6 C12",
   note="at depth >= 2 one of the two sub-positions of each construct is a leaf; quick tier = every 3rd body"),
 "C13": dict(
   technique="TLA+ definitional semantics with cells as identities (spec/Lang.tla); TLC checks AliasesAgree, CellTyped, AssignYieldsStored, FailureLeavesContent on assignment histories (MC_C13.tla); histories replayed; every recorded write event validated by the trace specification Trace_Sound.tla",
   text="Histories of up to two assignments over every declared cell type, written through every kind of alias (binding, array element, struct field, cell in a cell, function parameter) with all 12 operators and failing operands; after every step the cell is read through all aliases. TLC checks the cell laws on the specification; the implementation must reproduce every read tuple, every assignment value and the final content (also after a failing update). In addition every write event recorded by the hook under the cell's lock (op, old, rhs, new) is consumed by one action of the trace specification: new = op(old, rhs) by the specification's operator, new in the declared type.",
   design_ref="§3.6, §3.7, §6 C13",
   note="machine ints < 2^30; the order of writes to one cell is not re-validated from the trace (the replayed histories cover it)"),
 "C01": dict(
   technique="trace validation: hook events recorded from the real interpreter (one per instruction result, argument, function result, cell allocation/write, final result, each with the static type the implementation computed) are consumed one by one by the TLA+ trace specification Trace_Sound.tla, whose judgement is Types!Member (by tag and by contents); the programs come from the TLC-enumerated Lang suites and a seeded typed-program generator",
   text="Every program of the enumerated suites and of a seeded generator (aimed at unions, empty arrays, hidden tags, iterators pulled past exhaustion, type-changing maps, reducers over run-time-empty arrays, slices, width subtyping, functions falling off the end; functions are called with boundary inhabitants of their parameter types) is run with the hooks on. Each recorded event is one step of the trace specification: the value must be a member of the static type the implementation attached to the instruction / parameter / function result / cell / program, judged by the specification's membership relation (which TLC model-checks against the subtype laws in C10). The specification's own evaluation of the same programs is checked for CellTyped.",
   design_ref="§3.1, §3.6, §4, §6 C01",
   note="static types are taken from the implementation (never compared with a second type system); placeholder-typed library closures are not judged; values of exhausted iterators are a known finding; bounded by the programs generated (700 quick / 6000 thorough + suites)"),
 "C02": dict(
   technique="the specification's status machine (Lang.tla: a run ends in a value or one of six documented errors; a panic has no action) applied to every recorded run of the enumerated suites and of generated programs, with the specification's predicted outcome as oracle; unbound-parameter events validated by Trace_Sound.tla",
   text="Every run of the C01 corpus must end in an outcome of the specification's status machine: a value or one of the six documented run-time errors, and the one the specification predicts. Panics (observed through catch_unwind, with message) and parameter names that do not resolve at function entry are violations; fuel/depth budget exhaustion is inconclusive. Function values defined by the programs are called with boundary inhabitants ([] for arrays, every union member).",
   design_ref="§3.6, §6 C02",
   note="aborts (stack overflow) are outside the claim; bounded by the programs generated"),
 "C05": dict(
   technique="the TLA+ specification is a function (unions are sets; TLC checks FoldsOrderInsensitive on Types.tla); conformance by trace validation: repeated runs (K per process x 3 processes) of every program are consumed by Trace_Det.tla, whose write-once map program -> outcome rejects a differing outcome; type level: independently built instances of every type of the MC_Types universe compared with each other and with the specification's answers",
   text="Type level: all 522 types of the universe are built 12+ times each through constructors and Type::from_str with rotated member/field orders; equal instances must compare equal, hash alike (HashSet of them has one element, T | T' = T), match each other and answer all 22 queries as the set-based specification does. Program level: generated programs, the iterator suite and hand-written union/struct programs are parsed and run from scratch K times in each of three processes; every run's canonical outcome (accepted?, static type, value or error, log) is one event of the trace specification, which accepts a run only if it repeats the outcome first seen for that program.",
   design_ref="§3.1, §6 C05",
   note="a 2-way order dependence escapes detection with probability 2^-(3K-1) per program; only printed order may vary (outcomes are canonicalised by sorting union members and struct fields)"),
 "C17": dict(
   technique="the embedding API as a TLA+ state machine over Lang.tla's abstract machine (MC_C17.tla): TLC explores every REPL state reachable by feeding every session in every split and checks ReplEqualsBatch / FailuresAgree as invariants; sessions, prefixes and host calls with the specification's answers replayed through Code::parse, exec_unscoped, exec and Function::create_call",
   text="State = host interpreter bindings, heap, position; action Feed(k) = one REPL input of k statements. Invariants: after p statements the REPL state equals the batch run of the first p statements (last result and all top-level values) whenever both completed, and failures agree. The harness feeds all 1 884 sessions (<= 3 statements from a pool with constants, hidden values, cells, closures, re-declaration, functions, a failing input) in all splits to the real API, compares every prefix on both routes and against the specification, checks that exec() leaves the interpreter's bindings untouched and is repeatable, and that create_call accepts exactly the argument vectors the specification's rule (arity, tag matches parameter) and an in-language call accept, with equal results.",
   design_ref="§3.7, §6 C17",
   note="sessions bounded by MaxLen (3 quick / 4 thorough) over a 12-statement pool; 7 functions x 25 argument vectors for host calls"),
 "C08": dict(
   technique="TLA+ specification of 64-bit two's-complement arithmetic on limbs (spec/Int64.tla): TLC proves every limb operator equal to its mathematical definition exhaustively at small widths and checks algebraic laws on the 64-bit boundary grid; grid cases with predictions replayed in eight execution forms (literal/folded, host API, in-language call, half-constant, compound assignment ...); a seeded random stream recorded from the implementation is recomputed by the trace specification Trace_Arith.tla",
   text="The same module is instantiated at widths 4-8 bits, where TLC compares Add/Sub/Neg/Mul/Div/Mod/Pow/shifts/bitwise/comparisons with the mathematical definitions for ALL operand pairs (and checks the division relation a = q*b + r has a unique solution), and at 64 bits (8 limbs of 8 bits), where it emits the result or documented error for every operator on the boundary grid G x G (24 [56] values incl. MIN, MAX, +-2^32, +-63/64/65). The harness executes each case in the forms the property names (folded literal, run time through arguments and through the host API, compound assignment, half-constant operands) and compares; 7 855 [96 305] random (op, a, b) records over all of i64 are recomputed on limbs by Trace_Arith. Bool operators are truth tables in the spec; float comparisons, -0.0 = 0.0, NaN rules and sign flip are specified on bit patterns.",
   design_ref="§3.2, §6 C08",
   note="IEEE-754 results of float + - * / ** cannot be expressed in TLA+: they are compared with the host's f64 (trusted base), and the trace specification only demands that each float operator is a function (memo) across forms"),
 "C09": dict(
   technique="TLA+ specification of sequences (spec/Seqs.tla: At, PySlice on extended integers with symbolic MIN/MAX, SliceLen, closed forms); TLC checks the consistency laws (slice/index/len agreement, saturation beyond +-(n+1), splits, compositions) and emits every case; cases replayed in five renderings (folded literal, variables, array literal with a non-constant element, typed and union-typed in-language functions); recorded random runs validated by Trace_Seqs.tla",
   text="All sequences of length 0-4 [0-6] (strings over 1/2/3/4-byte scalars, mixed arrays) x indices -7..7 plus MIN, MIN+1, MAX, MAX-1 x (start, stop, step) over absent, -6..6 and the extremes (117 912 [333 396] slice cases): TLC checks the laws on the specification and writes value / error kind / kind of result / len; the implementation must agree in every rendering, including membership of the value's run-time type in the program's static type. 1 500 [100 000] recorded runs with lengths to 12 and operands near 2^29 and the i64 extremes are accepted by Trace_Seqs.",
   design_ref="§3.3, §6 C09",
   note="i64 extremes are symbolic (min/max + offset) and justified by TLC-checked saturation laws; bounded sequence lengths"),
 "C19": dict(
   technique="TLA+ specification of content equality (Seqs!ValEq over a float domain with -0.0, NaN, inf; identity for functions and cells) with producer-expression terms whose denotation is built from the sequence operators; TLC checks symmetry, NaN-free reflexivity, negation, transitivity and ProducersDenote; every (content, producer path) pair replayed as programs and at API level; recorded random comparisons validated by Trace_Eq.tla",
   text="217 [305] contents x 21 producer paths (literal, + at every split incl. with [], slices, [v; n] incl. n = 0, ~ $], partition sides, ? p $], ? T $], any-typed parameter, union-typed cell, indexing) under 4 wrappers: the specification predicts x == y, x != y, y == x and the selected match arm from content alone (law ProducersDenote); 180 614 [806 412] programs and 423 801 [837 225] API-level comparisons (incl. hidden element types forced through Array::new_with_type) must agree; 3 000 [150 000] recorded random comparisons are recomputed by Trace_Eq.",
   design_ref="§3.3, §6 C19",
   note="floats on a modelled domain (no arithmetic involved); contents nested to depth 3"),
}

NOT_YET = {}

def main():
    props = [json.loads(l) for l in open(os.path.join(V, "properties.jsonl"))]
    checks = []
    na = []
    for p in props:
        pid = p["id"]
        if pid in CLAIMED:
            c = CLAIMED[pid]
            checks.append({
              "property_id": pid,
              "quick_cmd": "./check %s quick" % pid,
              "thorough_cmd": "./check %s thorough" % pid,
              "evidence_file": "/verif/evidence/%s.json" % pid,
              "replay_cmd_template": "./check replay {path}",
              "engine": "tlc+vh",
              "level_claimed": {"category": "model_checking", "text": c["text"], "design_ref": c["design_ref"]},
              "level_note": c["note"],
              "technique": c["technique"],
            })
        else:
            na.append({"property_id": pid, "reason": NOT_YET.get(pid, "check not built yet in this round (planned with the TLA+ specification suite, see DESIGN.md §6); not claimed until it exists")})
    hooks_commits = subprocess.run(["git", "-C", "/repo", "log", "--format=%H", "--grep=^verif hooks"], capture_output=True, text=True).stdout.split()
    m = {
      "version": 1,
      "setup_cmd": "./setup.sh",
      "hooks": {
        "guard": "--cfg simplesl_verif",
        "enable": "harness/.cargo/config.toml passes rustflags [--cfg simplesl_verif] to every crate of the harness build (path dependency on /repo); hooks live in /repo/src/verif.rs and #[cfg(simplesl_verif)] call sites",
        "baseline_off_cmd": "cd /repo && cargo test --workspace --no-fail-fast --offline",
        "source_commits": hooks_commits,
        "add_only": True,
      },
      "engines": [
        {"name": "tlc", "path": "/verif/spec", "serves_properties": [c["property_id"] for c in checks], "kind_free_text": "TLA+ specifications model-checked with TLC 1.8.0; they also emit the cases and predictions that are replayed, and validate recorded traces"},
        {"name": "vh", "path": "/verif/harness", "serves_properties": [c["property_id"] for c in checks], "kind_free_text": "Rust conformance harness built against /repo's working tree with the hooks enabled"},
      ],
      "checks": checks,
      "not_applicable": na,
      "notes": "Every check is `./check <ID> <tier>`; exit 0/1/2 = held / violation / tool error. Known findings: /verif/known_findings.json.",
    }
    with open(os.path.join(V, "MANIFEST.json"), "w") as f:
        json.dump(m, f, indent=1)
    print("MANIFEST.json: %d checks, %d not_applicable" % (len(checks), len(na)))

if __name__ == "__main__":
    main()
