#!/usr/bin/env python3
"""Regenerates /verif/MANIFEST.json from the table below (single place to edit)."""
import json, os, subprocess
V = os.path.dirname(os.path.dirname(os.path.abspath(__file__)))

CLAIMED = {
 "C10": dict(
   technique="TLA+ specification of the type algebra (spec/Types.tla) model-checked with TLC; the specification's matches/join/meet/membership answers replayed pair by pair against the implementation",
   text="TLC checks reflexivity, transitivity, least/greatest element, variance of every constructor, union upper-bound / below-exactly, meet lower-bound and value soundness on a transcription of the relation over a universe closed under all constructors to depth 2; every ordered pair of that universe, every join/meet of the representatives and every (value, type) pair is then replayed against simplesl::variable::Type (built by constructors and by Type::from_str, several hash orders). The implementation is therefore shown equal to a relation on which the laws were model-checked, exhaustively within the universe.",
   design_ref="§3.1, §6 C10",
   note="bounded universe (522 types, 98 values); trusted: TLC, harness wire conversion; laws beyond the universe are not claimed"),
 "C04": dict(
   technique="TLA+ definitional semantics (spec/Lang.tla) in which hiding a constant is the identity; TLC enumerates every literal/hidden twin (MC_C04.tla) with the parse-time errors the specification permits per twin; each twin replayed against the implementation; recorded events trace-validated",
   text="TLC enumerates, for every construct, each of the 2^k literal/hidden choices for its operand positions over boundary operands and five contexts (4 088 twins), checks on the specification that all twins of a program have one meaning and never go wrong, and emits that meaning (value, log, error) plus the set of parse-time errors permitted for the twin. The harness renders each twin, runs the real parser/optimiser/interpreter and requires exactly the specification's outcome or a permitted parse-time error. The oracle is the specification's evaluator, so 'both twins wrong in the same way' is caught too.",
   design_ref="§3.6, §6 C04",
   note="bounded: operand boundary sets and contexts of MC_C04.tla; machine ints < 2^30 (others inconclusive); trusted: TLC, renderer; one named deviation (closure-creation folding) documented in DESIGN §10"),
 "C06": dict(
   technique="TLA+ definitional semantics with environments as binding sequences and closures capturing by value (spec/Lang.tla); TLC checks ScopeDiscipline on the scoping suites (MC_C06.tla); every case replayed against the implementation",
   text="TLC evaluates the shadowing grid (every scoping construct x kind of inner declaration x hidden/constant outer binding, observed before/inside/after), capture-then-redeclare, shared captured cells, closures returned and passed, recursion by declared name through every call path and iterator operator, iterator bodies that declare the consumer's names under every consumer, and modules, and checks that the machine yields the documented result for each; the implementation must yield the same value for each rendered program.",
   design_ref="§3.6, §6 C06",
   note="bounded to the 147 programs of MC_C06.tla (each family exhaustive over its grid); imports of files are exercised by C03, not here"),
 "C07": dict(
   technique="TLA+ definitional semantics (spec/Lang.tla); TLC checks LeftToRightOnce on every construct with >= 2 sub-expressions whose operands are logging ticks (MC_C07.tla); each case replayed and its log compared",
   text="Operands are tick calls t(i, v) numbered in textual order (or literals, so that folding applies around them); TLC checks on the specification that the log equals the increasing list of the ticks the documentation says are evaluated (short-circuit, chosen branch, match candidates until first match, assignment value computed after the right operand ran), at top level and inside a function; the implementation must produce the same value and the same log for all 238 programs.",
   design_ref="§3.6, §6 C07",
   note="bounded to the constructs/operand forms of MC_C07.tla; evaluation is observed through writes to a log cell"),
 "C11": dict(
   technique="two formulations inside the TLA+ specification (closure-level machine vs list-level sequence definitions) checked equal by TLC (IterLaws, MC_C11.tla); cases with the predicted result and pull/callback log replayed against the implementation",
   text="For every element sequence x source (array-derived / user-written logging closure) x pipeline of <= 2 lazy stages x consumer, TLC checks that the abstract machine (closures calling closures through the iterator protocol) agrees with the documentation's sequence definitions on the result and on the log of pulls and callback applications (each element once and in order, laziness, early exit of $&& / $||); the implementation must produce the same result and log for each of the 1 295 programs.",
   design_ref="§3.3, §3.6, §6 C11",
   note="the value an exhausted iterator carries is unspecified and not compared (known findings about its type belong to C01); sequences up to length 3"),
 "C12": dict(
   technique="TLA+ definitional semantics (spec/Lang.tla); TLC checks NoStuck, DeadNeverLogged and ReturnWins on all nestings of control constructs to depth 2 (3 sampled) with exits at every leaf (MC_C12.tla); every program replayed, marker log and results compared",
   text="TLC generates every nesting of if / if-set / match (value, type, default arms) / block / module / loop / while / while-set / for inside a function whose union-typed parameter receives a value of every member type, with break/continue/return at every leaf and markers in every branch, checks the control laws on the specification and emits results and marker logs; the implementation must reproduce them exactly (3 158 programs at depth 2).",
   design_ref="§3.6, §6 C12",
   note="at depth >= 2 one of the two sub-positions of each construct is a leaf; quick tier = every 3rd body"),
 "C13": dict(
   technique="TLA+ definitional semantics with cells as identities (spec/Lang.tla); TLC checks AliasesAgree, CellTyped, AssignYieldsStored, FailureLeavesContent on assignment histories (MC_C13.tla); histories replayed; every recorded write event validated by the trace specification Trace_Sound.tla",
   text="Histories of up to two assignments over every declared cell type, written through every kind of alias (binding, array element, struct field, cell in a cell, function parameter) with all 12 operators and failing operands; after every step the cell is read through all aliases. TLC checks the cell laws on the specification; the implementation must reproduce every read tuple, every assignment value and the final content (also after a failing update). In addition every write event recorded by the hook under the cell's lock (op, old, rhs, new) is consumed by one action of the trace specification: new = op(old, rhs) by the specification's operator, new in the declared type.",
   design_ref="§3.6, §3.7, §6 C13",
   note="machine ints < 2^30; the order of writes to one cell is not re-validated from the trace (the replayed histories cover it)"),
 "C01": dict(
   technique="trace validation: hook events recorded from the real interpreter (one per instruction result, argument, function result, cell allocation/write, final result, each with the static type the implementation computed) are consumed one by one by the TLA+ trace specification Trace_Sound.tla, whose judgement is Types!Member (by tag and by contents); the programs come from the TLC-enumerated Lang suites and a seeded typed-program generator",
   text="Every program of the enumerated suites and of a seeded generator (aimed at unions, empty arrays, hidden tags, iterators pulled past exhaustion, type-changing maps, reducers over run-time-empty arrays, slices, width subtyping, functions falling off the end; functions are called with boundary inhabitants of their parameter types) is run with the hooks on. Each recorded event is one step of the trace specification: the value must be a member of the static type the implementation attached to the instruction / parameter / function result / cell / program, judged by the specification's membership relation (which TLC model-checks against the subtype laws in C10). The specification's own evaluation of the same programs is checked for CellTyped.",
   design_ref="§3.1, §3.6, §4, §6 C01",
   note="static types are taken from the implementation (never compared with a second type system); placeholder-typed library closures are not judged; values of exhausted iterators are a known finding; bounded by the programs generated (700 quick / 6000 thorough + suites)"),
 "C02": dict(
   technique="the specification's status machine (Lang.tla: a run ends in a value or one of six documented errors; a panic has no action) applied to every recorded run of the enumerated suites and of generated programs, with the specification's predicted outcome as oracle; unbound-parameter events validated by Trace_Sound.tla",
   text="Every run of the C01 corpus must end in an outcome of the specification's status machine: a value or one of the six documented run-time errors, and the one the specification predicts. Panics (observed through catch_unwind, with message) and parameter names that do not resolve at function entry are violations; fuel/depth budget exhaustion is inconclusive. Function values defined by the programs are called with boundary inhabitants ([] for arrays, every union member).",
   design_ref="§3.6, §6 C02",
   note="aborts (stack overflow) are outside the claim; bounded by the programs generated"),
 "C05": dict(
   technique="the TLA+ specification is a function (unions are sets; TLC checks FoldsOrderInsensitive on Types.tla); conformance by trace validation: repeated runs (K per process x 3 processes) of every program are consumed by Trace_Det.tla, whose write-once map program -> outcome rejects a differing outcome; type level: independently built instances of every type of the MC_Types universe compared with each other and with the specification's answers",
   text="Type level: all 522 types of the universe are built 12+ times each through constructors and Type::from_str with rotated member/field orders; equal instances must compare equal, hash alike (HashSet of them has one element, T | T' = T), match each other and answer all 22 queries as the set-based specification does. Program level: generated programs, the iterator suite and hand-written union/struct programs are parsed and run from scratch K times in each of three processes; every run's canonical outcome (accepted?, static type, value or error, log) is one event of the trace specification, which accepts a run only if it repeats the outcome first seen for that program.",
   design_ref="§3.1, §6 C05",
   note="a 2-way order dependence escapes detection with probability 2^-(3K-1) per program; only printed order may vary (outcomes are canonicalised by sorting union members and struct fields)"),
 "C17": dict(
   technique="the embedding API as a TLA+ state machine over Lang.tla's abstract machine (MC_C17.tla): TLC explores every REPL state reachable by feeding every session in every split and checks ReplEqualsBatch / FailuresAgree as invariants; sessions, prefixes and host calls with the specification's answers replayed through Code::parse, exec_unscoped, exec and Function::create_call",
   text="State = host interpreter bindings, heap, position; action Feed(k) = one REPL input of k statements. Invariants: after p statements the REPL state equals the batch run of the first p statements (last result and all top-level values) whenever both completed, and failures agree. The harness feeds all 1 884 sessions (<= 3 statements from a pool with constants, hidden values, cells, closures, re-declaration, functions, a failing input) in all splits to the real API, compares every prefix on both routes and against the specification, checks that exec() leaves the interpreter's bindings untouched and is repeatable, and that create_call accepts exactly the argument vectors the specification's rule (arity, tag matches parameter) and an in-language call accept, with equal results.",
   design_ref="§3.7, §6 C17",
   note="sessions bounded by MaxLen (3 quick / 4 thorough) over a 12-statement pool; 7 functions x 25 argument vectors for host calls"),
 "C08": dict(
   technique="TLA+ specification of 64-bit two's-complement arithmetic on limbs (spec/Int64.tla): TLC proves every limb operator equal to its mathematical definition exhaustively at small widths and checks algebraic laws on the 64-bit boundary grid; grid cases with predictions replayed in eight execution forms (literal/folded, host API, in-language call, half-constant, compound assignment ...); a seeded random stream recorded from the implementation is recomputed by the trace specification Trace_Arith.tla",
   text="The same module is instantiated at widths 4-8 bits, where TLC compares Add/Sub/Neg/Mul/Div/Mod/Pow/shifts/bitwise/comparisons with the mathematical definitions for ALL operand pairs (and checks the division relation a = q*b + r has a unique solution), and at 64 bits (8 limbs of 8 bits), where it emits the result or documented error for every operator on the boundary grid G x G (24 [56] values incl. MIN, MAX, +-2^32, +-63/64/65). The harness executes each case in the forms the property names (folded literal, run time through arguments and through the host API, compound assignment, half-constant operands) and compares; 7 855 [96 305] random (op, a, b) records over all of i64 are recomputed on limbs by Trace_Arith. Bool operators are truth tables in the spec; float comparisons, -0.0 = 0.0, NaN rules and sign flip are specified on bit patterns.",
   design_ref="§3.2, §6 C08",
   note="IEEE-754 results of float + - * / ** cannot be expressed in TLA+: they are compared with the host's f64 (trusted base), and the trace specification only demands that each float operator is a function (memo) across forms"),
 "C09": dict(
   technique="TLA+ specification of sequences (spec/Seqs.tla: At, PySlice on extended integers with symbolic MIN/MAX, SliceLen, closed forms); TLC checks the consistency laws (slice/index/len agreement, saturation beyond +-(n+1), splits, compositions) and emits every case; cases replayed in five renderings (folded literal, variables, array literal with a non-constant element, typed and union-typed in-language functions); recorded random runs validated by Trace_Seqs.tla",
   text="All sequences of length 0-4 [0-6] (strings over 1/2/3/4-byte scalars, mixed arrays) x indices -7..7 plus MIN, MIN+1, MAX, MAX-1 x (start, stop, step) over absent, -6..6 and the extremes (117 912 [333 396] slice cases): TLC checks the laws on the specification and writes value / error kind / kind of result / len; the implementation must agree in every rendering, including membership of the value's run-time type in the program's static type. 1 500 [100 000] recorded runs with lengths to 12 and operands near 2^29 and the i64 extremes are accepted by Trace_Seqs.",
   design_ref="§3.3, §6 C09",
   note="i64 extremes are symbolic (min/max + offset) and justified by TLC-checked saturation laws; bounded sequence lengths"),
 "C19": dict(
   technique="TLA+ specification of content equality (Seqs!ValEq over a float domain with -0.0, NaN, inf; identity for functions and cells) with producer-expression terms whose denotation is built from the sequence operators; TLC checks symmetry, NaN-free reflexivity, negation, transitivity and ProducersDenote; every (content, producer path) pair replayed as programs and at API level; recorded random comparisons validated by Trace_Eq.tla",
   text="217 [305] contents x 21 producer paths (literal, + at every split incl. with [], slices, [v; n] incl. n = 0, ~ $], partition sides, ? p $], ? T $], any-typed parameter, union-typed cell, indexing) under 4 wrappers: the specification predicts x == y, x != y, y == x and the selected match arm from content alone (law ProducersDenote); 180 614 [806 412] programs and 423 801 [837 225] API-level comparisons (incl. hidden element types forced through Array::new_with_type) must agree; 3 000 [150 000] recorded random comparisons are recomputed by Trace_Eq.",
   design_ref="§3.3, §6 C19",
   note="floats on a modelled domain (no arithmetic involved); contents nested to depth 3"),
 "C03": dict(
   technique="TLA+ specification of the syntax space (spec/Syntax.tla: token alphabet, untyped abstract grammar with 149 forms, binding contexts, mutation operators, folding sub-suite) whose outcome machine has the two states Program / Error and no panic state; TLC's state graph (token sequences, ASTs and folding cases under construction) IS the case set; every state is rendered and fed to Code::parse / Variable::from_str / Type::from_str in watched worker processes",
   text="State = token sequence, AST or folding case under construction; actions append a token, apply a constructor, pick a failing seed, wrap it in a live or dead position, or apply a mutation to a tokenised corpus program. Invariants keep every emitted case inside the domain and attach the predicted outcome class (Program, Error of a given class for folding failures, or either). The harness runs every case (934 966 [13.3 M] runs: all token sequences of length <= 2 [all core triples], all one- and two-child ASTs over 29 leaves incl. a never-typed leaf, rebind contexts, single-token deletions / duplications / replacements of 411 [1 611] programs, [random walks to depth 5, 33 300 byte/char mutants]) in child processes; a panic, abort or hang is a violation grouped by panic location.",
   design_ref="§6 C03",
   note="the specification enumerates the syntax space and classifies outcomes; it does not model pest's matching algorithm; nesting capped at 40; accepted programs are not executed here (C02); self-import (stack exhaustion) is classified as resource exhaustion"),
 "C14": dict(
   technique="TLA+ specification of the 14-level table (spec/Prec.tla): declarative Group, unique-admissible-tree formulation and a precedence-climbing shift/reduce machine checked equal by TLC on every case; Lex (maximal munch); cases replayed structurally through the real grammar and the real PRATT_PARSER, by value through Code::parse/exec with operand values TLC searched so that groupings differ; recorded long expressions re-grouped by TLC (MC_PrecTrace)",
   text="TLC explores the shift/reduce machine over all ordered pairs of the 35 binary operators, all triples whose levels are not all distinct plus a sample [all 42 875], prefix x binary, prefix x postfix, postfix x binary, postfix x postfix and operator adjacencies with and without blanks (40 021 [370 541] cases), with invariants: tokens used once, the machine's tree = Group = the unique admissible tree, Lex lossless and maximal. The harness drives SimpleSLParser + PRATT_PARSER with string-building callbacks and compares the parenthesised tree; 793 [1 286] by-value cases (operands chosen by TLC so that every other grouping is rejected or yields a different value / cell content) are executed as constants and as function parameters; 3 000 [30 000] random long expressions parsed by the implementation are re-grouped by the specification.",
   design_ref="§3.4, §6 C14",
   note="shapes the table does not settle are excluded by name in the spec (`? !`, `$ init` swallowing a following binary operator, comment openers, two prefix operators in a row); `$]` is taken as a level-3 postfix reducer"),
 "C15": dict(
   technique="TLA+ specification of type printing and parsing (spec/Print.tla: PrintType under every ordering of union members / struct fields, PrintSet, a PEG transcription ParseType); TLC checks RoundTrip, Unambiguous, ParensNeeded, ParsePrintsBack over the MC_Types universe plus look-alikes and nesting contexts; every text of every PrintSet parsed by Type::from_str, printed texts of independently built instances checked to be in PrintSet, `it ? T` programs executed; random types printed by the implementation validated by MC_PrintTrace",
   text="For 2 125 [18 533] types TLC writes all orderings (4 735 [51 314] texts); the implementation must parse each back to an equal type, print (13 235 [199 578] instances with rotated member orders) only texts of the PrintSet, select exactly the matching elements of a 98-value pool in `pool~ ? T $]`, and reject or differently parse 6 003 [34 058] near-miss texts as the specification's parser does; 500 [9 000] random types to depth 6 printed by the implementation are re-parsed by TLC.",
   design_ref="§3.5, §6 C15",
   note="the type parser model works on tokens (lexical issues such as keyword prefixes are outside it); types whose members have no default value skip the `? T` stage (same class as the known `it ? !` finding)"),
 "C20": dict(
   technique="TLA+ specification of value rendering structure and literal forms (Print.tla part 2: PrintVal, the two readers for value literals and programs, FromDigits on limbs with overflow detection); TLC checks LitRoundTrip, ProgRoundTrip, MinIntOnly, LitPrintsBack and enumerates nested values over boundary leaf tables and every integer literal form; each replayed through Variable's Debug rendering, Variable::from_str and Code::parse/exec; random values printed by the implementation validated by MC_PrintValTrace",
   text="4 069 [28 941] nested values (depth <= 3, one spine to 6) over leaf tables (11 ints incl. MIN/MAX, 56 float bit patterns incl. -0.0, subnormals, 1e308, 44 strings incl. quotes, backslashes, NUL+digit, C0/C1 controls, combining marks, non-BMP) must satisfy from_str(debug(v)) == v with equal type tag and, except MIN_INT, exec(parse(debug(v))) == v; 1 252 [3 534] literal forms (decimal, 0b, 0o, 0x, underscores) denote FromDigits' value or are rejected as too big; 2 500 [60 000] random values are validated by TLC.",
   design_ref="§3.5, §6 C20",
   note="digit-level float formatting and the escape alphabet are encode/decode fidelity that TLA+ does not express: the specification fixes structure and leaf table, the oracle for a leaf is the round-trip equation itself"),
 "C16": dict(
   technique="TLA+ specification of the lock discipline (spec/Conc.tla: per-assignment steps EvalTarget / EvalValue / ReqWrite / AcqWrite / Update / Release, read guards, rendering, std's reader-waits-behind-queued-writer rule) model-checked by TLC for MutualExclusion, Linearizable, NoLostUpdate, IncrementsPermutation, OutcomeIsSerial, FailureLeavesContent, deadlock freedom and liveness under fairness; program tuples with allowed outcome sets and all serial orders replayed on OS threads (free-running with schedule perturbation, and forced through gates); recorded stress histories validated by Trace_Conc.tla (hook events under the write lock) and Trace_ConcLin.tla (hook-free linearization search)",
   text="TLC explores 2-3 threads x 1-2 cells x programs over all 12 assignment operators (incl. failing operands), `*c` and rendering (305 915 [4.7 M] states); two named alternative behaviours (nested read guards = the repaired deadlock, split read/write guards = lost updates) must FAIL in the model, so the properties are not vacuous. Every program tuple is run on real threads sharing a Code, a closure and a Function (10 023 [149 210] runs) and its outcome must be in the set the atomic reference allows; every serial order is forced through gates at the lock points (6 226 [99 852]); 68 [680] stress histories (increments, additive, mixed, two cells) are accepted by the trace specification (write chain by sequence number, new = op(old, rhs), each call returns its own write) and by the hook-free linearization search; runs that share no cell equal the sequential result; a watchdog turns a hang into a reported deadlock.",
   design_ref="§3.7, §6 C16",
   note="real thread schedules beyond the forced serial orders are sampled, not enumerated; watchdog >= 20 s is the only timing-based judgement; values kept small so TLC's 32-bit integers suffice"),
 "C18": dict(
   technique="TLA+ specifications Stdlib.tla (export table of docs/stdlib.md as type records; reference definitions of the pure helpers on limbs / scalar-value sequences; judgement = Types!Member + documented result) and Fs.tla (a state machine over a file tree for the nine std.fs calls, with the theorem that a failing call leaves the tree unchanged) model-checked by TLC; boundary cases and fs behaviours replayed through generated programs AND the host API in a scratch directory; seeded random calls and random fs walks validated by Trace_Stdlib.tla / Trace_Fs.tla",
   text="TLC checks internal laws of the reference definitions (UTF-8 encode/decode round trip, count_ones + count_zeros = 64, involutions, ilog bounds, split/join, ...) and emits for each of the 90 exports boundary argument vectors of its declared parameter types (2 696 cases x 2 routes) with the predicted result (pure helpers) or the demand 'member of the declared result type'; MC_Fs enumerates all call sequences of length <= 2 [3] from 7 [10] initial trees incl. unwritable ones (22 351 [1.79 M] states) with expected success/failure and tree after every call, replayed in a real scratch directory (unwritable trees as user nobody). 5 852 [195 066] seeded random calls and 300 [8 000] random fs walks recorded from the implementation are re-judged by TLC. The declared types in the `std` struct are compared with the specification's table.",
   design_ref="§3.7, §6 C18",
   note="IEEE results of float math functions, to_string/print text, non-ASCII case mapping and OS error codes are checked for declared type / no panic / route equality only; 11 heading inconsistencies of docs/stdlib.md are listed as DocReadings in the specification"),
}

NOT_YET = {}

def main():
    props = [json.loads(l) for l in open(os.path.join(V, "properties.jsonl"))]
    checks = []
    na = []
    for p in props:
        pid = p["id"]
        if pid in CLAIMED:
            c = CLAIMED[pid]
            checks.append({
              "property_id": pid,
              "quick_cmd": "./check %s quick" % pid,
              "thorough_cmd": "./check %s thorough" % pid,
              "evidence_file": "/verif/evidence/%s.json" % pid,
              "replay_cmd_template": "./check replay {path}",
              "engine": "tlc+vh",
              "level_claimed": {"category": "model_checking", "text": c["text"], "design_ref": c["design_ref"]},
              "level_note": c["note"],
              "technique": c["technique"],
            })
        else:
            na.append({"property_id": pid, "reason": NOT_YET.get(pid, "check not built yet in this round (planned with the TLA+ specification suite, see DESIGN.md §6); not claimed until it exists")})
    hooks_commits = subprocess.run(["git", "-C", "/repo", "log", "--format=%H", "--grep=^verif hooks"], capture_output=True, text=True).stdout.split()
    m = {
      "version": 1,
      "setup_cmd": "./setup.sh",
      "hooks": {
        "guard": "--cfg simplesl_verif",
        "enable": "harness/.cargo/config.toml passes rustflags [--cfg simplesl_verif] to every crate of the harness build (path dependency on /repo); hooks live in /repo/src/verif.rs and #[cfg(simplesl_verif)] call sites",
        "baseline_off_cmd": "cd /repo && cargo test --workspace --no-fail-fast --offline",
        "source_commits": hooks_commits,
        "add_only": True,
      },
      "engines": [
        {"name": "tlc", "path": "/verif/spec", "serves_properties": [c["property_id"] for c in checks], "kind_free_text": "TLA+ specifications model-checked with TLC 1.8.0; they also emit the cases and predictions that are replayed, and validate recorded traces"},
        {"name": "vh", "path": "/verif/harness", "serves_properties": [c["property_id"] for c in checks], "kind_free_text": "Rust conformance harness built against /repo's working tree with the hooks enabled"},
      ],
      "checks": checks,
      "not_applicable": na,
      "notes": "Every check is `./check <ID> <tier>`; exit 0/1/2 = held / violation / tool error. Known findings: /verif/known_findings.json.",
    }
    with open(os.path.join(V, "MANIFEST.json"), "w") as f:
        json.dump(m, f, indent=1)
    print("MANIFEST.json: %d checks, %d not_applicable" % (len(checks), len(na)))

if __name__ == "__main__":
    main()
