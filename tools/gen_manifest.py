#!/usr/bin/env python3
"""Regenerates /verif/MANIFEST.json from the table below (single place to edit)."""
import json, os, subprocess
V = os.path.dirname(os.path.dirname(os.path.abspath(__file__)))

CLAIMED = {
 "C10": dict(
   technique="TLA+ specification of the type algebra (spec/Types.tla) model-checked with TLC; the specification's matches/join/meet/membership answers replayed pair by pair against the implementation",
   text="TLC checks reflexivity, transitivity, least/greatest element, variance of every constructor, union upper-bound / below-exactly, meet lower-bound and value soundness on a transcription of the relation over a universe closed under all constructors to depth 2; every ordered pair of that universe, every join/meet of the representatives and every (value, type) pair is then replayed against simplesl::variable::Type (built by constructors and by Type::from_str, several hash orders). The implementation is therefore shown equal to a relation on which the laws were model-checked, exhaustively within the universe.",
   design_ref="§3.1, §6 C10",
   note="bounded universe (522 types, 98 values); trusted: TLC, harness wire conversion; laws beyond the universe are not claimed"),
}

NOT_YET = {}

def main():
    props = [json.loads(l) for l in open(os.path.join(V, "properties.jsonl"))]
    checks = []
    na = []
    for p in props:
        pid = p["id"]
        if pid in CLAIMED:
            c = CLAIMED[pid]
            checks.append({
              "property_id": pid,
              "quick_cmd": "./check %s quick" % pid,
              "thorough_cmd": "./check %s thorough" % pid,
              "evidence_file": "/verif/evidence/%s.json" % pid,
              "replay_cmd_template": "./check replay {path}",
              "engine": "tlc+vh",
              "level_claimed": {"category": "model_checking", "text": c["text"], "design_ref": c["design_ref"]},
              "level_note": c["note"],
              "technique": c["technique"],
            })
        else:
            na.append({"property_id": pid, "reason": NOT_YET.get(pid, "check not built yet in this round (planned with the TLA+ specification suite, see DESIGN.md §6); not claimed until it exists")})
    hooks_commits = subprocess.run(["git", "-C", "/repo", "log", "--format=%H", "--grep=^verif hooks"], capture_output=True, text=True).stdout.split()
    m = {
      "version": 1,
      "setup_cmd": "./setup.sh",
      "hooks": {
        "guard": "--cfg simplesl_verif",
        "enable": "harness/.cargo/config.toml passes rustflags [--cfg simplesl_verif] to every crate of the harness build (path dependency on /repo); hooks live in /repo/src/verif.rs and #[cfg(simplesl_verif)] call sites",
        "baseline_off_cmd": "cd /repo && cargo test --workspace --no-fail-fast --offline",
        "source_commits": hooks_commits,
        "add_only": True,
      },
      "engines": [
        {"name": "tlc", "path": "/verif/spec", "serves_properties": [c["property_id"] for c in checks], "kind_free_text": "TLA+ specifications model-checked with TLC 1.8.0; they also emit the cases and predictions that are replayed, and validate recorded traces"},
        {"name": "vh", "path": "/verif/harness", "serves_properties": [c["property_id"] for c in checks], "kind_free_text": "Rust conformance harness built against /repo's working tree with the hooks enabled"},
      ],
      "checks": checks,
      "not_applicable": na,
      "notes": "Every check is `./check <ID> <tier>`; exit 0/1/2 = held / violation / tool error. Known findings: /verif/known_findings.json.",
    }
    with open(os.path.join(V, "MANIFEST.json"), "w") as f:
        json.dump(m, f, indent=1)
    print("MANIFEST.json: %d checks, %d not_applicable" % (len(checks), len(na)))

if __name__ == "__main__":
    main()
