#!/bin/sh
# Run once after a fresh restore, offline: build the harness from files on disk and make sure
# every specification parses.
set -e
cd "$(dirname "$0")"
export CARGO_NET_OFFLINE=true
[ -f harness/Cargo.lock ] || cp /repo/Cargo.lock harness/Cargo.lock
(cd harness && cargo build --release --offline --quiet 2>&1 | grep -v '^warning' | grep -E 'error' && exit 1 || true)
test -x harness/target/release/vh
mkdir -p work evidence replay
for f in spec/*.tla; do
  case "$f" in *Trace_*) continue;; esac
  (cd spec && java -cp /opt/veriftools/tla/tla2tools.jar:/opt/veriftools/tla/CommunityModules-deps.jar tla2sany.SANY "$(basename "$f")" >/dev/null 2>&1) || { echo "SANY failed on $f"; exit 1; }
done
echo "setup ok"
