"""Parsed programs with a history: MC_Codes.tla enumerates every behaviour of MaxLen steps (parse again / run scoped / run
unscoped into one host interpreter) over a pool of self-contained programs that make and change state of their own; the
specification's answer for every execution is the constant Answer(j); `vh codes` replays them all in one process."""
import json
import os
from vlib import common as C


def run(chk, tier):
    work = C.workdir("codes_walk_" + chk.prop)
    cfg = "MC_Codes_thorough.cfg" if tier == "thorough" else "MC_Codes.cfg"
    res = C.run_tlc("MC_Codes", cfg, workers=4, timeout=3000, env_extra={"VERIF_OUT": work},
                    name="codes_%s_%s" % (chk.prop, tier), heap="6g")
    C.require_tlc_ok(res, "MC_Codes (AnswersAreValues)")
    beh = res.printed("REPLAY")
    if not beh:
        raise C.ToolError("MC_Codes emitted no behaviour")
    path = os.path.join(work, "behaviours.ndjson")
    C.write_ndjson(path, beh)
    chk.add_tlc("MC_Codes", res, "%d behaviours ending in an execution over a pool of stateful programs" % len(beh))
    _, txt = C.run_vh(["codes", os.path.join(work, "codes_pool.ndjson"), path], timeout=3000)
    r = json.loads(txt)
    if r["behaviours"] != len(beh):
        raise C.ToolError("vh codes replayed %d of %d behaviours" % (r["behaviours"], len(beh)))
    chk.cov["codes_walk"] = {k: r[k] for k in ("behaviours", "programs", "parses", "runs")}
    chk.cov["traces_validated_against_impl"] = chk.cov.get("traces_validated_against_impl", 0) + r["behaviours"]
    for s in r["samples"][:1]:
        chk.sample(s)
    for m in r["mismatches"]:
        if m["kind"] == "panic" and chk.prop != "C17":
            continue
        chk.violation({"kind": "codes-walk-" + m["kind"], "history": " ; ".join(m.get("history", [])), "what": m.get("what", "")[:160]}, m)
    return r
