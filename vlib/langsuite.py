"""Shared driver for the suites built on spec/Lang.tla: TLC enumerates the cases of a suite and
computes the specification's outcome for each (MC_<suite>.tla, laws as invariants), the harness
replays them (`vh lang`), and the events recorded by the hooks during those runs are validated
by the trace specification Trace_Sound.tla."""
import json
import os
from vlib import common as C

# suite name -> (module, quick cfg, thorough cfg, property that owns outcome mismatches)
SUITES = {
    "c07": ("MC_C07", "MC_C07.cfg", "MC_C07.cfg", "C07"),
    "c12": ("MC_C12", "MC_C12.cfg", "MC_C12_thorough.cfg", "C12"),
    "c13": ("MC_C13", "MC_C13.cfg", "MC_C13_thorough.cfg", "C13"),
    "c12t": ("MC_C12T", "MC_C12T.cfg", "MC_C12T.cfg", "C12"),
    "c12deep": ("MC_C12", "MC_C12_deep.cfg", "MC_C12_deep.cfg", "C12"),
    "c04": ("MC_C04", "MC_C04.cfg", "MC_C04_thorough.cfg", "C04"),
    "c06": ("MC_C06", "MC_C06.cfg", "MC_C06.cfg", "C06"),
    "c11": ("MC_C11", "MC_C11.cfg", "MC_C11_thorough.cfg", "C11"),
}

# kind of mismatch / event -> property it is a violation of (None = the suite's own property)
KIND_PROP = {"parse-panic": "C03", "panic": "C02", "tag": "C01", "rejected": None, "outcome": None,
             "value": None, "log": None, "watch": None, "twins": None, "consttwin": None}
EVENT_PROP = {"ret": "C01", "arg": "C01", "result": "C01", "alloc": "C01", "final": "C01",
              "write": "C13", "unbound": "C02"}


def run_suite(chk, suite, tier, workers=6):
    module, qcfg, tcfg, _ = SUITES[suite]
    cfg = tcfg if tier == "thorough" else qcfg
    out = C.workdir("suite_" + suite)
    res = C.run_tlc(module, cfg, workers=workers, timeout=3000 if tier == "thorough" else 600,
                    env_extra={"VERIF_OUT": out}, name=suite + "_" + tier,
                    heap="6g" if tier == "thorough" else "3g")
    C.require_tlc_ok(res, module + " (laws of the suite on the specification)")
    chk.add_tlc(module, res)
    cases = os.path.join(out, suite.replace("deep", "") + "_cases.ndjson")
    events = os.path.join(out, "events.ndjson")
    neg = os.path.join(out, suite.replace("deep", "") + "_neg_cases.ndjson")
    if os.path.exists(neg):
        with open(cases, "a") as f:
            f.write(open(neg).read())
    rc, txt = C.run_vh(["lang", cases, events], timeout=3000)
    r = json.loads(txt)
    r["events_path"] = events
    r["suite"] = suite
    return r


def run_ctx(chk, suite, tier, workers=6):
    """Context twins (spec/MC_Ctx.tla): every case the suite just emitted is placed in other contexts (body of a function
    value called twice, declared function, function made by a function, module member, block, loop / while / for body,
    branch of if / if-set / match, callback of @ and of $ init f); TLC evaluates the wrapped program (the prediction that
    is replayed) and checks the law CtxLaw on the specification.  Quick tier: one context per case, rotating with the case number; thorough: four."""
    src = os.path.join(C.WORK, "suite_" + suite, suite.replace("deep", "") + "_cases.ndjson")
    out = C.workdir("ctx_" + suite)
    res = C.run_tlc("MC_Ctx", "MC_Ctx_thorough.cfg" if tier == "thorough" else "MC_Ctx.cfg", workers=workers,
                    timeout=3000, env_extra={"VERIF_IN": src, "VERIF_OUT": out}, name="ctx_%s_%s" % (suite, tier),
                    heap="6g")
    C.require_tlc_ok(res, "MC_Ctx on the cases of %s (CtxLaw: a program means the same in every context)" % suite)
    chk.add_tlc("MC_Ctx[%s]" % suite, res, "context twins of the suite's cases; law CtxLaw")
    cases = os.path.join(out, "ctx_cases.ndjson")
    events = os.path.join(out, "events.ndjson")
    rc, txt = C.run_vh(["lang", cases, events], timeout=3000)
    r = json.loads(txt)
    r["events_path"] = events
    r["suite"] = suite
    r["label"] = suite + "+contexts"
    return r


def validate_events(chk, events_path, name):
    """Trace validation: every recorded event is consumed by one action of Trace_Sound; returns the
    events the specification rejects."""
    n = sum(1 for _ in open(events_path))
    if n == 0:
        return [], 0
    bad = []
    # chunk: ndJsonDeserialize keeps the whole file in memory
    CH = 40000
    lines = open(events_path).read().splitlines()
    for ci in range(0, len(lines), CH):
        part = os.path.join(os.path.dirname(events_path), "events_part_%d.ndjson" % ci)
        with open(part, "w") as f:
            f.write("\n".join(lines[ci:ci + CH]) + "\n")
        res = C.run_tlc("Trace_Sound", "Trace_Sound.cfg", workers=1, timeout=1800, dfs=True,
                        env_extra={"VERIF_IN": part}, name="trace_%s_%d" % (name, ci), heap="4g")
        if res.rc != 0 or "Model checking completed" not in res.out:
            raise C.ToolError("Trace_Sound did not complete on %s" % part)
        chk.add_tlc("Trace_Sound[%s:%d]" % (name, ci), res, "one state per consumed event")
        for b in res.printed("BAD"):
            bad.append(b)
        os.remove(part)
    return bad, n


def classify_events(bad):
    """bad: list of {"e": event, "w": witness} rejected by Trace_Sound. Adds a signature to each.
    Classes: exhausted-iterator-value (the value carried by an exhausted iterator result (false, v) is not in
    the element type, or a value that flowed out of such a result in a run that pulled past the end),
    value-not-in-type (everything else), write-inconsistent, unbound-parameter."""
    def pair(b):
        return (json.dumps(b["w"]["wv"], sort_keys=True), json.dumps(b["w"]["wt"], sort_keys=True))
    exh_pairs = {pair(b) for b in bad if b["w"].get("exh") and b["e"].get("t") == 1}
    # the carried value flows on into other typed positions of the same runs (arguments, wider unions ...)
    exh_values = {p[0] for p in exh_pairs}
    by_pair = {}
    for b in bad:
        by_pair.setdefault(pair(b), set()).add(b["e"].get("kind") or b["e"].get("ev"))
    out = []
    for b in bad:
        e, w = b["e"], b["w"]
        if e.get("ev") == "unbound":
            sig = {"class": "unbound-parameter", "name": e.get("name")}
        elif e.get("ev") == "write" and w["wv"].get("k") == "n/a":
            sig = {"class": "write-inconsistent", "op": e.get("op")}
        elif w.get("exh") or (e.get("t") == 1 and (pair(b) in exh_pairs or pair(b)[0] in exh_values)):
            sig = {"class": "exhausted-iterator-value"}
        else:
            sig = {"class": "value-not-in-type", "witness_value": pair(b)[0], "witness_type": pair(b)[1],
                   "roots": ",".join(sorted(by_pair[pair(b)]))}
        sig["event"] = e.get("ev")
        out.append((sig, b))
    return out


def report(chk, own_prop, results, bad_events, attribute=None):
    """Route mismatches and rejected events to chk if they belong to `own_prop`."""
    n_other = 0
    for r in results:
        suite_prop = SUITES.get(r["suite"], (None, None, None, r.get("owner")))[3]
        for m in r["mismatches"]:
            if m["kind"] == "render":
                raise C.ToolError("renderer failed on a case of suite %s: %s" % (r["suite"], m))
            prop = KIND_PROP.get(m["kind"], None) or suite_prop or (attribute(m) if attribute else None)
            props = {prop}
            spec_v = (m.get("expected") or {}).get("v") if (m.get("expected") or {}).get("status") == "inconclusive" else None
            if m["kind"] in ("panic", "parse-panic") and spec_v is None:
                # the specification predicted an outcome of the abstract machine for this case and the
                # implementation panicked instead: also a violation of the property the case belongs to
                props.add(suite_prop or (attribute(m) if attribute else None))
            if own_prop not in props:
                n_other += 1
                continue
            sig = {"kind": m["kind"], "suite": r["suite"], "what": m.get("what", "")[:200],
                   "program": m.get("program", "")}
            if isinstance(spec_v, str):
                sig["spec_inconclusive"] = spec_v     # why the specification predicts no result for this run
            chk.violation(sig, m)
    for sig, b in classify_events(bad_events):
        prop = EVENT_PROP.get(b["e"].get("ev"))
        if prop != own_prop:
            n_other += 1
            continue
        chk.violation(sig, {"rejected_event": b["e"], "witness": b["w"],
                      "note": "the trace specification (Trace_Sound.tla) has no behaviour with this event"})
    return n_other


def fill_coverage(chk, results, n_events, rule):
    cov = chk.cov
    cases = sum(r["cases"] for r in results)
    cov["traces_validated_against_impl"] = cases + n_events
    cov["replayed_cases"] = cases
    cov["validated_events"] = n_events
    cov["raw_events"] = sum(r["events_raw"] for r in results)
    cov["evaluations"] = cases
    cov["distinct_nontrivial"] = sum(r["distinct_programs"] for r in results)
    cov["rule"] = rule
    cov["by_suite"] = {r.get("label", r["suite"]): r["by_suite"] for r in results}
    cov["outcome_counts"] = {r.get("label", r["suite"]): r["counts"] for r in results}
    cov["mismatch_counts"] = {r.get("label", r["suite"]): r["mismatch_counts"] for r in results}
    for r in results:
        for s in r["samples"][:2]:
            chk.sample(s)
