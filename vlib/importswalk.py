"""Imports over a changing file tree: MC_Imports.tla enumerates every behaviour (writes / deletions of two files, parses
of texts that import them) of MaxLen steps with the specification's answer for every parse (a function of the files as
they are at that moment); `vh imports` replays them all in one process, one thread."""
import json
import os
from vlib import common as C


def run(chk, tier):
    work = C.workdir("imports_walk_" + chk.prop)
    cfg = "MC_Imports_thorough.cfg" if tier == "thorough" else "MC_Imports.cfg"
    res = C.run_tlc("MC_Imports", cfg, workers=4, timeout=1800, name="imports_%s_%s" % (chk.prop, tier), heap="4g")
    C.require_tlc_ok(res, "MC_Imports (ParseIsAFunctionOfTheFiles)")
    beh = res.printed("REPLAY")
    if not beh:
        raise C.ToolError("MC_Imports emitted no behaviour")
    path = os.path.join(work, "behaviours.ndjson")
    C.write_ndjson(path, beh)
    chk.add_tlc("MC_Imports", res, "%d behaviours ending in a parse; invariant ParseIsAFunctionOfTheFiles" % len(beh))
    _, txt = C.run_vh(["imports", path, os.path.join(work, "tree")], timeout=3000)
    r = json.loads(txt)
    if r["behaviours"] != len(beh):
        raise C.ToolError("vh imports replayed %d of %d behaviours" % (r["behaviours"], len(beh)))
    chk.cov["imports_walk"] = {k: r[k] for k in ("behaviours", "parses", "writes", "values", "errors")}
    chk.cov["traces_validated_against_impl"] = chk.cov.get("traces_validated_against_impl", 0) + r["behaviours"]
    for s in r["samples"][:1]:
        chk.sample(s)
    return r
