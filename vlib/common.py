"""Shared plumbing for the /verif checks: building the harness from /repo's working tree,
running TLC, reading/writing ndjson, evidence files, known findings, VIOLATION reporting."""
import json
import os
import re
import shutil
import subprocess
import sys
import time

VERIF = os.path.dirname(os.path.dirname(os.path.abspath(__file__)))
REPO = os.environ.get("VERIF_REPO", "/repo")
SPEC = os.path.join(VERIF, "spec")
# VERIF_SCRATCH=<dir> redirects everything a check writes (work files, evidence, replay files) to <dir>: used when a
# check is pointed at a private copy of the repository (tools/try_mutant.sh), so that such runs can go on side by side
# and never overwrite the evidence of the unchanged tree
SCRATCH = os.environ.get("VERIF_SCRATCH")
WORK = os.path.join(SCRATCH or VERIF, "work")
HARNESS = os.environ.get("VERIF_HARNESS", os.path.join(VERIF, "harness"))
VH = os.path.join(HARNESS, "target", "release", "vh")
EVIDENCE = os.path.join(SCRATCH or VERIF, "evidence")
REPLAY = os.path.join(SCRATCH or VERIF, "replay")
KNOWN = os.path.join(VERIF, "known_findings.json")
os.environ.setdefault("VERIF_WORK", WORK)   # scratch directory the harness uses
TLA_CP = "/opt/veriftools/tla/tla2tools.jar:/opt/veriftools/tla/CommunityModules-deps.jar"


class ToolError(Exception):
    """Something in the machinery (not in the code under test) failed: exit status 2."""


def seed():
    try:
        return int(os.environ.get("VERIF_SEED", "1"))
    except ValueError:
        return 1


def workdir(name):
    d = os.path.join(WORK, name)
    shutil.rmtree(d, ignore_errors=True)
    os.makedirs(d, exist_ok=True)
    return d


_built = False


def build_harness(force=False):
    """Rebuild the harness (and with it the library from /repo's current working tree)."""
    global _built
    if _built and not force:
        return
    env = dict(os.environ)
    env["CARGO_NET_OFFLINE"] = "true"
    lock = os.path.join(HARNESS, "Cargo.lock")
    if not os.path.exists(lock):
        shutil.copy(os.path.join(REPO, "Cargo.lock"), lock)
    t0 = time.time()
    p = subprocess.run(
        ["cargo", "build", "--release", "--offline", "--quiet"],
        cwd=HARNESS, env=env, stdout=subprocess.PIPE, stderr=subprocess.STDOUT, text=True)
    if p.returncode != 0:
        sys.stderr.write(p.stdout[-6000:])
        raise ToolError("harness build failed (does /repo still compile with --cfg simplesl_verif?)")
    _built = True
    return time.time() - t0


def run_vh(args, stdin_path=None, stdout_path=None, timeout=1800, env_extra=None, check=True):
    """Run the harness binary. Returns (returncode, stdout_text or None)."""
    build_harness()
    env = dict(os.environ)
    env.setdefault("VERIF_SEED", str(seed()))
    env.setdefault("VERIF_WORK", WORK)
    if env_extra:
        env.update(env_extra)
    fin = open(stdin_path, "rb") if stdin_path else subprocess.DEVNULL
    fout = open(stdout_path, "wb") if stdout_path else subprocess.PIPE
    try:
        p = subprocess.run([VH] + list(args), stdin=fin, stdout=fout, stderr=subprocess.PIPE,
                           timeout=timeout, env=env)
    except subprocess.TimeoutExpired:
        raise ToolError("harness timed out: vh " + " ".join(args))
    finally:
        if stdin_path:
            fin.close()
        if stdout_path:
            fout.close()
    if check and p.returncode != 0:
        sys.stderr.write(p.stderr.decode("utf-8", "replace")[-4000:])
        raise ToolError("harness failed (%d): vh %s" % (p.returncode, " ".join(args)))
    out = None if stdout_path else p.stdout.decode("utf-8", "replace")
    return p.returncode, out


class TlcResult:
    def __init__(self, out, rc, wall):
        self.out = out
        self.rc = rc
        self.wall = wall
        self.generated = 0
        self.distinct = 0
        self.depth = 0
        m = re.search(r"(\d[\d,]*) states generated, (\d[\d,]*) distinct states found", out)
        if m:
            self.generated = int(m.group(1).replace(",", ""))
            self.distinct = int(m.group(2).replace(",", ""))
        m = re.search(r"The depth of the complete state graph search is (\d+)", out)
        if m:
            self.depth = int(m.group(1))
        self.violated = ("is violated" in out or "Error: " in out or "Deadlock reached" in out
                         or "Assumption" in out and "is false" in out)
        self.finished = "Model checking completed. No error has been found." in out or \
            "Finished computing initial states" in out and not self.violated and rc == 0

    def coverage_zero(self):
        """Names of actions/operators TLC reports with zero coverage (needs -coverage)."""
        zeros = []
        for m in re.finditer(r"^<(\w+) line[^>]*>: (\d+):(\d+)$", self.out, re.M):
            if m.group(3) == "0" and m.group(2) == "0":
                zeros.append(m.group(1))
        return zeros

    def printed(self, marker):
        """Values printed with PrintT(<<marker, json-string>>) come out as <<"marker", "...">>."""
        res = []
        pat = re.compile(r'^<<"%s", "(.*)">>$' % re.escape(marker))
        for line in self.out.splitlines():
            m = pat.match(line)
            if m:
                res.append(json.loads(_tla_unescape(m.group(1))))
        return res


def _tla_unescape(s):
    # TLC prints strings with \" and \\ escaped
    return s.replace('\\"', '"').replace("\\\\", "\\")


def run_tlc(module, cfg=None, workers=8, timeout=900, env_extra=None, simulate=None, depth=None,
            coverage=False, deadlock=False, heap="3g", name=None, extra=None, dfs=False):
    """Run TLC on spec/<module>.tla with spec/<cfg>. Returns TlcResult (never raises on violation)."""
    name = name or module
    meta = workdir("tlc_" + name)
    cfg = cfg or (module + ".cfg")
    env = dict(os.environ)
    jopts = "-Xss1g"
    if dfs:
        jopts += " -Dtlc2.tool.queue.IStateQueue=StateDeque"
    env["JAVA_TOOL_OPTIONS"] = jopts
    if env_extra:
        env.update({k: str(v) for k, v in env_extra.items()})
    cmd = ["java", "-Xss1g", "-XX:+UseParallelGC", "-XX:ParallelGCThreads=4", "-Xmx" + heap, "-cp", TLA_CP, "tlc2.TLC",
           "-workers", str(workers), "-metadir", meta, "-cleanup", "-noGenerateSpecTE",
           "-config", cfg]
    if not deadlock:
        cmd.append("-deadlock")  # -deadlock DISABLES deadlock checking
    if coverage:
        cmd += ["-coverage", "1"]
    if simulate:
        cmd += ["-simulate", "num=%d" % simulate]
        if depth:
            cmd += ["-depth", str(depth)]
    if extra:
        cmd += list(extra)
    cmd.append(module + ".tla")
    t0 = time.time()
    try:
        p = subprocess.run(cmd, cwd=SPEC, env=env, stdout=subprocess.PIPE, stderr=subprocess.STDOUT,
                           timeout=timeout)
    except subprocess.TimeoutExpired:
        raise ToolError("TLC timed out after %ds on %s" % (timeout, module))
    out = p.stdout.decode("utf-8", "replace")
    shutil.rmtree(meta, ignore_errors=True)
    res = TlcResult(out, p.returncode, time.time() - t0)
    with open(os.path.join(WORK, "tlc_%s.log" % name), "w") as f:
        f.write(out)
    return res


def require_tlc_ok(res, what):
    """The model itself must satisfy its properties; anything else is a tool/spec error (exit 2)
    unless the caller handles violations of the *spec-level* property explicitly."""
    if res.rc != 0 or res.violated:
        tail = "\n".join(res.out.splitlines()[-40:])
        sys.stderr.write(tail + "\n")
        raise ToolError("TLC did not complete cleanly on %s (rc=%d)" % (what, res.rc))


def read_ndjson(path):
    res = []
    with open(path) as f:
        for line in f:
            line = line.strip()
            if line:
                res.append(json.loads(line))
    return res


def write_ndjson(path, rows):
    with open(path, "w") as f:
        for r in rows:
            f.write(json.dumps(r, separators=(",", ":"), sort_keys=True))
            f.write("\n")


# ---------------------------------------------------------------- known findings

def load_known():
    if not os.path.exists(KNOWN):
        return {"findings": [], "fixed": []}
    with open(KNOWN) as f:
        return json.load(f)


def match_known(prop, signature):
    """A finding matches when every key of its `match` object equals (or is a regex fullmatch of,
    for keys ending in _re) the corresponding key of the violation signature."""
    for f in load_known().get("findings", []):
        if f.get("property") != prop:
            continue
        ok = True
        for k, v in f.get("match", {}).items():
            if k.endswith("_re"):
                sv = signature.get(k[:-3])
                if sv is None or not re.fullmatch(v, str(sv), re.S):
                    ok = False
                    break
            elif signature.get(k) != v:
                ok = False
                break
        if ok:
            return f
    return None


# ---------------------------------------------------------------- check context

class Check:
    """One run of one property's check: collects violations, writes evidence, sets exit code."""

    def __init__(self, prop, tier, level="model_checking"):
        self.prop = prop
        self.tier = tier
        self.level = level
        self.t0 = time.time()
        self.violations = []      # (signature, replay object)
        self.known_hits = {}      # finding id -> count
        self.cov = {"states": 0, "transitions": 0, "traces_validated_against_impl": 0,
                    "samples": [], "evaluations": 0, "distinct_nontrivial": 0,
                    "tlc_runs": [], "inconclusive": {}, "rejected": 0}
        self.assumptions = []
        os.makedirs(EVIDENCE, exist_ok=True)
        os.makedirs(os.path.join(REPLAY, prop), exist_ok=True)
        # replay files of an earlier run of this tier would be mistaken for this run's
        import glob
        for old in glob.glob(os.path.join(REPLAY, prop, "%s_%s_*.json" % (prop, tier))):
            os.remove(old)

    # -- coverage bookkeeping
    def add_tlc(self, name, res, note=""):
        self.cov["states"] += res.distinct
        self.cov["transitions"] += res.generated
        self.cov["tlc_runs"].append({"name": name, "distinct_states": res.distinct,
                                     "states_generated": res.generated, "depth": res.depth,
                                     "wall_s": round(res.wall, 1), "note": note})

    def sample(self, obj, limit=6):
        if len(self.cov["samples"]) < limit:
            self.cov["samples"].append(obj)

    def inconclusive(self, reason, n=1):
        self.cov["inconclusive"][reason] = self.cov["inconclusive"].get(reason, 0) + n

    # -- violations
    def violation(self, signature, replay_obj):
        """signature: small dict identifying the failing input/call site (matched against
        known_findings.json); replay_obj: self-contained description written to the replay file."""
        f = match_known(self.prop, signature)
        if f is not None:
            self.known_hits.setdefault(f["id"], [f, 0])[1] += 1
            return False
        self.violations.append((signature, replay_obj))
        return True

    def finish(self):
        wall = time.time() - self.t0
        for fid, (f, n) in sorted(self.known_hits.items()):
            print("KNOWN-FINDING: property=%s %s [%s, %d occurrence(s) this run]" %
                  (self.prop, f["what"], fid, n))
        paths = []
        for i, (sig, obj) in enumerate(self.violations[:20]):
            path = os.path.join(REPLAY, self.prop, "%s_%s_%d.json" % (self.prop, self.tier, i))
            with open(path, "w") as fh:
                json.dump({"property": self.prop, "signature": sig, "case": obj}, fh, indent=1,
                          sort_keys=True, default=str)
            paths.append(path)
        cov = self.cov
        cov["known_findings_hit"] = {fid: n for fid, (f, n) in self.known_hits.items()}
        ev = {"property_id": self.prop, "tier": self.tier, "seed": seed(), "level": self.level,
              "coverage": cov, "assumptions": self.assumptions, "wall_s": round(wall, 2),
              "violations": len(self.violations)}
        if not cov["samples"]:
            cov["samples"] = ["(no case sampled)"]
        with open(os.path.join(EVIDENCE, self.prop + ".json"), "w") as fh:
            json.dump(ev, fh, indent=1, sort_keys=True, default=str)
        for path in paths:
            print("VIOLATION property=%s replay=%s" % (self.prop, path))
        if paths:
            return 1
        print("OK property=%s tier=%s states=%d transitions=%d impl_traces=%d wall=%.1fs" %
              (self.prop, self.tier, cov["states"], cov["transitions"],
               cov["traces_validated_against_impl"], wall))
        return 0
