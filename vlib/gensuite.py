"""Seeded random typed programs (harness/src/progen.rs) with the specification as oracle (MC_Gen.tla)."""
import json
import os
import re
from vlib import common as C


def attribute(m):
    """Which listed property a result-level disagreement on a generated program belongs to (by the
    constructs the program uses; only used to name the violation, never to decide it)."""
    if m["kind"] == "log":
        return "C07"
    prog = m.get("program", "")
    body = prog.split("\n", 1)[1] if "\n" in prog else prog
    what = m.get("what", "")
    if re.search(r"kind \w+ expected, \w+ observed", what) and re.search(r"\$[+*&|]|~", body):
        return "C11"
    if re.search(r"~|\$|@| \? | \\ ", body):
        return "C11"
    if re.search(r"\b(match|while|for|loop|if)\b", body):
        return "C12"
    if re.search(r"[-+*/%&|^]=|<<=|>>=|\bmut\b", body):
        return "C13"
    return "C08"


def run_gen(chk, tier, n, salt=0, workers=6):
    out = C.workdir("suite_gen_%d" % salt)
    src = os.path.join(out, "in.ndjson")
    C.run_vh(["gen", str(n), src], env_extra={"VERIF_SEED": str(C.seed() * 1000 + salt)})
    res = C.run_tlc("MC_Gen", "MC_Gen.cfg", workers=workers, timeout=3000, env_extra={"VERIF_IN": src, "VERIF_OUT": out},
                    name="gen_%s_%d" % (tier, salt), heap="4g")
    C.require_tlc_ok(res, "MC_Gen (the specification as oracle for generated programs)")
    chk.add_tlc("MC_Gen", res, "%d generated programs evaluated by the specification" % n)
    cases = os.path.join(out, "gen_cases.ndjson")
    events = os.path.join(out, "events.ndjson")
    rc, txt = C.run_vh(["lang", cases, events], timeout=3000)
    r = json.loads(txt)
    r["events_path"] = events
    r["suite"] = "gen"
    return r
