(a, b) := (1, "s");
(c, d, e) := (1.5, [1], ());
f := () -> (int, int) { return (1, 2) }
(g, h) := f();
t := (true, 5); (ok, val) := t;
(a, b, c, d, e, g, h, ok, val)
