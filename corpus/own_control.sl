x := 3;
a := if x > 2 { "big" } else { "small" };
b := if x > 2 "big" else if x > 1 "mid" else "small";
if x == 3 { x2 := x * 2 }
c := if v: int = x { v } else { 0 };
u := if x > 2 { 1 } else { 2.5 };
d := match u { 1 => "one", 2, 3 => "few", i: int => "int", f: float => "float", };
e := match x { => "anything", };
f := match [1, 2] { a: [int] => a[0], => 0, };
g := { y := 1; y + 1 };
(a, b, c, d, e, f, g)
