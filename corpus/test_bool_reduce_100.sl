i:=mut 0;
                x:=()->(bool, bool){
                    i+=1;
                    return (*i<20, *i>4);
                }
                (x$||, *i)
