x := 7; y := 2;
r := [x + y, x - y, x * y, x / y, x % y, x ** y, x << y, x >> y, x & y, x | y, x ^ y, -x, !x];
c := [x == y, x != y, x < y, x <= y, x > y, x >= y, !(x < y), true && false, true || false, true & false, true | false, true ^ true];
fl := [1.5 + 2.5, 1.5 - 2.5, 1.5 * 2.0, 1.5 / 2.0, 2.0 ** 0.5, -1.5];
fc := [1.5 < 2.5, 1.5 <= 2.5, 1.5 > 2.5, 1.5 >= 2.5, 1.5 == 1.5, 1.5 != 2.5];
s := "a" + "b"; arrs := [1] + [2.5] + []; (r, c, fl, fc, s, arrs)
