"aa" + "B"
