!false
