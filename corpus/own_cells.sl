c := mut 1; d := mut int|float 2; e := mut [int] []; s := mut "s"; b := mut true;
c = 5; c += 1; c -= 2; c *= 3; c /= 2; c %= 4; c **= 2; c <<= 1; c >>= 1; c &= 7; c |= 8; c ^= 3;
d = 2.5; d = 3; e = [1, 2]; e += [3]; s += "t"; b &= false; b |= true; b ^= true;
x := *c + 1; y := *d; nested := mut mut 1; z := *(*nested); *nested = 4;
(x, y, z, *e, *s, *b)
