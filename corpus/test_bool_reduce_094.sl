[true, false, true]~$||
