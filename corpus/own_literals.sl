a := true; b := false; i := 42; h := 0xff; o := 0o17; bi := 0b1_01; big := 1_000_000;
f1 := 1.5; f2 := 2e3; f3 := 1.25e-2; s := "text \"quoted\" \n tab\t uni \u{1F600}";
v := (); e := []; arr := [1, 2.5, "three"]; rep := [0; 3]; t := (1, 2.5, "x");
st := struct{ i, name := "n", nested := struct{ z := 1 } }; empty := struct{};
(i, f1, s, v, e, arr, rep, t, st, empty)
