x:=() -> ()->(bool, int)|() -> (bool, float){
                    return [45, 16, 45]~;
                }
                x()$+
