r := { a := { b := { c := 1; c + 1 }; b + 1 }; a + 1 };
f := () -> int { { { return 1 } } }
g := (x: int) -> int { if x > 0 { if x > 1 { if x > 2 { return 3 } return 2 } return 1 } return 0 }
(r, f(), g(3))
