print := std.io.print;
print("Hello"); std.io.print(std.convert.to_string(1.5));
l := std.len([1, 2]) + std.len("abc");
m := std.math.PI;
(l, m)
