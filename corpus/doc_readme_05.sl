x := true //bool
x := false //bool
x := 5 // int
y := 5.0 // float
text := "Hello\n world" // string
x := ["int", 7.0, 4] // array
x := [0; 5] // array containg five zeros
tuple := (5, 7.8, "value") // tuple
{
    tuple := (4, "rgg", 56)
    std.io.print(tuple) // prints (4, "rgg", 56)
}
std.io.print(tuple) //prints (5, 7.8, "value")
