it := [1, 2, 3]~; acc := mut 0;
while r: (bool, int) = it() { if !r.0 { break } acc += r.1 }
u := mut int | string 1;
if n: int = *u { acc += n }
*acc
