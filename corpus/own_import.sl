m := import "/verif/corpus/lib/module.sl";
m.triple(m.base)
