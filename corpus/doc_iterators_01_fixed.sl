print := std.io.print;
is_even := (a: int) -> bool {return a%2==0};
x := [23, 2, 12, 45, 0,  65, -2]~?is_even; //creates iterator returning only values of an array that are even
for e in x {
    print(e);
} //prints elements of x iterator
