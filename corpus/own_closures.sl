name := "Tom"; greet := () -> string { return "Hello " + name } name := "Jerry";
counter := () -> () -> int { c := mut 0; return () -> int { c += 1; return *c } }
c1 := counter(); c1();
compose := (f: (int) -> int, g: (int) -> int) -> (int) -> int { return (x: int) -> int { return f(g(x)) } }
inc := (x: int) -> int { return x + 1 }
(greet(), c1(), compose(inc, inc)(1))
