delta := (a: float, b: float, c: float) -> float {
    return b**2.0+4.0*a*c
} // function taking free arguments of type float and returning value of type float
name := "Tom"
print:=std.io.print;
x := (){
    print("Hello "+name);
}
x() // prints "Hello Tom"
name := "Jerry"
x() // still prints "Hello Tom"
print := (vars: any) {
} // function are availible after they are created and can be overwritten
x() // but this still works as before
y := (f: ()->()){
    f()
} // function y takes function as argument and exec it
y(
    ()->(){print("Function")} // anonymous function
)
rec := (n: int){
    if n>0 {
        rec(n-1)
        print(n)
    }
} //recursion
