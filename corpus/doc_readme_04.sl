// One line comment
/* 
Multiline comment
*/
std.io.print("Hello world"/* Comment */)
