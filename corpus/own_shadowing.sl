x := 1; f := () -> int { return x } x := "s"; g := () -> string { return x }
{ x := 2.5; h := x }
k := (x: bool) -> bool { x := !x; return x }
(f(), g(), k(true), x)
