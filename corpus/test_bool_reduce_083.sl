[true, true]~$&&
