f := (x: int) -> int | string { if x > 0 { return x } else { return "neg" } }
g := (x: int) -> () { if x > 0 return; return }
h := (x: int) -> int { return match x { 0 => 1, => x * 2, } }
l := (x: int) -> int { loop { return x } return 0 }
b := (x: int) -> int { return { y := x; y + 1 } }
(f(1), g(1), h(0), l(2), b(3))
