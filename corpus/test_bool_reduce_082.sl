[true, false, true]~$&&
