() -> (bool, int) {return (false, 0)} $0 (a: int, b:int) -> int { return 0 }
