i:=mut 45.5;
                x:=() -> (bool, float) {
                    val:=*i;
                    if val>70.0 return (false, val)
                    i+=15.5;
                    return (true, val); 
                }
                x$]
