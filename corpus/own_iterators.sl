arr := [1, 2, 3, 4, 5, 6];
even := (v: int) -> bool { return v % 2 == 0 }
dbl := (v: int) -> int { return v * 2 }
a := arr~ ? even @ dbl $];
b := arr~ @ dbl ? even $+;
c := arr~ $*;
d := [true, false]~ $&&; e := [true, false]~ $||; f := arr~ $&; g := arr~ $|;
h := arr~ $ 0 (acc: int, cur: int) -> int { return acc + cur };
(p, q) := arr~ \ even;
mixed := [1, 2.5, "s", 3]~ ? int $];
fl := [1.5, 2.5]~ $+; st := ["a", "b"]~ $+; fp := [1.5, 2.0]~ $*;
gen := (n: int) -> () -> (bool, int) { i := mut 0; return () -> (bool, int) { v := *i; if v < n { i += 1; return (true, v) } return (false, v) } }
k := gen(3) @ dbl $];
first := arr~();
(a, b, c, d, e, f, g, h, p, q, mixed, fl, st, fp, k, first)
