arr := [3, 1, 2];
mx := arr~ $ 0 (acc: int, cur: int) -> int { if cur > acc { return cur } return acc };
cat := ["a", "b"]~ $ "" (acc: string, cur: string) -> string { return acc + cur };
(mx, cat)
