!true
