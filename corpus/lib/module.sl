base := 14;
triple := (v: int) -> int { return v * 3 }
