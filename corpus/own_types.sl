a := (p: bool, q: int, r: float, s: string, t: any, u: (), v: [int], w: [], x: [int|float], y: (int, string), z: mut int) { }
b := (f: () -> (), g: (int) -> int, h: (int, float) -> (int | float), i: ((int) -> int) -> int, j: () -> (bool, any)) { }
c := (s: struct{}, t: struct{a: int}, u: struct{a: int, b: struct{c: [float]}}, v: mut int | mut float, w: mut (int|float), n: !) { }
d := () -> int|float { return 1 }
e := () -> [(int, string)] { return [] }
fl := [1, 2.5, "s", [1], (1, 2), ()]~ ? int | float $];
m := mut [int|string] [1];
u := mut () -> int () -> int { return 1 };
(fl, *m, (*u)())
