iota := (start: int, end: int) -> () -> (bool, int) {
    i := mut start;
    return () -> (bool, int) {
        val := *i;
        if(val<end){
            i+=1;
            return (true, val);
        }
        return (false, val);
    }
} //function creating iterator returning values from start to end
[1, 2.5, "3"]~ //creates operator from array
