i := mut 0; total := mut 0;
loop { i += 1; if *i > 5 { break } if *i % 2 == 0 { continue } total += *i }
while *i > 0 { i -= 1 }
it := [1, 2, 3]~;
while v: (bool, int) = it() { if !v.0 { break } total += v.1 }
for e in [1, 2.5]~ { match e { n: int => total += n, => (), } }
for e in [[1], [2, 3]]~ { for k in e~ { total += k } }
f := () -> int { for e in [1, 2, 3]~ { if e == 2 { return e } } return 0 }
*total + f()
