// leading comment
x := 1 /* inline */ + /* another */ 2; // trailing
/* multi
   line */
y := x // no semicolon
z := y;
z
