id := (x: any) -> any { return x }
add := (a: int, b: int) -> int { return a + b }
noret := () { }
unit := () -> () { return }
early := (x: int) -> int { if x > 0 { return 1 } return 0 }
higher := (f: (int) -> int, x: int) -> int { return f(f(x)) }
make := (n: int) -> (int) -> int { return (m: int) -> int { return m + n } }
rec := (n: int) -> int { if n <= 0 { return 0 } return n + rec(n - 1) }
un := (x: int | float | string) -> string { return match x { i: int => "i", f: float => "f", s: string => s, } }
opt := (x: int | ()) -> int { if v: int = x { return v } return 0 }
(id(1), add(1, 2), noret(), unit(), early(3), higher(make(2), 1), rec(3), un(1.5), opt(()), ((y: int) -> int { return y * 2 })(4))
