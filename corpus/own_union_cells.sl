f := (x: mut int | mut float) { y := *x }
g := (x: mut int | mut float, v: int) { }
h := (a: [int] | [float]) -> int | float { return a[0] }
k := (s: string | [int]) -> string | [int] { return s[0:1] }
t := (p: (int, string) | (float, string)) -> string { return p.1 }
st := (s: struct{a: int} | struct{a: float, b: int}) -> int | float { return s.a }
(h([1]), k("ab"), t((1, "s")), st(struct{a := 1}))
