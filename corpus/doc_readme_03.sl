std.io.print("Hello world")
