[false, false]~$||
