m := mod { one := 1; inc := (v: int) -> int { return v + one } hidden := mut 3 };
n := mod { };
nested := mod { inner := mod { x := 2 } };
(m.one, m.inc(2), *m.hidden, nested.inner.x, n)
