cl := (x: int | string | [int]) -> string {
    return match x {
        0 => "zero",
        1, 2, 3 => "small",
        "a", "b" => "letter",
        [1] => "array",
        i: int => "int",
        s: string => s,
        => "other",
    }
}
(cl(0), cl(2), cl("a"), cl([1]), cl(9), cl("zz"), cl([2]))
