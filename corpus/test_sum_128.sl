x:=() -> ()->(bool, int)|() -> (bool, float){
                    return [4.5, 1.6, 4.5]~;
                }
                x()$+
