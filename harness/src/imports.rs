//! `vh imports <behaviours.ndjson> <scratch-dir>`: replays the behaviours of spec/MC_Imports.tla (writes / deletions of two
//! files and parses of a text that imports them) in THIS process, one thread, one after the other, so that whatever the
//! implementation remembers between parses meets every order of changes.  Every write advances the file's
//! modification time by two seconds (a cache validated by time stamps must not hide behind the clock's granularity).
use crate::util::{Mismatches, catch, read_ndjson};
use serde_json::{Value, json};
use simplesl::{Code, Interpreter, variable::Variable};
use std::time::{Duration, SystemTime};

fn text_of(version: &str, dir: &str) -> Option<String> {
    Some(match version {
        "absent" => return None,
        "i1" => "v := 1\n".to_string(),
        "i2" => "v := 2\n".to_string(),
        "ibad" => "v := := 1 }\n".to_string(),
        "o10" => format!("m := import \"{dir}/inner.sl\";\nw := m.v + 10\n"),
        "o20" => format!("m := import \"{dir}/inner.sl\"\nw := m.v + 20\n"),
        "oplain" => "w := 5\n".to_string(),
        "obad" => "w := ) 5\n".to_string(),
        other => panic!("unknown file version {other}"),
    })
}

pub fn run(args: &[String]) -> Value {
    let rows = read_ndjson(&args[0]);
    let dir = args[1].clone();
    std::fs::create_dir_all(&dir).expect("scratch directory");
    let mut mm = Mismatches::new(60);
    let mut clock = SystemTime::now() - Duration::from_secs(4_000_000);
    let (mut parses, mut writes, mut values, mut errors) = (0u64, 0u64, 0u64, 0u64);
    let mut samples = vec![];
    for (bi, row) in rows.iter().enumerate() {
        let steps = row.as_array().expect("a behaviour is a list of steps");
        // every behaviour starts from the empty tree (the process, and with it any remembered state, goes on)
        for f in ["inner", "outer"] {
            let _ = std::fs::remove_file(format!("{dir}/{f}.sl"));
        }
        let mut shown = vec![];
        for (si, st) in steps.iter().enumerate() {
            if st["a"] == "write" {
                let path = format!("{dir}/{}.sl", st["f"].as_str().unwrap());
                match text_of(st["v"].as_str().unwrap(), &dir) {
                    None => { let _ = std::fs::remove_file(&path); }
                    Some(t) => {
                        std::fs::write(&path, t).expect("write");
                        clock += Duration::from_secs(2);
                        let f = std::fs::OpenOptions::new().write(true).open(&path).expect("open");
                        f.set_modified(clock).expect("set_modified");
                    }
                }
                writes += 1;
                shown.push(format!("{} := {}", st["f"].as_str().unwrap(), st["v"].as_str().unwrap()));
                continue;
            }
            let which = st["which"].as_str().unwrap();
            let text = if which == "outer" { format!("o := import \"{dir}/outer.sl\";\no.w") } else { format!("i := import \"{dir}/inner.sl\";\ni.v") };
            parses += 1;
            let got = catch(|| {
                let interp = Interpreter::without_stdlib();
                match Code::parse(&interp, &text) {
                    Err(e) => json!({"k": "error", "at": "parse", "msg": e.to_string()}),
                    Ok(code) => match code.exec() {
                        Err(e) => json!({"k": "error", "at": "exec", "msg": e.to_string()}),
                        Ok(Variable::Int(n)) => json!({"k": "value", "v": n}),
                        Ok(v) => json!({"k": "other", "v": format!("{v:?}")}),
                    },
                }
            });
            shown.push(format!("parse {which}"));
            let exp = &st["exp"];
            let base = json!({"behaviour": bi, "step": si, "history": shown, "text": text, "expected": exp});
            match got {
                Err(p) => {
                    let mut b = base.clone();
                    b["panic"] = json!(p);
                    mm.push("panic", b);
                }
                Ok(g) => {
                    if g["k"] == "value" { values += 1 } else { errors += 1 }
                    let same = g["k"] == exp["k"] && (exp["k"] != "value" || g["v"] == exp["v"]);
                    if !same {
                        let mut b = base.clone();
                        b["observed"] = g.clone();
                        mm.push("outcome", b);
                    }
                    if samples.len() < 3 && g["k"] == "value" && bi % 401 == 7 {
                        samples.push(json!({"history": shown, "text": text, "expected": exp, "observed": g}));
                    }
                }
            }
        }
    }
    json!({"behaviours": rows.len(), "parses": parses, "writes": writes, "values": values, "errors": errors,
        "mismatch_counts": mm.counts(), "mismatches": mm.items(), "samples": samples})
}
