//! `vh statics <cases.ndjson> <out.ndjson>`: what the implementation's CHECKER says about every program of a
//! case file (conformance of spec/Static.tla, judged by spec/Trace_Static.tla). Every program is rendered
//! (crate::render, import files written like `vh lang` does) and parsed with `Code::parse` under
//! `util::catch`; nothing is executed. One record per case, in the order of the case file:
//!   {"i": line number (1-based), "id", "accepted": bool, "class": error class ("" when accepted),
//!    "st": static type of the last statement in wire form ({"k":"none"} when there is none)}
//! classes: the `Error` variant name; the six run-time error names when a constant sub-expression failed while
//! being folded; "parse-panic" / "type-panic" (a panic is data); "syntax" when the rendered text did not parse
//! (a defect of the renderer or an AST outside the grammar; the driver treats it as a tool error).
//! `<out.ndjson>.text` gets {"i", "id", "text", "detail"} for the driver's reports.
//! stdout: one JSON summary.
use crate::lang::error_kind;
use crate::render::Renderer;
use crate::util::{catch, read_ndjson};
use crate::wire::type_to_wire;
use serde_json::{Value, json};
use simplesl::{Code, Error, Interpreter, variable::ReturnType};
use std::{collections::BTreeMap, io::Write};

pub struct Verdict {
    pub accepted: bool,
    pub class: String,
    pub st: Value,
    pub detail: String,
}

fn class_of(e: &Error) -> String {
    match e {
        Error::Parsing(_) => "syntax".into(),
        other => {
            let k = error_kind(other);
            k.strip_prefix("rejected:").map(str::to_string).unwrap_or(k)
        }
    }
}

/// the checker's verdict on one program text
pub fn check_text(text: &str, stdlib: bool) -> Verdict {
    let interp = if stdlib { Interpreter::with_stdlib() } else { Interpreter::without_stdlib() };
    let none = json!({"k": "none"});
    match catch(|| Code::parse(&interp, text)) {
        Err(p) => Verdict { accepted: false, class: "parse-panic".into(), st: none, detail: p },
        Ok(Err(e)) => Verdict { accepted: false, class: class_of(&e), st: none, detail: e.to_string() },
        Ok(Ok(code)) => match catch(|| code.return_type()) {
            Ok(t) => Verdict { accepted: true, class: String::new(), st: type_to_wire(&t), detail: t.to_string() },
            Err(p) => Verdict { accepted: false, class: "type-panic".into(), st: none, detail: p },
        },
    }
}

pub fn run(args: &[String]) {
    if args.len() < 2 {
        eprintln!("usage: vh statics <cases.ndjson> <out.ndjson>");
        std::process::exit(2);
    }
    let cases = read_ndjson(&args[0]);
    let mut out = std::io::BufWriter::new(std::fs::File::create(&args[1]).expect("cannot create the record file"));
    let mut texts = std::io::BufWriter::new(std::fs::File::create(format!("{}.text", args[1])).expect("cannot create the text file"));
    let mut classes: BTreeMap<String, u64> = BTreeMap::new();
    let mut by_suite: BTreeMap<String, u64> = BTreeMap::new();
    let (mut accepted, mut render_failures) = (0u64, 0u64);
    for (idx, case) in cases.iter().enumerate() {
        let i = idx + 1;
        *by_suite.entry(case["suite"].as_str().unwrap_or("?").to_string()).or_insert(0) += 1;
        let stmts = case["prog"].as_array().cloned().unwrap_or_default();
        let rendered = catch(|| {
            let mut rd = Renderer::new();
            let t = rd.program(&stmts);
            for (path, body) in &rd.files {
                if let Some(dir) = std::path::Path::new(path).parent() {
                    let _ = std::fs::create_dir_all(dir);
                }
                std::fs::write(path, body).expect("cannot write import file");
            }
            t
        });
        let (text, v) = match rendered {
            Ok(text) => {
                let v = check_text(&text, case["std"].as_bool().unwrap_or(false));
                (text, v)
            }
            Err(p) => {
                render_failures += 1;
                (String::new(), Verdict { accepted: false, class: "render".into(), st: json!({"k": "none"}), detail: p })
            }
        };
        if v.accepted {
            accepted += 1;
        } else {
            *classes.entry(v.class.clone()).or_insert(0) += 1;
        }
        writeln!(out, "{}", json!({"i": i, "id": case["id"], "accepted": v.accepted, "class": v.class, "st": v.st})).unwrap();
        writeln!(texts, "{}", json!({"i": i, "id": case["id"], "text": text, "detail": v.detail})).unwrap();
    }
    out.flush().unwrap();
    texts.flush().unwrap();
    let _ = std::fs::remove_dir_all(Renderer::new().import_dir);
    println!("{}", json!({"cases": cases.len(), "accepted": accepted, "rejected_by_class": classes,
        "render_failures": render_failures, "by_suite": by_suite}));
}
