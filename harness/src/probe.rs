//! `vh run`: parse and execute one program (file or literal text), print what the API shows.
use crate::util::catch;
use crate::wire::{type_to_wire, value_to_wire, Ids};
use serde_json::{Value, json};
use simplesl::{Code, Interpreter, variable::{ReturnType, Typed}};

pub fn run_text(text: &str, stdlib: bool) -> Value {
    let interp = if stdlib { Interpreter::with_stdlib() } else { Interpreter::without_stdlib() };
    let parsed = catch(|| Code::parse(&interp, text));
    let code = match parsed {
        Err(p) => return json!({"parse": "panic", "msg": p}),
        Ok(Err(e)) => return json!({"parse": "error", "msg": e.to_string()}),
        Ok(Ok(c)) => c,
    };
    let st = catch(|| code.return_type());
    let res = catch(|| code.exec());
    let mut ids = Ids::default();
    json!({
        "parse": "ok",
        "static": st.as_ref().map(|t| t.to_string()).unwrap_or_else(|p| format!("PANIC {p}")),
        "static_wire": st.as_ref().ok().map(type_to_wire),
        "exec": match &res { Err(p) => json!({"panic": p}), Ok(Err(e)) => json!({"error": e.to_string()}),
                Ok(Ok(v)) => json!({"value": format!("{v:?}"), "tag": v.as_type().to_string(), "wire": value_to_wire(v, &mut ids, 0)}) },
    })
}
