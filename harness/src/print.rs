//! `vh print <sub> ...` — text forms (spec/Print.tla).
//!   C15  types <dir> <reps> <filter_texts_per_type>   replay of MC_Print's universe
//!        gentypes <n> <max_depth> <out.ndjson>        seeded random types, printed; for Trace validation
//!   C20  vals <dir>                                   replay of MC_PrintVal's values
//!        lits <dir>                                   replay of MC_PrintVal's integer literal forms
//!        genvals <n> <max_depth> <out.ndjson>         seeded random values, printed; for Trace validation
//! The specification is the oracle for structure (token sequences, which type / value a text
//! denotes, which literal overflows).  The harness only tokenises, renders tokens with a fixed
//! spacing policy, builds implementation objects from the wire and compares.
use crate::util::{catch, read_ndjson, Mismatches, Rng};
use crate::wire::*;
use serde_json::{Value, json};
use simplesl::{
    Code, Error, Interpreter,
    variable::{Array, Type, Typed, Variable},
};
use std::{
    collections::{HashMap, HashSet},
    io::Write,
    str::FromStr,
    sync::Arc,
};

pub fn run(args: &[String]) -> Value {
    let arg = |i: usize| args.get(i).cloned().unwrap_or_default();
    let num = |i: usize, d: usize| args.get(i).and_then(|s| s.parse().ok()).unwrap_or(d);
    match arg(0).as_str() {
        "types" => types(&arg(1), num(2, 4), num(3, 2)),
        "gentypes" => gen_types(num(1, 500), num(2, 5), &arg(3)),
        "vals" => vals(&arg(1)),
        "lits" => lits(&arg(1)),
        "genvals" => gen_vals(num(1, 500), num(2, 5), &arg(3)),
        other => json!({"error": format!("unknown print sub-command {other:?}")}),
    }
}

// =====================================================================================
// C15: types
// =====================================================================================

/// Tokens of a type text: words, `->`, single punctuation characters. Anything else becomes a
/// token of its own prefixed with `?` (so that it can never equal a token of the specification).
pub fn tokenize_type(text: &str) -> Vec<String> {
    let cs: Vec<char> = text.chars().collect();
    let mut out = vec![];
    let mut i = 0;
    while i < cs.len() {
        let c = cs[i];
        if c.is_whitespace() {
            i += 1;
        } else if c == '-' && cs.get(i + 1) == Some(&'>') {
            out.push("->".to_string());
            i += 2;
        } else if "()[]{},|:!".contains(c) {
            out.push(c.to_string());
            i += 1;
        } else if c.is_ascii_alphabetic() || c == '_' {
            let mut j = i;
            while j < cs.len() && (cs[j].is_ascii_alphanumeric() || cs[j] == '_') {
                j += 1;
            }
            out.push(cs[i..j].iter().collect());
            i = j;
        } else {
            out.push(format!("?{c}"));
            i += 1;
        }
    }
    out
}

/// The spacing policy used to turn the specification's token sequences into text: a blank after
/// `,`, `:` and `mut`, nothing else (`(` `)` of the empty tuple type stay adjacent: `void = "()"`).
pub fn render_type(tokens: &[String]) -> String {
    let mut s = String::new();
    for t in tokens {
        s.push_str(t);
        if t == "," || t == ":" || t == "mut" {
            s.push(' ');
        }
    }
    s
}

fn split_tokens(joined: &str) -> Vec<String> {
    joined.split(' ').filter(|t| !t.is_empty()).map(str::to_string).collect()
}

fn strict_type_eq(a: &Type, b: &Type) -> bool {
    a == b && b == a && type_to_wire(a) == type_to_wire(b)
}

fn types(dir: &str, reps: usize, filter_texts: usize) -> Value {
    let rows = read_ndjson(&format!("{dir}/print_types.ndjson"));
    let pool_rows = read_ndjson(&format!("{dir}/print_pool.ndjson"));
    let mut cells = HashMap::new();
    let pool: Vec<Variable> = pool_rows.iter().map(|r| value_from_wire(&r["v"], &mut cells)).collect();
    let mut interp = Interpreter::with_stdlib();
    interp.insert(
        "pool".into(),
        Variable::from(Array::new_with_type(Type::Any, pool.iter().cloned().collect::<Arc<[Variable]>>())),
    );
    let mut mm = Mismatches::new(300);
    let (mut n_parse, mut n_print, mut n_filter, mut n_filter_skipped) = (0u64, 0u64, 0u64, 0u64);
    let mut n_texts = 0u64;
    let mut orders_seen = 0u64; // number of distinct texts the implementation produced
    let mut multi_order_types = 0u64; // types with more than one text
    let mut multi_order_covered = 0u64; // ... for which the implementation showed more than one
    let mut samples = vec![];
    for (ri, row) in rows.iter().enumerate() {
        let w = &row["t"];
        let canon = canon_type(w);
        let name = type_text(w, 0);
        let texts: Vec<Vec<String>> =
            row["texts"].as_array().unwrap().iter().map(|t| split_tokens(t.as_str().unwrap())).collect();
        let text_set: HashSet<&Vec<String>> = texts.iter().collect();
        n_texts += texts.len() as u64;
        // --- instances built with the constructors, in `reps` different insertion orders
        let mut instances: Vec<(String, Type)> = vec![];
        for r in 0..reps {
            match catch(|| type_from_wire_rot(w, r)) {
                Ok(t) => {
                    if type_to_wire(&t) != canon {
                        mm.push("construct", json!({"type": name, "rot": r, "expected": canon, "got": type_to_wire(&t)}));
                    }
                    instances.push((format!("constructors rot {r}"), t));
                }
                Err(p) => mm.push("construct", json!({"type": name, "rot": r, "panic": p})),
            }
        }
        // --- spec -> impl: EVERY text of PrintSet(T) parses to T
        for toks in &texts {
            let text = render_type(toks);
            n_parse += 1;
            match catch(|| Type::from_str(&text)) {
                Ok(Ok(t)) => {
                    let same_wire = type_to_wire(&t) == canon;
                    let same_eq = instances.first().is_none_or(|(_, c)| strict_type_eq(&t, c));
                    if !same_wire || !same_eq {
                        mm.push("parse", json!({"type": name, "text": text, "expected": canon,
                            "got": type_to_wire(&t), "equal_by_eq": same_eq}));
                    }
                    instances.push((format!("from_str {text:?}"), t));
                }
                Ok(Err(_)) => mm.push("parse", json!({"type": name, "text": text, "expected": canon, "got": "ParseTypeError"})),
                Err(p) => mm.push("parse", json!({"type": name, "text": text, "panic": p})),
            }
        }
        // --- impl -> spec: what each instance prints is one of the texts, and parses back to T
        let mut seen: HashSet<Vec<String>> = HashSet::new();
        for (how, inst) in &instances {
            n_print += 1;
            let printed = match catch(|| inst.to_string()) {
                Ok(s) => s,
                Err(p) => {
                    mm.push("print", json!({"type": name, "instance": how, "panic": p}));
                    continue;
                }
            };
            let toks = tokenize_type(&printed);
            if !text_set.contains(&toks) {
                mm.push("print", json!({"type": name, "instance": how, "printed": printed,
                    "what": "the printed text is not in the specification's PrintSet(T)",
                    "print_set": texts.iter().take(6).map(|t| render_type(t)).collect::<Vec<_>>()}));
            }
            match catch(|| Type::from_str(&printed)) {
                Ok(Ok(back)) => {
                    if !strict_type_eq(&back, inst) || type_to_wire(&back) != canon {
                        mm.push("roundtrip", json!({"type": name, "instance": how, "printed": printed,
                            "expected": canon, "got": type_to_wire(&back)}));
                    }
                }
                Ok(Err(_)) => mm.push("roundtrip", json!({"type": name, "instance": how, "printed": printed,
                    "expected": canon, "got": "ParseTypeError"})),
                Err(p) => mm.push("roundtrip", json!({"type": name, "instance": how, "printed": printed, "panic": p})),
            }
            seen.insert(toks);
        }
        orders_seen += seen.len() as u64;
        if texts.len() > 1 {
            multi_order_types += 1;
            if seen.len() > 1 {
                multi_order_covered += 1;
            }
        }
        // --- the internal re-parse: `pool~ ? T $]` selects exactly the members (by run-time tag)
        if row["filt"].as_i64() == Some(1) {
            let sel: Vec<usize> = row["sel"].as_array().unwrap().iter().enumerate()
                .filter(|(_, b)| b.as_i64() == Some(1)).map(|(j, _)| j).collect();
            for q in 0..filter_texts.min(texts.len()) {
                // rotate through the texts so that successive types use different orderings
                let text = render_type(&texts[(ri + q * 7) % texts.len()]);
                let program = format!("pool~ ? {text} $]");
                n_filter += 1;
                let res = catch(|| Code::parse(&interp, &program).map(|c| c.exec()));
                match res {
                    Ok(Ok(Ok(Variable::Array(a)))) => {
                        let ok = a.len() == sel.len()
                            && a.iter().zip(&sel).all(|(got, j)| *got == pool[*j] && got.as_type() == pool[*j].as_type());
                        if !ok {
                            let got_idx: Vec<Value> = a.iter().map(|g| {
                                pool.iter().position(|p| p == g && p.as_type() == g.as_type()).map_or(json!("?"), |j| json!(j))
                            }).collect();
                            mm.push("filter", json!({"type": name, "program": program, "expected_indices": sel,
                                "got_indices": got_idx, "got": format!("{:?}", Variable::Array(a.clone()))}));
                        }
                    }
                    Ok(Ok(Ok(v))) => mm.push("filter", json!({"type": name, "program": program, "got": format!("{v:?}")})),
                    Ok(Ok(Err(e))) => mm.push("filter", json!({"type": name, "program": program, "exec_error": e.to_string()})),
                    Ok(Err(e)) => mm.push("filter", json!({"type": name, "program": program, "parse_error": e.to_string()})),
                    Err(p) => mm.push("filter", json!({"type": name, "program": program, "panic": p})),
                }
            }
        } else {
            n_filter_skipped += 1;
        }
        if samples.len() < 4 && texts.len() >= 4 && ri % 97 == 0 {
            samples.push(json!({"type": canon, "print_set": texts.iter().map(|t| render_type(t)).collect::<Vec<_>>(),
                "implementation_printed": seen.iter().map(|t| render_type(t)).collect::<Vec<_>>()}));
        }
    }
    json!({
        "universe": rows.len(), "texts": n_texts, "parsed_texts": n_parse, "printed_instances": n_print,
        "filter_programs": n_filter, "filter_skipped_no_default": n_filter_skipped, "pool": pool.len(),
        "distinct_texts_printed_by_impl": orders_seen,
        "types_with_several_texts": multi_order_types, "of_which_impl_showed_several": multi_order_covered,
        "evaluations": n_parse + 2 * n_print + n_filter,
        "mismatch_counts": mm.counts(), "mismatches": mm.items(), "samples": samples,
    })
}

// ---- impl -> spec: seeded random types beyond the enumerated bound -----------------------

fn gen_wire(rng: &mut Rng, depth: usize, allow_multi: bool) -> Value {
    let leaf = |rng: &mut Rng| {
        json!({"k": *rng.pick(&["bool", "int", "float", "string", "void", "any", "never"])})
    };
    if depth == 0 {
        return leaf(rng);
    }
    let choice = rng.below(if allow_multi { 10 } else { 8 });
    match choice {
        0 | 1 => leaf(rng),
        2 => json!({"k": "array", "e": gen_wire(rng, depth - 1, true)}),
        3 => json!({"k": "mut", "e": gen_wire(rng, depth - 1, true)}),
        4 => {
            let n = 2 + rng.below(2);
            json!({"k": "tuple", "es": (0..n).map(|_| gen_wire(rng, depth - 1, true)).collect::<Vec<_>>()})
        }
        5 | 6 => {
            let n = rng.below(3);
            json!({"k": "fn", "ps": (0..n).map(|_| gen_wire(rng, depth - 1, true)).collect::<Vec<_>>(),
                   "r": gen_wire(rng, depth - 1, true)})
        }
        7 => {
            let names = ["a", "b", "c"];
            let n = rng.below(4);
            json!({"k": "struct", "fs": (0..n).map(|i| json!([names[i], gen_wire(rng, depth - 1, true)])).collect::<Vec<_>>()})
        }
        _ => {
            // a union: 2..4 distinct members that are neither unions nor any / never
            let n = 2 + rng.below(3);
            let mut ms: Vec<Value> = vec![];
            let mut guard = 0;
            while ms.len() < n && guard < 40 {
                guard += 1;
                let m = canon_type(&gen_wire(rng, depth - 1, false));
                if k(&m) == "any" || k(&m) == "never" || ms.contains(&m) {
                    continue;
                }
                ms.push(m);
            }
            if ms.len() < 2 { leaf(rng) } else { json!({"k": "multi", "ms": ms}) }
        }
    }
}

fn gen_types(n: usize, max_depth: usize, out: &str) -> Value {
    let mut rng = Rng::from_env(0xC15);
    let mut f = std::io::BufWriter::new(std::fs::File::create(out).expect("cannot create output"));
    let mut mm = Mismatches::new(100);
    let mut distinct: HashSet<String> = HashSet::new();
    let mut records = 0u64;
    let mut deepest = 0usize;
    for i in 0..n {
        let depth = 2 + i % (max_depth - 1).max(1);
        let w = canon_type(&gen_wire(&mut rng, depth, true));
        let name = type_text(&w, 0);
        deepest = deepest.max(name.matches(['(', '[', '{']).count());
        if !distinct.insert(w.to_string()) {
            continue;
        }
        for r in 0..3 {
            let t = type_from_wire_rot(&w, rng.below(7) + r);
            let printed = match catch(|| t.to_string()) {
                Ok(s) => s,
                Err(p) => {
                    mm.push("print", json!({"type": name, "panic": p}));
                    continue;
                }
            };
            // the round trip itself needs no oracle: equality of implementation types
            match catch(|| Type::from_str(&printed)) {
                Ok(Ok(back)) if strict_type_eq(&back, &t) && type_to_wire(&back) == w => {}
                Ok(Ok(back)) => mm.push("roundtrip", json!({"type": name, "printed": printed, "expected": w, "got": type_to_wire(&back)})),
                Ok(Err(_)) => mm.push("roundtrip", json!({"type": name, "printed": printed, "expected": w, "got": "ParseTypeError"})),
                Err(p) => mm.push("roundtrip", json!({"type": name, "printed": printed, "panic": p})),
            }
            writeln!(f, "{}", json!({"t": w, "toks": tokenize_type(&printed), "printed": printed})).unwrap();
            records += 1;
        }
    }
    f.flush().unwrap();
    json!({"generated": n, "distinct_types": distinct.len(), "records": records, "max_nesting": deepest,
           "mismatch_counts": mm.counts(), "mismatches": mm.items()})
}

// =====================================================================================
// C20: values
// =====================================================================================

fn vals(_dir: &str) -> Value {
    json!({"error": "not implemented"})
}

fn lits(_dir: &str) -> Value {
    json!({"error": "not implemented"})
}

fn gen_vals(_n: usize, _max_depth: usize, _out: &str) -> Value {
    json!({"error": "not implemented"})
}

#[allow(unused)]
fn _unused(_: &Error) {}
