//! `vh print <sub> ...` — text forms (spec/Print.tla).
//!   C15  types <dir> <reps> <filter_texts_per_type>   replay of MC_Print's universe
//!        gentypes <n> <max_depth> <out.ndjson>        seeded random types, printed; for Trace validation
//!   C20  vals <dir>                                   replay of MC_PrintVal's values
//!        lits <dir>                                   replay of MC_PrintVal's integer literal forms
//!        genvals <n> <max_depth> <out.ndjson>         seeded random values, printed; for Trace validation
//! The specification is the oracle for structure (token sequences, which type / value a text
//! denotes, which literal overflows).  The harness only tokenises, renders tokens with a fixed
//! spacing policy, builds implementation objects from the wire and compares.
use crate::util::{catch, read_ndjson, Mismatches, Rng};
use crate::wire::*;
use serde_json::{Value, json};
use simplesl::{
    Code, Error, Interpreter,
    variable::{Array, Type, Typed, Variable},
};
use std::{
    collections::{HashMap, HashSet},
    io::Write,
    str::FromStr,
    sync::Arc,
};

pub fn run(args: &[String]) -> Value {
    let arg = |i: usize| args.get(i).cloned().unwrap_or_default();
    let num = |i: usize, d: usize| args.get(i).and_then(|s| s.parse().ok()).unwrap_or(d);
    match arg(0).as_str() {
        "types" => types(&arg(1), num(2, 4), num(3, 2)),
        "gentypes" => gen_types(num(1, 500), num(2, 5), &arg(3)),
        "vals" => vals(&arg(1)),
        "lits" => lits(&arg(1)),
        "genvals" => gen_vals(num(1, 500), num(2, 5), &arg(3)),
        other => json!({"error": format!("unknown print sub-command {other:?}")}),
    }
}

// =====================================================================================
// C15: types
// =====================================================================================

/// Tokens of a type text: words, `->`, single punctuation characters. Anything else becomes a
/// token of its own prefixed with `?` (so that it can never equal a token of the specification).
pub fn tokenize_type(text: &str) -> Vec<String> {
    let cs: Vec<char> = text.chars().collect();
    let mut out = vec![];
    let mut i = 0;
    while i < cs.len() {
        let c = cs[i];
        if c.is_whitespace() {
            i += 1;
        } else if c == '-' && cs.get(i + 1) == Some(&'>') {
            out.push("->".to_string());
            i += 2;
        } else if "()[]{},|:!".contains(c) {
            out.push(c.to_string());
            i += 1;
        } else if c.is_ascii_alphabetic() || c == '_' {
            let mut j = i;
            while j < cs.len() && (cs[j].is_ascii_alphanumeric() || cs[j] == '_') {
                j += 1;
            }
            out.push(cs[i..j].iter().collect());
            i = j;
        } else {
            out.push(format!("?{c}"));
            i += 1;
        }
    }
    out
}

/// The spacing policy used to turn the specification's token sequences into text: a blank after
/// `,`, `:` and `mut`, nothing else (`(` `)` of the empty tuple type stay adjacent: `void = "()"`).
pub fn render_type(tokens: &[String]) -> String {
    let word = |t: &str| t.chars().all(|c| c.is_ascii_alphanumeric() || c == '_');
    let mut s = String::new();
    for (i, t) in tokens.iter().enumerate() {
        s.push_str(t);
        // (two adjacent words only occur in near-miss texts; they must stay two tokens)
        let next_is_word = tokens.get(i + 1).is_some_and(|n| word(n));
        if t == "," || t == ":" || t == "mut" || (word(t) && next_is_word) {
            s.push(' ');
        }
    }
    s
}

/// Near misses (texts of the universe with a token dropped or replaced): the implementation's
/// grammar must accept / reject them as the specification's parser model does, denote the same
/// type and consume the same number of tokens.
fn near_misses(dir: &str, mm: &mut Mismatches) -> (u64, u64) {
    use pest::Parser;
    use simplesl_parser::{Rule, SimpleSLParser};
    let path = format!("{dir}/print_neg.ndjson");
    if !std::path::Path::new(&path).exists() {
        return (0, 0);
    }
    let (mut n, mut accepted) = (0u64, 0u64);
    for row in read_ndjson(&path) {
        let toks = split_tokens(row["text"].as_str().unwrap());
        let text = render_type(&toks);
        n += 1;
        let want_ok = row["ok"].as_i64() == Some(1);
        let got = catch(|| Type::from_str(&text));
        match (&got, want_ok) {
            (Ok(Err(_)), false) => {}
            (Ok(Ok(t)), true) => {
                accepted += 1;
                let consumed = catch(|| {
                    SimpleSLParser::parse(Rule::r#type, &text).ok()
                        .and_then(|mut ps| ps.next()).map(|p| tokenize_type(&text[..p.as_span().end()]).len())
                });
                let want_rest = row["rest"].as_u64().unwrap() as usize;
                if type_to_wire(t) != canon_type(&row["t"]) || consumed != Ok(Some(want_rest - 1)) {
                    mm.push("near_miss", json!({"text": text, "expected_type": canon_type(&row["t"]), "got_type": type_to_wire(t),
                        "expected_tokens_consumed": want_rest - 1, "got_tokens_consumed": format!("{consumed:?}")}));
                }
            }
            (Ok(Ok(t)), false) => mm.push("near_miss", json!({"text": text, "expected": "rejected", "got_type": type_to_wire(t)})),
            (Ok(Err(_)), true) => mm.push("near_miss", json!({"text": text, "expected_type": canon_type(&row["t"]), "got": "ParseTypeError"})),
            (Err(p), _) => mm.push("near_miss", json!({"text": text, "panic": p})),
        }
    }
    (n, accepted)
}

fn split_tokens(joined: &str) -> Vec<String> {
    joined.split(' ').filter(|t| !t.is_empty()).map(str::to_string).collect()
}

fn strict_type_eq(a: &Type, b: &Type) -> bool {
    a == b && b == a && type_to_wire(a) == type_to_wire(b)
}

fn types(dir: &str, reps: usize, filter_texts: usize) -> Value {
    let mut rows = read_ndjson(&format!("{dir}/print_types.ndjson"));
    // small types first, so that the mismatches kept for the replay files are the simplest ones
    rows.sort_by_key(|r| r["texts"][0].as_str().map_or(0, str::len));
    let pool_rows = read_ndjson(&format!("{dir}/print_pool.ndjson"));
    let mut cells = HashMap::new();
    let pool: Vec<Variable> = pool_rows.iter().map(|r| value_from_wire(&r["v"], &mut cells)).collect();
    let mut interp = Interpreter::with_stdlib();
    interp.insert(
        "pool".into(),
        Variable::from(Array::new_with_type(Type::Any, pool.iter().cloned().collect::<Arc<[Variable]>>())),
    );
    let mut mm = Mismatches::new(300);
    let (mut n_parse, mut n_print, mut n_filter, mut n_filter_skipped) = (0u64, 0u64, 0u64, 0u64);
    let mut n_texts = 0u64;
    let mut orders_seen = 0u64; // number of distinct texts the implementation produced
    let mut multi_order_types = 0u64; // types with more than one text
    let mut multi_order_covered = 0u64; // ... for which the implementation showed more than one
    let mut samples = vec![];
    for (ri, row) in rows.iter().enumerate() {
        let w = &row["t"];
        let canon = canon_type(w);
        let name = type_text(w, 0);
        let texts: Vec<Vec<String>> =
            row["texts"].as_array().unwrap().iter().map(|t| split_tokens(t.as_str().unwrap())).collect();
        let text_set: HashSet<&Vec<String>> = texts.iter().collect();
        n_texts += texts.len() as u64;
        // --- instances built with the constructors, in `reps` different insertion orders
        let mut instances: Vec<(String, Type)> = vec![];
        for r in 0..reps {
            match catch(|| type_from_wire_rot(w, r)) {
                Ok(t) => {
                    if type_to_wire(&t) != canon {
                        mm.push("construct", json!({"type": name, "rot": r, "expected": canon, "got": type_to_wire(&t)}));
                    }
                    instances.push((format!("constructors rot {r}"), t));
                }
                Err(p) => mm.push("construct", json!({"type": name, "rot": r, "panic": p})),
            }
        }
        // --- spec -> impl: EVERY text of PrintSet(T) parses to T
        for toks in &texts {
            let text = render_type(toks);
            n_parse += 1;
            match catch(|| Type::from_str(&text)) {
                Ok(Ok(t)) => {
                    let same_wire = type_to_wire(&t) == canon;
                    let same_eq = instances.first().is_none_or(|(_, c)| strict_type_eq(&t, c));
                    if !same_wire || !same_eq {
                        mm.push("parse", json!({"type": name, "text": text, "expected": canon,
                            "got": type_to_wire(&t), "equal_by_eq": same_eq}));
                    }
                    instances.push((format!("from_str {text:?}"), t));
                }
                Ok(Err(_)) => mm.push("parse", json!({"type": name, "text": text, "expected": canon, "got": "ParseTypeError"})),
                Err(p) => mm.push("parse", json!({"type": name, "text": text, "panic": p})),
            }
        }
        // --- impl -> spec: what each instance prints is one of the texts, and parses back to T
        let mut seen: HashSet<Vec<String>> = HashSet::new();
        for (how, inst) in &instances {
            n_print += 1;
            let printed = match catch(|| inst.to_string()) {
                Ok(s) => s,
                Err(p) => {
                    mm.push("print", json!({"type": name, "instance": how, "panic": p}));
                    continue;
                }
            };
            let toks = tokenize_type(&printed);
            if !text_set.contains(&toks) {
                mm.push("print", json!({"type": name, "instance": how, "printed": printed,
                    "what": "the printed text is not in the specification's PrintSet(T)",
                    "print_set": texts.iter().take(6).map(|t| render_type(t)).collect::<Vec<_>>()}));
            }
            match catch(|| Type::from_str(&printed)) {
                Ok(Ok(back)) => {
                    if !strict_type_eq(&back, inst) || type_to_wire(&back) != canon {
                        mm.push("roundtrip", json!({"type": name, "instance": how, "printed": printed,
                            "expected": canon, "got": type_to_wire(&back)}));
                    }
                }
                Ok(Err(_)) => mm.push("roundtrip", json!({"type": name, "instance": how, "printed": printed,
                    "expected": canon, "got": "ParseTypeError"})),
                Err(p) => mm.push("roundtrip", json!({"type": name, "instance": how, "printed": printed, "panic": p})),
            }
            seen.insert(toks);
        }
        orders_seen += seen.len() as u64;
        if texts.len() > 1 {
            multi_order_types += 1;
            if seen.len() > 1 {
                multi_order_covered += 1;
            }
        }
        // --- the internal re-parse: `pool~ ? T $]` selects exactly the members (by run-time tag)
        if row["filt"].as_i64() == Some(1) {
            let sel: Vec<usize> = row["sel"].as_array().unwrap().iter().enumerate()
                .filter(|(_, b)| b.as_i64() == Some(1)).map(|(j, _)| j).collect();
            for q in 0..filter_texts.min(texts.len()) {
                // rotate through the texts so that successive types use different orderings
                let text = render_type(&texts[(ri + q * 7) % texts.len()]);
                let program = format!("pool~ ? {text} $]");
                n_filter += 1;
                let res = catch(|| Code::parse(&interp, &program).map(|c| c.exec()));
                match res {
                    Ok(Ok(Ok(Variable::Array(a)))) => {
                        let ok = a.len() == sel.len()
                            && a.iter().zip(&sel).all(|(got, j)| *got == pool[*j] && got.as_type() == pool[*j].as_type());
                        if !ok {
                            let got_idx: Vec<Value> = a.iter().map(|g| {
                                pool.iter().position(|p| p == g && p.as_type() == g.as_type()).map_or(json!("?"), |j| json!(j))
                            }).collect();
                            mm.push("filter", json!({"type": name, "program": program, "expected_indices": sel,
                                "got_indices": got_idx, "got": format!("{:?}", Variable::Array(a.clone()))}));
                        }
                    }
                    Ok(Ok(Ok(v))) => mm.push("filter", json!({"type": name, "program": program, "got": format!("{v:?}")})),
                    Ok(Ok(Err(e))) => mm.push("filter", json!({"type": name, "program": program, "exec_error": e.to_string()})),
                    Ok(Err(e)) => mm.push("filter", json!({"type": name, "program": program, "parse_error": e.to_string()})),
                    Err(p) => mm.push("filter", json!({"type": name, "program": program, "panic": p})),
                }
            }
        } else {
            n_filter_skipped += 1;
        }
        if samples.len() < 4 && texts.len() >= 4 && ri % 97 == 0 {
            samples.push(json!({"type": canon, "print_set": texts.iter().map(|t| render_type(t)).collect::<Vec<_>>(),
                "implementation_printed": seen.iter().map(|t| render_type(t)).collect::<Vec<_>>()}));
        }
    }
    let (n_neg, n_neg_accepted) = near_misses(dir, &mut mm);
    json!({
        "near_misses": n_neg, "near_misses_accepted_as_prefix": n_neg_accepted,
        "universe": rows.len(), "texts": n_texts, "parsed_texts": n_parse, "printed_instances": n_print,
        "filter_programs": n_filter, "filter_skipped_no_default": n_filter_skipped, "pool": pool.len(),
        "distinct_texts_printed_by_impl": orders_seen,
        "types_with_several_texts": multi_order_types, "of_which_impl_showed_several": multi_order_covered,
        "evaluations": n_parse + 2 * n_print + n_filter + n_neg,
        "mismatch_counts": mm.counts(), "mismatches": mm.items(), "samples": samples,
    })
}

// ---- impl -> spec: seeded random types beyond the enumerated bound -----------------------

fn gen_wire(rng: &mut Rng, depth: usize, allow_multi: bool) -> Value {
    let leaf = |rng: &mut Rng| {
        json!({"k": *rng.pick(&["bool", "int", "float", "string", "void", "any", "never"])})
    };
    if depth == 0 {
        return leaf(rng);
    }
    let choice = rng.below(if allow_multi { 10 } else { 8 });
    match choice {
        0 | 1 => leaf(rng),
        2 => json!({"k": "array", "e": gen_wire(rng, depth - 1, true)}),
        3 => json!({"k": "mut", "e": gen_wire(rng, depth - 1, true)}),
        4 => {
            let n = 2 + rng.below(2);
            json!({"k": "tuple", "es": (0..n).map(|_| gen_wire(rng, depth - 1, true)).collect::<Vec<_>>()})
        }
        5 | 6 => {
            let n = rng.below(3);
            json!({"k": "fn", "ps": (0..n).map(|_| gen_wire(rng, depth - 1, true)).collect::<Vec<_>>(),
                   "r": gen_wire(rng, depth - 1, true)})
        }
        7 => {
            let names = ["a", "b", "c"];
            let n = rng.below(4);
            json!({"k": "struct", "fs": (0..n).map(|i| json!([names[i], gen_wire(rng, depth - 1, true)])).collect::<Vec<_>>()})
        }
        _ => {
            // a union: 2..4 distinct members that are neither unions nor any / never
            let n = 2 + rng.below(3);
            let mut ms: Vec<Value> = vec![];
            let mut guard = 0;
            while ms.len() < n && guard < 40 {
                guard += 1;
                let m = canon_type(&gen_wire(rng, depth - 1, false));
                if k(&m) == "any" || k(&m) == "never" || ms.contains(&m) {
                    continue;
                }
                ms.push(m);
            }
            if ms.len() < 2 { leaf(rng) } else { json!({"k": "multi", "ms": ms}) }
        }
    }
}

fn gen_types(n: usize, max_depth: usize, out: &str) -> Value {
    let mut rng = Rng::from_env(0xC15);
    let mut f = std::io::BufWriter::new(std::fs::File::create(out).expect("cannot create output"));
    let mut mm = Mismatches::new(100);
    let mut distinct: HashSet<String> = HashSet::new();
    let mut records = 0u64;
    let mut deepest = 0usize;
    for i in 0..n {
        let depth = 2 + i % (max_depth - 1).max(1);
        let w = canon_type(&gen_wire(&mut rng, depth, true));
        let name = type_text(&w, 0);
        deepest = deepest.max(name.matches(['(', '[', '{']).count());
        if !distinct.insert(w.to_string()) {
            continue;
        }
        for r in 0..3 {
            let t = type_from_wire_rot(&w, rng.below(7) + r);
            let printed = match catch(|| t.to_string()) {
                Ok(s) => s,
                Err(p) => {
                    mm.push("print", json!({"type": name, "panic": p}));
                    continue;
                }
            };
            // the round trip itself needs no oracle: equality of implementation types
            match catch(|| Type::from_str(&printed)) {
                Ok(Ok(back)) if strict_type_eq(&back, &t) && type_to_wire(&back) == w => {}
                Ok(Ok(back)) => mm.push("roundtrip", json!({"type": name, "printed": printed, "expected": w, "got": type_to_wire(&back)})),
                Ok(Err(_)) => mm.push("roundtrip", json!({"type": name, "printed": printed, "expected": w, "got": "ParseTypeError"})),
                Err(p) => mm.push("roundtrip", json!({"type": name, "printed": printed, "panic": p})),
            }
            writeln!(f, "{}", json!({"t": w, "toks": tokenize_type(&printed), "printed": printed})).unwrap();
            records += 1;
        }
    }
    f.flush().unwrap();
    json!({"generated": n, "distinct_types": distinct.len(), "records": records, "max_nesting": deepest,
           "mismatch_counts": mm.counts(), "mismatches": mm.items()})
}

// =====================================================================================
// C20: values
// =====================================================================================

/// Build a value from MC_PrintVal's wire: ints as signed decimal text, floats as the bit pattern
/// of the magnitude plus a sign flag, strings as scalar values; arrays through `Array::from`
/// (the hidden element type is what a literal has: the join of the elements' tags).
fn build_val(w: &Value) -> Variable {
    match k(w) {
        "bool" => Variable::Bool(w["bv"].as_i64() == Some(1) || w["b"].as_bool() == Some(true)),
        "int" => Variable::Int(w["d"].as_str().expect("int without digits").parse::<i64>().expect("int leaf outside i64")),
        "float" => {
            let mag = f64::from_bits(w["bits"].as_str().unwrap().parse::<u64>().unwrap());
            Variable::Float(if w["neg"].as_i64() == Some(1) { -mag } else { mag })
        }
        "string" => Variable::String(string_from_wire(w).into()),
        "void" => Variable::Void,
        "array" => {
            let es: Arc<[Variable]> = w["es"].as_array().unwrap().iter().map(build_val).collect();
            Variable::from(Array::from(es))
        }
        "tuple" => Variable::Tuple(w["es"].as_array().unwrap().iter().map(build_val).collect()),
        other => panic!("unknown value kind {other}"),
    }
}

/// Equality as the property means it: same shape, ints and strings equal, floats bit for bit
/// (`==` would call -0.0 and 0.0 equal).
fn strict_eq(a: &Variable, b: &Variable) -> bool {
    match (a, b) {
        (Variable::Bool(x), Variable::Bool(y)) => x == y,
        (Variable::Int(x), Variable::Int(y)) => x == y,
        (Variable::Float(x), Variable::Float(y)) => x.to_bits() == y.to_bits(),
        (Variable::String(x), Variable::String(y)) => x == y,
        (Variable::Void, Variable::Void) => true,
        (Variable::Array(x), Variable::Array(y)) => x.len() == y.len() && x.iter().zip(y.iter()).all(|(p, q)| strict_eq(p, q)),
        (Variable::Tuple(x), Variable::Tuple(y)) => x.len() == y.len() && x.iter().zip(y.iter()).all(|(p, q)| strict_eq(p, q)),
        _ => false,
    }
}

/// Tokens of a value text: (kind, content) with kinds p (punctuation), int, float, str, bool;
/// anything unexpected is kind "?".  A number is an int when it consists of digits only, a float
/// when it has a fraction or an exponent ("floats keep a decimal point").
pub fn tokenize_val(text: &str) -> Vec<(String, String)> {
    let cs: Vec<char> = text.chars().collect();
    let mut out = vec![];
    let mut i = 0;
    while i < cs.len() {
        let c = cs[i];
        if c == ' ' || c == '\t' || c == '\n' || c == '\r' {
            i += 1;
        } else if "[](),-".contains(c) {
            out.push(("p".to_string(), c.to_string()));
            i += 1;
        } else if c.is_ascii_digit() {
            let mut j = i;
            while j < cs.len() && cs[j].is_ascii_digit() {
                j += 1;
            }
            let mut float = false;
            if j + 1 < cs.len() && cs[j] == '.' && cs[j + 1].is_ascii_digit() {
                float = true;
                j += 1;
                while j < cs.len() && cs[j].is_ascii_digit() {
                    j += 1;
                }
            }
            if j < cs.len() && (cs[j] == 'e' || cs[j] == 'E') {
                let mut l = j + 1;
                if l < cs.len() && (cs[l] == '+' || cs[l] == '-') {
                    l += 1;
                }
                if l < cs.len() && cs[l].is_ascii_digit() {
                    float = true;
                    while l < cs.len() && cs[l].is_ascii_digit() {
                        l += 1;
                    }
                    j = l;
                }
            }
            out.push((if float { "float" } else { "int" }.to_string(), cs[i..j].iter().collect()));
            i = j;
        } else if c == '"' {
            let mut j = i + 1;
            let mut closed = false;
            while j < cs.len() {
                if cs[j] == '\\' {
                    j += 2;
                } else if cs[j] == '"' {
                    closed = true;
                    j += 1;
                    break;
                } else {
                    j += 1;
                }
            }
            let j = j.min(cs.len());
            out.push((if closed { "str" } else { "?" }.to_string(), cs[i..j].iter().collect()));
            i = j;
        } else if c.is_ascii_alphabetic() {
            let mut j = i;
            while j < cs.len() && cs[j].is_ascii_alphanumeric() {
                j += 1;
            }
            let word: String = cs[i..j].iter().collect();
            out.push((if word == "true" || word == "false" { "bool" } else { "?" }.to_string(), word));
            i = j;
        } else {
            out.push(("?".to_string(), c.to_string()));
            i += 1;
        }
    }
    out
}

/// Does the implementation's token sequence have the structure the specification prescribes?
/// punctuation, int digits and bools are compared exactly, float and string atoms by kind.
fn same_structure(spec: &[Value], got: &[(String, String)]) -> bool {
    spec.len() == got.len()
        && spec.iter().zip(got).all(|(s, (kind, content))| {
            let a = s["a"].as_str().unwrap_or("");
            a == kind && (a == "float" || a == "str" || s["c"].as_str() == Some(content.as_str()))
        })
}

/// What one route did with a text, in the specification's vocabulary.
fn observe(res: Result<Result<Variable, Error>, String>, want: &Variable) -> (String, Value) {
    match res {
        Ok(Ok(got)) => {
            if strict_eq(&got, want) && got.as_type() == want.as_type() {
                ("ok".into(), json!(null))
            } else {
                ("differs".into(), json!({"got": format!("{got:?}"), "got_tag": got.as_type().to_string(),
                    "want_tag": want.as_type().to_string()}))
            }
        }
        Ok(Err(Error::IntegerOverflow(what))) => ("overflow".into(), json!({"error": what.to_string()})),
        Ok(Err(e)) => ("error".into(), json!({"error": e.to_string()})),
        Err(p) => ("panic".into(), json!({"panic": p})),
    }
}

fn run_program(interp: &Interpreter, text: &str) -> Result<Result<Variable, Error>, String> {
    catch(|| Code::parse(interp, text).and_then(|code| code.exec().map_err(Error::from)))
}

fn vals(dir: &str) -> Value {
    let mut rows = read_ndjson(&format!("{dir}/print_vals.ndjson"));
    // small values first, so that the mismatches kept for the replay files are the simplest ones
    rows.sort_by_key(|r| r["toks"].as_array().map_or(0, Vec::len));
    let interp = Interpreter::without_stdlib();
    let mut mm = Mismatches::new(300);
    let (mut n, mut n_prog_ok, mut n_prog_overflow, mut max_depth) = (0u64, 0u64, 0u64, 0usize);
    let mut samples = vec![];
    for (ri, row) in rows.iter().enumerate() {
        let v = build_val(&row["v"]);
        n += 1;
        // the tag of the value as built is the specification's (Array::from joins the element tags)
        let want_tag = canon_type(&row["tag"]);
        if type_to_wire(&v.as_type()) != want_tag {
            mm.push("tag", json!({"value": row["v"], "expected": want_tag, "got": type_to_wire(&v.as_type())}));
        }
        let text = match catch(|| format!("{v:?}")) {
            Ok(t) => t,
            Err(p) => {
                mm.push("print", json!({"value": row["v"], "panic": p}));
                continue;
            }
        };
        max_depth = max_depth.max(text.chars().take_while(|c| *c == '[' || *c == '(').count());
        let toks = tokenize_val(&text);
        if !same_structure(row["toks"].as_array().unwrap(), &toks) {
            mm.push("structure", json!({"value": row["v"], "text": text, "expected_tokens": row["toks"],
                "got_tokens": toks.iter().map(|(a, c)| json!([a, c])).collect::<Vec<_>>()}));
        }
        // route 1: Variable::from_str
        let (obs, detail) = observe(catch(|| Variable::from_str(&text)), &v);
        if Some(obs.as_str()) != row["from_str"].as_str() {
            mm.push("from_str", json!({"value": row["v"], "text": text, "expected": row["from_str"], "got": obs, "detail": detail}));
        }
        // route 2: the text as a program
        let (obs, detail) = observe(run_program(&interp, &text), &v);
        if Some(obs.as_str()) != row["prog"].as_str() {
            mm.push("program", json!({"value": row["v"], "text": text, "expected": row["prog"], "got": obs, "detail": detail}));
        }
        // parentheses around the whole text are transparent in a program
        let paren = format!("({text})");
        let (obs, detail) = observe(run_program(&interp, &paren), &v);
        if Some(obs.as_str()) != row["paren_prog"].as_str() {
            mm.push("program", json!({"value": row["v"], "text": paren, "expected": row["paren_prog"], "got": obs, "detail": detail}));
        }
        match row["prog"].as_str() {
            Some("ok") => n_prog_ok += 1,
            _ => n_prog_overflow += 1,
        }
        if samples.len() < 5 && ri % 701 == 300 {
            samples.push(json!({"text": text, "tag": v.as_type().to_string(), "from_str": row["from_str"], "program": row["prog"]}));
        }
    }
    // near misses for Variable::from_str: value texts with one token dropped
    let mut n_neg = 0u64;
    let neg_path = format!("{dir}/print_negvals.ndjson");
    if std::path::Path::new(&neg_path).exists() {
        for row in read_ndjson(&neg_path) {
            let toks = row["toks"].as_array().unwrap();
            let atoms = row["atoms"].as_array().unwrap();
            let mut text = String::new();
            let mut prev_atom = false;
            for (t, atom) in toks.iter().zip(atoms) {
                let a = t["a"].as_str().unwrap();
                let piece = match a {
                    "float" | "str" => format!("{:?}", build_val(atom)),
                    _ => t["c"].as_str().unwrap().to_string(),
                };
                if prev_atom && a != "p" {
                    text.push(' '); // two atoms in a row stay two tokens
                }
                text.push_str(&piece);
                if piece == "," {
                    text.push(' ');
                }
                prev_atom = a != "p";
            }
            n_neg += 1;
            let st = row["st"].as_str().unwrap();
            let got = catch(|| Variable::from_str(&text));
            let ok = match (&got, st) {
                (Ok(Ok(w)), "ok") => { let v = build_val(&row["v"]); strict_eq(w, &v) && w.as_type() == v.as_type() }
                (Ok(Err(Error::IntegerOverflow(_))), "overflow") => true,
                (Ok(Err(Error::IntegerOverflow(_))), "syntax") => false,
                (Ok(Err(_)), "syntax") => true,
                _ => false,
            };
            if !ok {
                let shown = match &got {
                    Ok(Ok(w)) => json!({"value": format!("{w:?}"), "tag": w.as_type().to_string()}),
                    Ok(Err(e)) => json!({"error": e.to_string()}),
                    Err(p) => json!({"panic": p}),
                };
                mm.push("near_miss", json!({"text": text, "expected": st, "expected_value": row["v"], "got": shown}));
            }
        }
    }
    json!({"values": n, "near_misses": n_neg, "program_route_ok": n_prog_ok, "program_route_rejected_min_int": n_prog_overflow,
           "max_leading_brackets": max_depth, "evaluations": 5 * n + n_neg,
           "mismatch_counts": mm.counts(), "mismatches": mm.items(), "samples": samples})
}

fn lits(dir: &str) -> Value {
    let rows = read_ndjson(&format!("{dir}/print_lits.ndjson"));
    let interp = Interpreter::without_stdlib();
    let mut mm = Mismatches::new(300);
    let (mut n, mut n_overflow) = (0u64, 0u64);
    let mut samples = vec![];
    let expect = |e: &Value| -> Option<i64> { if k(e) == "int" { Some(int_from_wire(e)) } else { None } };
    let judge = |mm: &mut Mismatches, route: &str, text: &str, want: Option<i64>, res: Result<Result<Variable, Error>, String>,
                 wrap: &dyn Fn(i64) -> Variable| {
        let ok = match (&res, want) {
            (Ok(Ok(got)), Some(x)) => { let w = wrap(x); strict_eq(got, &w) && got.as_type() == w.as_type() }
            (Ok(Err(Error::IntegerOverflow(_))), None) => true,
            _ => false,
        };
        if !ok {
            let got = match &res {
                Ok(Ok(v)) => json!({"value": format!("{v:?}"), "tag": v.as_type().to_string()}),
                Ok(Err(e)) => json!({"error": e.to_string()}),
                Err(p) => json!({"panic": p}),
            };
            mm.push(route, json!({"text": text,
                "expected": want.map_or(json!("rejected: too big for int (IntegerOverflow)"), |x| json!(x.to_string())), "got": got}));
        }
    };
    for (ri, row) in rows.iter().enumerate() {
        let text = format!("{}{}", if row["neg"].as_i64() == Some(1) { "-" } else { "" }, row["text"].as_str().unwrap());
        let (fs, pg) = (expect(&row["from_str"]), expect(&row["prog"]));
        n += 1;
        if fs.is_none() { n_overflow += 1; }
        let plain = |x: i64| Variable::Int(x);
        judge(&mut mm, "lit_from_str", &text, fs, catch(|| Variable::from_str(&text)), &plain);
        judge(&mut mm, "lit_program", &text, pg, run_program(&interp, &text), &plain);
        // the same literal inside containers
        let in_arr = format!("[{text}, 0]");
        let arr = |x: i64| Variable::from(Array::from(Arc::<[Variable]>::from(vec![Variable::Int(x), Variable::Int(0)])));
        judge(&mut mm, "lit_from_str", &in_arr, fs, catch(|| Variable::from_str(&in_arr)), &arr);
        judge(&mut mm, "lit_program", &in_arr, pg, run_program(&interp, &in_arr), &arr);
        let in_tup = format!("((), {text})");
        let tup = |x: i64| Variable::Tuple(Arc::<[Variable]>::from(vec![Variable::Void, Variable::Int(x)]));
        judge(&mut mm, "lit_from_str", &in_tup, fs, catch(|| Variable::from_str(&in_tup)), &tup);
        judge(&mut mm, "lit_program", &in_tup, pg, run_program(&interp, &in_tup), &tup);
        if samples.len() < 4 && ri % 311 == 100 {
            samples.push(json!({"literal": text, "from_str": fs.map_or(json!("overflow"), |x| json!(x.to_string())),
                "program": pg.map_or(json!("overflow"), |x| json!(x.to_string()))}));
        }
    }
    json!({"forms": n, "forms_rejected_by_from_str": n_overflow, "evaluations": 6 * n,
           "mismatch_counts": mm.counts(), "mismatches": mm.items(), "samples": samples})
}

// ---- impl -> spec: seeded random values beyond the enumerated bound ----------------------

fn gen_string(rng: &mut Rng) -> String {
    let n = rng.below(7);
    let mut s = String::new();
    for _ in 0..n {
        let c = match rng.below(12) {
            0 => '"',
            1 => '\\',
            2 => '\0',
            3 => char::from_digit(rng.below(10) as u32, 10).unwrap(),
            4 => char::from_u32(rng.below(0x20) as u32).unwrap(),
            5 => char::from_u32(0x7f + rng.below(0x22) as u32).unwrap(),
            6 => char::from_u32(0x300 + rng.below(0x70) as u32).unwrap(),
            7 => *rng.pick(&['n', 'u', 'x', '{', '}', '\'', 't', 'r', '0']),
            8 => loop {
                let c = rng.below(0x10000) as u32;
                if let Some(ch) = char::from_u32(c) { break ch; }
            },
            9 => char::from_u32(0x10000 + rng.below(0x100000) as u32).unwrap_or('\u{10ffff}'),
            _ => char::from_u32(0x20 + rng.below(0x5f) as u32).unwrap(),
        };
        s.push(c);
    }
    s
}

fn gen_val(rng: &mut Rng, depth: usize) -> Variable {
    let leaf = depth == 0 || rng.chance(1, 3);
    if leaf {
        return match rng.below(9) {
            0 => Variable::Bool(rng.chance(1, 2)),
            1 => Variable::Void,
            2 => Variable::Int(*rng.pick(&[i64::MIN, i64::MIN + 1, -1, 0, 1, i64::MAX, i64::MAX - 1, 1 << 53, -(1 << 31)])),
            3 => Variable::Int(rng.next() as i64),
            4 => Variable::Int((rng.next() as i64) >> (rng.below(64) as u32)),
            5 | 6 => loop {
                let bits = match rng.below(3) {
                    0 => rng.next(),
                    1 => rng.next() & 0x800f_ffff_ffff_ffff,                       // subnormals and zeros
                    _ => (rng.next() & 0x8000_0000_0000_0000) | ((1023 - 60 + rng.below(130) as u64) << 52) | (rng.next() & 0xf_ffff_ffff_ffff & if rng.chance(1, 2) { !0 } else { 0xf_f000_0000_0000 }),
                };
                let f = f64::from_bits(bits);
                if f.is_finite() { break Variable::Float(f); }
            },
            _ => Variable::String(gen_string(rng).into()),
        };
    }
    if rng.chance(1, 2) {
        let n = rng.below(4);
        let es: Arc<[Variable]> = (0..n).map(|_| gen_val(rng, depth - 1)).collect();
        Variable::from(Array::from(es))
    } else {
        let n = 2 + rng.below(3);
        Variable::Tuple((0..n).map(|_| gen_val(rng, depth - 1)).collect())
    }
}

/// The value for TLC: structure exact, ints as sign + decimal digits, float and string leaves as
/// opaque atoms (their text is judged by the round trip, which the harness evaluates here).
fn val_for_tlc(v: &Variable) -> Value {
    match v {
        Variable::Bool(b) => json!({"k": "bool", "b": b}),
        Variable::Int(n) => json!({"k": "int", "neg": *n < 0,
            "mag": n.unsigned_abs().to_string().bytes().map(|d| (d - b'0') as u64).collect::<Vec<_>>()}),
        Variable::Float(f) => json!({"k": "float", "neg": f.is_sign_negative(), "fid": "r"}),
        Variable::String(_) => json!({"k": "string", "sid": "r"}),
        Variable::Void => json!({"k": "void"}),
        Variable::Array(a) => json!({"k": "array", "es": a.iter().map(val_for_tlc).collect::<Vec<_>>()}),
        Variable::Tuple(es) => json!({"k": "tuple", "es": es.iter().map(val_for_tlc).collect::<Vec<_>>()}),
        _ => json!({"k": "?"}),
    }
}

fn toks_for_tlc(toks: &[(String, String)]) -> Vec<Value> {
    toks.iter().map(|(a, c)| match a.as_str() {
        "p" => json!({"a": "p", "c": c}),
        "int" => json!({"a": "int", "mag": c.bytes().map(|d| (d - b'0') as u64).collect::<Vec<_>>()}),
        "float" => json!({"a": "float", "fid": "r"}),
        "str" => json!({"a": "str", "sid": "r"}),
        "bool" => json!({"a": "bool", "b": c == "true"}),
        _ => json!({"a": "p", "c": format!("?{c}")}),
    }).collect()
}

fn gen_vals(n: usize, max_depth: usize, out: &str) -> Value {
    let mut rng = Rng::from_env(0xC20);
    let interp = Interpreter::without_stdlib();
    let mut f = std::io::BufWriter::new(std::fs::File::create(out).expect("cannot create output"));
    let mut mm = Mismatches::new(100);
    let mut distinct: HashSet<String> = HashSet::new();
    let (mut records, mut leaves_float, mut leaves_str, mut leaves_int) = (0u64, 0u64, 0u64, 0u64);
    fn count(v: &Variable, f: &mut u64, s: &mut u64, i: &mut u64) {
        match v {
            Variable::Float(_) => *f += 1,
            Variable::String(_) => *s += 1,
            Variable::Int(_) => *i += 1,
            Variable::Array(a) => a.iter().for_each(|e| count(e, f, s, i)),
            Variable::Tuple(es) => es.iter().for_each(|e| count(e, f, s, i)),
            _ => {}
        }
    }
    for i in 0..n {
        let v = gen_val(&mut rng, i % (max_depth + 1));
        let text = match catch(|| format!("{v:?}")) {
            Ok(t) => t,
            Err(p) => {
                mm.push("print", json!({"panic": p}));
                continue;
            }
        };
        if !distinct.insert(text.clone()) {
            continue;
        }
        count(&v, &mut leaves_float, &mut leaves_str, &mut leaves_int);
        let (fs, fs_detail) = observe(catch(|| Variable::from_str(&text)), &v);
        let (pg, pg_detail) = observe(run_program(&interp, &text), &v);
        writeln!(f, "{}", json!({"v": val_for_tlc(&v), "toks": toks_for_tlc(&tokenize_val(&text)), "text": text,
            "from_str": fs, "prog": pg,
            "detail": if fs_detail.is_null() && pg_detail.is_null() { String::new() } else { format!("{fs_detail} {pg_detail}") }})).unwrap();
        records += 1;
    }
    f.flush().unwrap();
    json!({"generated": n, "records": records, "float_leaves": leaves_float, "string_leaves": leaves_str,
           "int_leaves": leaves_int, "mismatch_counts": mm.counts(), "mismatches": mm.items()})
}
