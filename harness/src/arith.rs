//! C08 — scalar operators.
//!
//! `vh arith replay <cases.ndjson>`            spec -> impl: every case TLC wrote (operator, operands,
//!                                             predicted result) is executed in every execution form
//!                                             and compared with the prediction.
//! `vh arith record <out.ndjson> <n_int> <n_float> [<cases.ndjson>|-] [<chunk>]`
//!                                             impl -> spec: a seeded random stream of (op, a, b) over
//!                                             all of i64 / f64 (plus the float grid of <cases>) is
//!                                             executed in every form and written as ndjson for
//!                                             Trace_Arith.tla; float arithmetic is also compared with
//!                                             the host's f64 (the one thing TLA+ cannot express).
//!
//! Execution forms of `a op b` (T = operand type, R = result type):
//!   lit      `A op B` as source text (folded while parsing where the code folds)
//!   api      `(a: T, b: T) -> R { return a op b }` called through Function::create_call
//!   call     the same function called in the language: `f := ...; f(A, B)`
//!   cell     `x := mut A; y := mut B; (*x) op (*y)`
//!   half_r   `(a: T) -> R { return a op B }` (right operand literal, left one hidden), host call
//!   half_l   `(b: T) -> R { return A op b }`
//!   asg_lit  `c := mut A; c op= B` (value of the assignment and content of the cell afterwards)
//!   asg_api  `(a: T, b: T) -> (R, R) { c := mut a; r := c op= b; return (r, *c) }`, host call
//! and of `op a`: lit, api, call, cell.
use crate::util::{Mismatches, Rng, catch, read_ndjson};
use serde_json::{Value, json};
use simplesl::{
    Code, Interpreter,
    function::Function,
    variable::Variable,
};
use std::{collections::HashMap, io::Write, sync::Arc};

// ------------------------------------------------------------------ scalars and outcomes

#[derive(Clone, Copy, PartialEq, Eq, Hash, Debug)]
enum Sc {
    I(i64),
    F(u64),
    B(bool),
}

#[derive(Clone, Copy, PartialEq, Eq, Hash, Debug)]
enum Ty {
    Int,
    Float,
    Bool,
}

impl Ty {
    fn name(self) -> &'static str {
        match self {
            Ty::Int => "int",
            Ty::Float => "float",
            Ty::Bool => "bool",
        }
    }
}

#[derive(Clone, PartialEq, Debug)]
enum Out {
    I(i64),
    F(u64),
    B(bool),
    Err(String),
    Panic(String),
    Other(String),
}

fn limbs(x: u64) -> Value {
    Value::Array((0..8).map(|i| json!((x >> (8 * i)) & 0xff)).collect())
}

fn from_limbs(v: &Value) -> u64 {
    let mut x = 0u64;
    for (i, l) in v.as_array().expect("limbs").iter().enumerate() {
        x |= (l.as_u64().unwrap() & 0xff) << (8 * i);
    }
    x
}

impl Sc {
    fn ty(self) -> Ty {
        match self {
            Sc::I(_) => Ty::Int,
            Sc::F(_) => Ty::Float,
            Sc::B(_) => Ty::Bool,
        }
    }
    fn var(self) -> Variable {
        match self {
            Sc::I(n) => Variable::Int(n),
            Sc::F(b) => Variable::Float(f64::from_bits(b)),
            Sc::B(b) => Variable::Bool(b),
        }
    }
    /// the operand on the wire (what TLC reads): limbs for int / float, a JSON bool for bool
    fn wire(self) -> Value {
        match self {
            Sc::I(n) => limbs(n as u64),
            Sc::F(b) => limbs(b),
            Sc::B(b) => json!(b),
        }
    }
    fn from_wire(ty: Ty, v: &Value) -> Sc {
        match ty {
            Ty::Int => Sc::I(from_limbs(v) as i64),
            Ty::Float => Sc::F(from_limbs(v)),
            Ty::Bool => Sc::B(v.as_bool().unwrap()),
        }
    }
    /// the value whose negation (the language's prefix minus) is this one; None for bool
    fn negated(self) -> Option<Sc> {
        match self {
            Sc::I(n) => Some(Sc::I(n.wrapping_neg())),
            Sc::F(b) => Some(Sc::F(b ^ (1u64 << 63))),
            Sc::B(_) => None,
        }
    }
    fn show(self) -> String {
        match self {
            Sc::I(n) => n.to_string(),
            Sc::F(b) => format!("{:?} (0x{b:016x})", f64::from_bits(b)),
            Sc::B(b) => b.to_string(),
        }
    }
    fn as_out(self) -> Out {
        match self {
            Sc::I(n) => Out::I(n),
            Sc::F(b) => Out::F(b),
            Sc::B(b) => Out::B(b),
        }
    }
    /// Source text of a constant expression with this value; None when there is none.
    /// Negative numbers are written with the unary minus, MIN_INT as `-MAX - 1`; infinities and the
    /// default NaN as quotients. Whether the text really denotes the value is checked by `lit_ok`.
    fn lit(self) -> Option<String> {
        Some(match self {
            Sc::I(n) if n >= 0 => n.to_string(),
            Sc::I(i64::MIN) => "(-9223372036854775807 - 1)".to_string(),
            Sc::I(n) => format!("(-{})", n.unsigned_abs()),
            Sc::B(b) => b.to_string(),
            Sc::F(b) => {
                let x = f64::from_bits(b);
                if x.is_nan() {
                    "(0e0 / 0e0)".to_string()
                } else if x.is_infinite() {
                    if x > 0.0 { "(1e0 / 0e0)".to_string() } else { "(-1e0 / 0e0)".to_string() }
                } else if x.is_sign_negative() {
                    format!("(-{:e})", -x)
                } else {
                    format!("{x:e}")
                }
            }
        })
    }
}

fn out_json(o: &Out) -> Value {
    match o {
        Out::I(n) => json!({"k": "int", "l": limbs(*n as u64)}),
        Out::F(b) => json!({"k": "float", "l": limbs(*b)}),
        Out::B(b) => json!({"k": "bool", "v": b}),
        Out::Err(e) => json!({"k": "err", "e": e}),
        Out::Panic(m) => json!({"k": "panic", "msg": m}),
        Out::Other(m) => json!({"k": "other", "msg": m}),
    }
}

fn out_show(o: &Out) -> Value {
    match o {
        Out::I(n) => json!({"int": n}),
        Out::F(b) => json!({"float": format!("{:?}", f64::from_bits(*b)), "bits": format!("0x{b:016x}")}),
        Out::B(b) => json!({"bool": b}),
        Out::Err(e) => json!({"error": e}),
        Out::Panic(m) => json!({"panic": m}),
        Out::Other(m) => json!({"other": m}),
    }
}

fn out_from_wire(r: &Value) -> Out {
    match r["k"].as_str().unwrap_or("") {
        "int" => Out::I(from_limbs(&r["l"]) as i64),
        "float" => Out::F(from_limbs(&r["l"])),
        "bool" => Out::B(r["v"].as_bool().unwrap()),
        "err" => Out::Err(r["e"].as_str().unwrap().to_string()),
        other => panic!("unknown result kind on the wire: {other}"),
    }
}

fn out_from_var(v: &Variable) -> Out {
    match v {
        Variable::Int(n) => Out::I(*n),
        Variable::Float(x) => Out::F(x.to_bits()),
        Variable::Bool(b) => Out::B(*b),
        other => Out::Other(format!("{other:?}")),
    }
}

/// name of the error variant (`ZeroDivision`, `CannotDo2`, ...)
fn kind_of(debug: String) -> String {
    let id: String = debug.chars().take_while(|c| c.is_alphanumeric() || *c == '_').collect();
    if id.is_empty() { debug.chars().take(60).collect() } else { id }
}

// ------------------------------------------------------------------ running the real code

fn parse(text: &str) -> Result<Code, Out> {
    match catch(|| Code::parse(&Interpreter::without_stdlib(), text)) {
        Err(p) => Err(Out::Panic(format!("parse: {p}"))),
        Ok(Err(e)) => Err(Out::Err(kind_of(format!("{e:?}")))),
        Ok(Ok(c)) => Ok(c),
    }
}

fn exec(code: &Code) -> Result<Variable, Out> {
    match catch(|| code.exec()) {
        Err(p) => Err(Out::Panic(format!("exec: {p}"))),
        Ok(Err(e)) => Err(Out::Err(kind_of(format!("{e:?}")))),
        Ok(Ok(v)) => Ok(v),
    }
}

/// result of a program; `.1` tells whether an error came from the parser (folded) or from exec
fn run_text(text: &str) -> (Out, &'static str) {
    match parse(text) {
        Err(o) => (o, "parse"),
        Ok(code) => match exec(&code) {
            Err(o) => (o, "exec"),
            Ok(v) => (out_from_var(&v), "exec"),
        },
    }
}

/// runs the program in an interpreter of its own and reads the cell `c` afterwards
fn run_text_cell(text: &str) -> (Out, Option<Out>, &'static str) {
    let code = match parse(text) {
        Err(o) => return (o, None, "parse"),
        Ok(c) => c,
    };
    let mut interp = Interpreter::without_stdlib();
    let res = catch(|| code.exec_unscoped(&mut interp));
    let cell = catch(|| match interp.get_variable("c") {
        Some(Variable::Mut(m)) => Some(out_from_var(&m.variable.read().unwrap())),
        _ => None,
    })
    .unwrap_or(Some(Out::Panic("reading the cell".into())));
    let out = match res {
        Err(p) => Out::Panic(format!("exec: {p}")),
        Ok(Err(e)) => Out::Err(kind_of(format!("{e:?}"))),
        Ok(Ok(v)) => out_from_var(&v),
    };
    (out, cell, "exec")
}

#[derive(Default)]
struct Cache {
    fns: HashMap<String, Result<Arc<Function>, Out>>,
    lit_ok: HashMap<Sc, bool>,
}

impl Cache {
    fn function(&mut self, text: &str, keep: bool) -> Result<Arc<Function>, Out> {
        if let Some(f) = self.fns.get(text) {
            return f.clone();
        }
        let f = parse(text).and_then(|c| exec(&c)).and_then(|v| match v {
            Variable::Function(f) => Ok(f),
            other => Err(Out::Other(format!("not a function: {other:?}"))),
        });
        if keep {
            self.fns.insert(text.to_string(), f.clone());
        }
        f
    }

    /// does the literal text of the operand really denote the operand? (renderer self-check)
    fn lit_ok(&mut self, s: Sc) -> bool {
        if let Some(ok) = self.lit_ok.get(&s) {
            return *ok;
        }
        let ok = match s.lit() {
            None => false,
            Some(t) => run_text(&t).0 == s.as_out(),
        };
        self.lit_ok.insert(s, ok);
        ok
    }

    fn call_api(&mut self, fn_text: &str, keep: bool, args: Vec<Variable>) -> (Out, &'static str) {
        let f = match self.function(fn_text, keep) {
            Err(o) => return (o, "parse"),
            Ok(f) => f,
        };
        let code = match catch(|| f.create_call(args)) {
            Err(p) => return (Out::Panic(format!("create_call: {p}")), "parse"),
            Ok(Err(e)) => return (Out::Err(kind_of(format!("{e:?}"))), "parse"),
            Ok(Ok(c)) => c,
        };
        match exec(&code) {
            Err(o) => (o, "exec"),
            Ok(v) => (out_from_var(&v), "exec"),
        }
    }
}

/// one execution of one case in one form
struct FormRun {
    form: &'static str,
    out: Out,
    cell: Option<Out>, // compound assignment: content of the cell afterwards
    program: String,
    phase: &'static str,
}

const CMP: [&str; 6] = ["==", "!=", "<", "<=", ">", ">="];

fn result_type(ty: Ty, op: &str) -> &'static str {
    if CMP.contains(&op) { "bool" } else { ty.name() }
}

fn has_assign_form(ty: Ty, op: &str) -> bool {
    match ty {
        Ty::Int => ["+", "-", "*", "/", "%", "**", "<<", ">>", "&", "|", "^"].contains(&op),
        Ty::Float => ["+", "-", "*", "/", "**"].contains(&op),
        Ty::Bool => ["&", "|", "^"].contains(&op),
    }
}

fn exec_binary(op: &str, a: Sc, b: Sc, cache: &mut Cache, repeat: bool) -> Vec<FormRun> {
    let ty = a.ty();
    let (t, r) = (ty.name(), result_type(ty, op));
    let mut runs = vec![];
    let lits = if cache.lit_ok(a) && cache.lit_ok(b) { Some((a.lit().unwrap(), b.lit().unwrap())) } else { None };
    let fn2 = format!("(a: {t}, b: {t}) -> {r} {{ return a {op} b }}");
    // --- literal
    if let Some((la, lb)) = &lits {
        let program = format!("{la} {op} {lb}");
        let (out, phase) = run_text(&program);
        runs.push(FormRun { form: "lit", out, cell: None, program: program.clone(), phase });
        if repeat {
            // the same Code executed twice
            if let Ok(code) = parse(&program) {
                let _ = exec(&code);
                let out = match exec(&code) { Ok(v) => out_from_var(&v), Err(o) => o };
                runs.push(FormRun { form: "lit_again", out, cell: None, program, phase: "exec" });
            }
        }
    }
    // --- run time, through the host API
    let (out, phase) = cache.call_api(&fn2, true, vec![a.var(), b.var()]);
    runs.push(FormRun { form: "api", out, cell: None, program: format!("{fn2} called with ({}, {})", a.show(), b.show()), phase });
    if repeat {
        let (out, phase) = cache.call_api(&fn2, true, vec![a.var(), b.var()]);
        runs.push(FormRun { form: "api_again", out, cell: None, program: format!("{fn2} called again with ({}, {})", a.show(), b.show()), phase });
    }
    if let Some((la, lb)) = &lits {
        // --- run time, call made in the language
        let program = format!("f := {fn2}; f({la}, {lb})");
        let (out, phase) = run_text(&program);
        runs.push(FormRun { form: "call", out, cell: None, program, phase });
        // --- run time, operands read from cells
        let program = format!("x := mut {la}; y := mut {lb}; (*x) {op} (*y)");
        let (out, phase) = run_text(&program);
        runs.push(FormRun { form: "cell", out, cell: None, program, phase });
        // --- one operand literal, the other hidden
        let f = format!("(a: {t}) -> {r} {{ return a {op} {lb} }}");
        let (out, phase) = cache.call_api(&f, false, vec![a.var()]);
        runs.push(FormRun { form: "half_r", out, cell: None, program: format!("{f} called with ({})", a.show()), phase });
        let f = format!("(b: {t}) -> {r} {{ return {la} {op} b }}");
        let (out, phase) = cache.call_api(&f, false, vec![b.var()]);
        runs.push(FormRun { form: "half_l", out, cell: None, program: format!("{f} called with ({})", b.show()), phase });
    }
    // --- an operand written as the negation of a hidden value (prefix minus binds tighter than every binary operator, and
    // -(-v) is v for every int - wrapping - and every float): `-x op lb` with x = -a is a op b, `la op -y` with y = -b too
    if let (Some((la, lb)), Some(na), Some(nb)) = (&lits, a.negated(), b.negated()) {
        let f = format!("(x: {t}) -> {r} {{ return -x {op} {lb} }}");
        let (out, phase) = cache.call_api(&f, false, vec![na.var()]);
        runs.push(FormRun { form: "neg_half_r", out, cell: None, program: format!("{f} called with ({})", na.show()), phase });
        let f = format!("(y: {t}) -> {r} {{ return {la} {op} -y }}");
        let (out, phase) = cache.call_api(&f, false, vec![nb.var()]);
        runs.push(FormRun { form: "neg_half_l", out, cell: None, program: format!("{f} called with ({})", nb.show()), phase });
    }
    // --- both operands are ONE name (x op x): identities such as x == x, x - x, x / x hold for some values only
    if a == b {
        let f = format!("(a: {t}) -> {r} {{ return a {op} a }}");
        let (out, phase) = cache.call_api(&f, false, vec![a.var()]);
        runs.push(FormRun { form: "same", out, cell: None, program: format!("{f} called with ({})", a.show()), phase });
        if (op == "==" || op == "!=") && t != "bool" {
            // ... also when the name's static type is a union or any
            for wide in ["int|float", "float|string", "any"] {
                if wide == "float|string" && t == "int" {
                    continue;
                }
                let f = format!("(a: {wide}) -> bool {{ return a {op} a }}");
                let (out, phase) = cache.call_api(&f, false, vec![a.var()]);
                runs.push(FormRun { form: "same_wide", out, cell: None, program: format!("{f} called with ({})", a.show()), phase });
            }
            if let Some((la, _)) = &lits {
                let program = format!("p := (v: {t}) -> int|float|string {{ return v }}; x := p({la}); x {op} x");
                let (out, phase) = run_text(&program);
                runs.push(FormRun { form: "same_wide", out, cell: None, program, phase });
            }
        }
    }
    // --- compound assignment
    if has_assign_form(ty, op) {
        if let Some((la, lb)) = &lits {
            let program = format!("c := mut {la}; c {op}= {lb}");
            let (out, cell, phase) = run_text_cell(&program);
            runs.push(FormRun { form: "asg_lit", out, cell, program, phase });
        }
        let f = format!("(a: {t}, b: {t}) -> ({r}, {r}) {{ c := mut a; r := c {op}= b; return (r, *c) }}");
        let program = format!("{f} called with ({}, {})", a.show(), b.show());
        let fun = cache.function(&f, true);
        let (out, cell, phase) = match fun {
            Err(o) => (o, None, "parse"),
            Ok(fun) => match catch(|| fun.create_call(vec![a.var(), b.var()])) {
                Err(p) => (Out::Panic(format!("create_call: {p}")), None, "parse"),
                Ok(Err(e)) => (Out::Err(kind_of(format!("{e:?}"))), None, "parse"),
                Ok(Ok(code)) => match exec(&code) {
                    Err(o) => (o, None, "exec"),
                    Ok(Variable::Tuple(es)) if es.len() == 2 => (out_from_var(&es[0]), Some(out_from_var(&es[1])), "exec"),
                    Ok(v) => (Out::Other(format!("{v:?}")), None, "exec"),
                },
            },
        };
        runs.push(FormRun { form: "asg_api", out, cell, program, phase });
    }
    runs
}

fn un_text(op: &str) -> &'static str {
    match op {
        "neg" => "-",
        "not" => "!",
        other => panic!("unknown unary operator {other}"),
    }
}

fn exec_unary(op: &str, a: Sc, cache: &mut Cache) -> Vec<FormRun> {
    let t = a.ty().name();
    let o = un_text(op);
    let mut runs = vec![];
    let fn1 = format!("(a: {t}) -> {t} {{ return {o}a }}");
    let lit = if cache.lit_ok(a) { a.lit() } else { None };
    if let Some(la) = &lit {
        let program = format!("{o}{la}");
        let (out, phase) = run_text(&program);
        runs.push(FormRun { form: "lit", out, cell: None, program, phase });
    }
    let (out, phase) = cache.call_api(&fn1, true, vec![a.var()]);
    runs.push(FormRun { form: "api", out, cell: None, program: format!("{fn1} called with ({})", a.show()), phase });
    if let Some(la) = &lit {
        let program = format!("f := {fn1}; f({la})");
        let (out, phase) = run_text(&program);
        runs.push(FormRun { form: "call", out, cell: None, program, phase });
        let program = format!("x := mut {la}; {o}(*x)");
        let (out, phase) = run_text(&program);
        runs.push(FormRun { form: "cell", out, cell: None, program, phase });
    }
    runs
}

// ------------------------------------------------------------------ bookkeeping shared by both directions

struct Stats {
    cases: u64,
    executions: u64,
    by_form: HashMap<&'static str, u64>,
    errors_at_parse: u64,
    errors_at_exec: u64,
    lit_unavailable: u64,
    distinct: std::collections::HashSet<(String, Sc, Option<Sc>)>,
}

impl Stats {
    fn new() -> Self {
        Stats { cases: 0, executions: 0, by_form: HashMap::new(), errors_at_parse: 0, errors_at_exec: 0,
                lit_unavailable: 0, distinct: Default::default() }
    }
    /// returns whether the case counts as non-trivial
    fn note(&mut self, op: &str, a: Sc, b: Option<Sc>, runs: &[FormRun]) -> bool {
        self.cases += 1;
        self.executions += runs.len() as u64;
        for r in runs {
            *self.by_form.entry(r.form).or_insert(0) += 1;
            if matches!(r.out, Out::Err(_)) {
                if r.phase == "parse" { self.errors_at_parse += 1 } else { self.errors_at_exec += 1 }
            }
        }
        if !runs.iter().any(|r| r.form == "lit") {
            self.lit_unavailable += 1;
        }
        // non-trivial: executed in at least three forms, one of them a run-time form
        let nontrivial = runs.len() >= 3 && runs.iter().any(|r| r.form == "api");
        if nontrivial {
            self.distinct.insert((format!("{}{op}", a.ty().name()), a, b));
        }
        nontrivial
    }
    fn json(&self) -> Value {
        json!({"cases": self.cases, "executions": self.executions, "by_form": self.by_form,
               "errors_reported_while_parsing": self.errors_at_parse, "errors_reported_by_exec": self.errors_at_exec,
               "cases_without_literal_form": self.lit_unavailable, "distinct_nontrivial": self.distinct.len()})
    }
}

fn case_json(t: &str, op: &str, a: Sc, b: Option<Sc>) -> Value {
    json!({"t": t, "op": op, "a": a.show(), "b": b.map(|b| b.show())})
}

fn ty_of_tag(t: &str) -> Ty {
    match &t[..t.len() - 1] {
        "int" => Ty::Int,
        "float" => Ty::Float,
        "bool" => Ty::Bool,
        other => panic!("unknown case tag {other}"),
    }
}

// ------------------------------------------------------------------ spec -> impl

fn replay(path: &str) -> Value {
    let cases = read_ndjson(path);
    let mut cache = Cache::default();
    let mut mm = Mismatches::new(300);
    // the numeric operators are defined on (int, int) and (float, float): operands typed int|float must be refused;
    // an implementation that accepts them is run on an int and a float — a panic is never an outcome
    for op in ["+", "-", "*", "/", "%", "**", "<", "<=", ">", ">=", "&", "|", "^", "<<", ">>"] {
        for f in [format!("(a: int|float, b: int|float) -> any {{ return a {op} b }}"),
                  format!("(a: int|float, b: int|float) -> any {{ c := mut a; return c {op}= b }}")] {
            if op.len() == 2 && op != "**" && op != "<<" && op != ">>" && f.contains("= b") { continue; }
            if let Ok(fun) = cache.function(&f, false) {
                for (x, y) in [(Variable::Float(1.5), Variable::Int(2)), (Variable::Int(2), Variable::Float(1.5))] {
                    let fun2 = fun.clone();
                    let r = catch(move || fun2.create_call(vec![x.clone(), y.clone()]).map(|c| c.exec()));
                    if let Err(p) = r {
                        mm.push("union-operands", json!({"form": "union-operands", "op": op, "program": f, "got": format!("accepted, then panic: {p}")}));
                    }
                }
            }
        }
    }
    let mut st = Stats::new();
    let mut samples = vec![];
    let mut trivial: Vec<usize> = vec![];
    for (idx, c) in cases.iter().enumerate() {
        let t = c["t"].as_str().unwrap();
        let ty = ty_of_tag(t);
        let op = c["op"].as_str().unwrap();
        let a = Sc::from_wire(ty, &c["a"]);
        let binary = t.ends_with('2');
        let b = if binary { Some(Sc::from_wire(ty, &c["b"])) } else { None };
        let expected = out_from_wire(&c["r"]);
        let expected_cell = c.get("cell").map(out_from_wire);
        let runs = match b {
            Some(b) => exec_binary(op, a, b, &mut cache, false),
            None => exec_unary(op, a, &mut cache),
        };
        if !st.note(op, a, b, &runs) {
            trivial.push(idx);
        }
        for r in &runs {
            if r.out != expected {
                let mut d = case_json(t, op, a, b);
                d["form"] = json!(r.form);
                d["program"] = json!(r.program);
                d["expected"] = out_show(&expected);
                d["got"] = out_show(&r.out);
                d["reported_by"] = json!(r.phase);
                mm.push(r.form, d);
            } else if let (Some(ec), true) = (&expected_cell, r.form.starts_with("asg")) {
                // content of the cell after the compound assignment (when observable)
                let observable = r.form == "asg_lit" || !matches!(r.out, Out::Err(_));
                if observable && r.cell.as_ref() != Some(ec) {
                    let mut d = case_json(t, op, a, b);
                    d["form"] = json!(r.form);
                    d["program"] = json!(r.program);
                    d["expected_cell"] = out_show(ec);
                    d["got_cell"] = r.cell.as_ref().map(out_show).unwrap_or(json!(null));
                    mm.push("cell_after_assignment", d);
                }
            }
        }
        // nested prefix operators on a hidden operand (`-(!a)`, `!(-a)`, `-(-a)`, `!(!a)`): the one-expression form must
        // agree with the same two applications made in two statements (twins; a peephole on operator pairs shows here)
        if b.is_none() && ty != Ty::Float {
            let tn = ty.name();
            let ops: &[&str] = if ty == Ty::Int { &["-", "!"] } else { &["!"] };
            for o1 in ops {
                for o2 in ops {
                    let f = format!("(a: {tn}) -> {tn} {{ return {o1}({o2}a) }}");
                    let g = format!("(a: {tn}) -> {tn} {{ t := {o2}a; return {o1}t }}");
                    let (out_f, _) = cache.call_api(&f, false, vec![a.var()]);
                    let (out_g, _) = cache.call_api(&g, false, vec![a.var()]);
                    if out_f != out_g {
                        let mut d = case_json(t, op, a, None);
                        d["form"] = json!("nested-prefix");
                        d["program"] = json!(format!("{f} called with ({})", a.show()));
                        d["expected"] = out_show(&out_g);
                        d["got"] = out_show(&out_f);
                        d["twin"] = json!(format!("{g} called with ({})", a.show()));
                        mm.push("nested-prefix", d);
                    }
                }
            }
        }
        // chains `a op b op b`: left-associative, every application on its own — the form with a hidden first operand
        // and literal constants (what a folder might re-associate) must agree with the fully parenthesised form over
        // parameters (no oracle needed: the two are twins)
        if let (Some(b), true) = (b, ["+", "-", "*", "/"].contains(&op) && ty != Ty::Bool) {
            if cache.lit_ok(b) {
                let (tn, lb) = (ty.name(), b.lit().unwrap());
                let f = format!("(a: {tn}) -> {tn} {{ return a {op} {lb} {op} {lb} }}");
                let g = format!("(a: {tn}, b: {tn}) -> {tn} {{ return (a {op} b) {op} b }}");
                let (out_f, _) = cache.call_api(&f, false, vec![a.var()]);
                let (out_g, _) = cache.call_api(&g, true, vec![a.var(), b.var()]);
                if out_f != out_g {
                    let mut d = case_json(t, op, a, Some(b));
                    d["form"] = json!("chain");
                    d["program"] = json!(format!("{f} called with ({})", a.show()));
                    d["expected"] = out_show(&out_g);
                    d["got"] = out_show(&out_f);
                    d["twin"] = json!(format!("{g} called with ({}, {})", a.show(), b.show()));
                    mm.push("chain", d);
                }
            }
        }
        if idx % (cases.len() / 5 + 1) == 7 {
            samples.push(json!({"case": case_json(t, op, a, b), "spec": out_show(&expected),
                "impl": runs.iter().map(|r| json!({"form": r.form, "program": r.program, "got": out_show(&r.out)})).collect::<Vec<_>>()}));
        }
    }
    let mut res = st.json();
    res["mismatch_counts"] = mm.counts();
    res["mismatches"] = mm.items();
    res["samples"] = json!(samples);
    res["trivial_case_indices"] = json!(trivial);
    res
}

// ------------------------------------------------------------------ impl -> spec

fn rand_int(rng: &mut Rng) -> i64 {
    match rng.below(10) {
        0..=3 => rng.next() as i64,
        4 => (rng.next() % 256) as i64 - 128,
        5 => (rng.next() % (1 << 17)) as i64 - (1 << 16),
        6 => (rng.next() % (1u64 << 33)) as i64 - (1i64 << 32),
        7 => {
            // +-2^k + d
            let k = rng.below(64) as u32;
            let d = rng.below(5) as i64 - 2;
            let p = (1u64 << k) as i64;
            (if rng.chance(1, 2) { p } else { p.wrapping_neg() }).wrapping_add(d)
        }
        8 => i64::MIN.wrapping_add((rng.next() % 4) as i64),
        _ => i64::MAX.wrapping_sub((rng.next() % 4) as i64),
    }
}

const INT_BIN: [&str; 17] = ["+", "-", "*", "/", "%", "**", "<<", ">>", "&", "|", "^", "==", "!=", "<", "<=", ">", ">="];

fn rand_int_case(rng: &mut Rng) -> (&'static str, i64, i64) {
    let op = *rng.pick(&INT_BIN);
    let a = rand_int(rng);
    let b = match op {
        "<<" | ">>" => match rng.below(10) {
            0..=5 => rng.below(64) as i64,
            6 => 64 + rng.below(3) as i64,
            7 => -1 - rng.below(64) as i64,
            _ => rand_int(rng),
        },
        "**" => match rng.below(20) {
            0..=7 => rng.below(70) as i64,
            8..=12 => (rng.next() >> 1) as i64,                           // huge non-negative
            13..=14 => (1i64 << 32) + rng.below(1 << 20) as i64 - (1 << 19), // around 2^32
            15 => (1i64 << 32) * (1 + rng.below(1000) as i64),            // multiples of 2^32
            16..=17 => -1 - (rng.next() >> 1) as i64,
            _ => -1 - rng.below(3) as i64,
        },
        "/" | "%" => match rng.below(20) {
            0 => 0,
            1 => -1,
            2 => 1,
            3..=9 => {
                let d = 2 + rng.below(1000) as i64;
                if rng.chance(1, 2) { d } else { -d }
            }
            _ => rand_int(rng),
        },
        "==" | "!=" | "<" | "<=" | ">" | ">=" => match rng.below(4) {
            0 => a,
            1 => a.wrapping_add(rng.below(3) as i64 - 1),
            _ => rand_int(rng),
        },
        _ => rand_int(rng),
    };
    (op, a, b)
}

fn rand_float(rng: &mut Rng, grid: &[u64]) -> u64 {
    match rng.below(10) {
        0..=2 => rng.next(),                                             // any pattern (all exponents, NaNs)
        3..=4 => ((rng.below(2001) as f64 - 1000.0) / 8.0).to_bits(),   // small dyadic numbers
        5 => (rng.next() as i64 as f64 / 1e6).to_bits(),
        6 => {
            // around 1.0, a few ulps
            (1.0f64.to_bits() + rng.below(9) as u64 - 4) ^ (if rng.chance(1, 4) { 1 << 63 } else { 0 })
        }
        7 => rng.next() & 0x800f_ffff_ffff_ffff,                         // subnormals and zeros
        _ => if grid.is_empty() { rng.next() } else { *rng.pick(grid) },
    }
}

const FLOAT_BIN: [&str; 11] = ["+", "-", "*", "/", "**", "==", "!=", "<", "<=", ">", ">="];

#[inline(never)]
fn host_float(op: &str, a: f64, b: f64) -> f64 {
    let (a, b) = (std::hint::black_box(a), std::hint::black_box(b));
    match op {
        "+" => a + b,
        "-" => a - b,
        "*" => a * b,
        "/" => a / b,
        "**" => a.powf(b),
        other => panic!("no host arithmetic for {other}"),
    }
}

fn record(out_path: &str, n_int: usize, n_float: usize, cases_path: Option<&str>, chunk: u64) -> Value {
    let mut rng = Rng::from_env(0xC08 + 0x1000 * chunk);
    let mut cache = Cache::default();
    let mut mm = Mismatches::new(300);
    let mut st = Stats::new();
    let mut file = std::io::BufWriter::new(std::fs::File::create(out_path).expect("cannot create the trace file"));
    let mut records = 0u64;
    let mut samples = vec![];
    let emit = |file: &mut std::io::BufWriter<std::fs::File>, t: &str, op: &str, a: Sc, b: Option<Sc>, runs: &[FormRun], nt: bool| {
        let rs: Vec<Value> = runs.iter().map(|r| json!({"f": r.form, "r": out_json(&r.out)})).collect();
        let cells: Vec<Value> = runs.iter()
            .filter(|r| r.form.starts_with("asg") && (r.form == "asg_lit" || !matches!(r.out, Out::Err(_))))
            .map(|r| json!({"f": r.form, "r": r.cell.as_ref().map(out_json).unwrap_or(json!({"k": "missing"}))}))
            .collect();
        let mut rec = json!({"t": t, "op": op, "a": a.wire(), "as": a.show(), "rs": rs, "cells": cells, "nt": nt});
        if let Some(b) = b {
            rec["b"] = b.wire();
            rec["bs"] = json!(b.show());
        }
        writeln!(file, "{}", serde_json::to_string(&rec).unwrap()).unwrap();
    };
    // --- integers: random stream over all of i64
    let mut earlier: Vec<(&'static str, i64, i64)> = vec![];
    for i in 0..n_int {
        if i % 12 == 11 {
            let op = if rng.chance(1, 2) { "neg" } else { "not" };
            let a = Sc::I(rand_int(&mut rng));
            let runs = exec_unary(op, a, &mut cache);
            let nt = st.note(op, a, None, &runs);
            emit(&mut file, "int1", op, a, None, &runs, nt);
            records += 1;
            continue;
        }
        let (op, a, b) = if i % 16 == 15 && !earlier.is_empty() { *rng.pick(&earlier) } else { rand_int_case(&mut rng) };
        if earlier.len() < 64 { earlier.push((op, a, b)); }
        let (a, b) = (Sc::I(a), Sc::I(b));
        let runs = exec_binary(op, a, b, &mut cache, false);
        let nt = st.note(op, a, Some(b), &runs);
        if i % (n_int / 3 + 1) == 5 {
            samples.push(json!({"case": case_json("int2", op, a, Some(b)),
                "impl": runs.iter().map(|r| json!({"form": r.form, "got": out_show(&r.out)})).collect::<Vec<_>>()}));
        }
        emit(&mut file, "int2", op, a, Some(b), &runs, nt);
        records += 1;
    }
    // --- floats: the grid of the specification (all pairs, arithmetic operators) and a random stream
    let mut grid: Vec<u64> = vec![];
    if let Some(p) = cases_path {
        for c in read_ndjson(p) {
            if c["t"] == "float1" {
                grid.push(from_limbs(&c["a"]));
            }
        }
    }
    let mut float_cases: Vec<(&'static str, u64, u64)> = vec![];
    // (all pairs of the grid only in the first chunk; later chunks draw from it at random)
    for &a in grid.iter().filter(|_| chunk == 0) {
        for &b in &grid {
            for op in &FLOAT_BIN[..5] {
                float_cases.push((op, a, b));
            }
        }
    }
    for i in 0..n_float {
        if i % 10 == 9 && !float_cases.is_empty() {
            let again = *rng.pick(&float_cases);
            float_cases.push(again);
        } else {
            let op = *rng.pick(&FLOAT_BIN);
            let a = rand_float(&mut rng, &grid);
            let b = if rng.chance(1, 8) { a } else { rand_float(&mut rng, &grid) };
            float_cases.push((op, a, b));
        }
    }
    // (the zeros of both signs, a NaN and infinities are always among the assignment pairs)
    for (a, b) in [(0.0f64, -0.0f64), (-0.0, 0.0), (f64::NAN, f64::NAN), (1.5, 1.5), (f64::INFINITY, f64::NEG_INFINITY), (-0.0, -0.0)] {
        float_cases.push(("+", a.to_bits(), b.to_bits()));
    }
    let mut ieee_checked = 0u64;
    for (i, (op, a, b)) in float_cases.iter().enumerate() {
        let (sa, sb) = (Sc::F(*a), Sc::F(*b));
        let runs = exec_binary(op, sa, sb, &mut cache, i % 4 == 0);
        let nt = st.note(op, sa, Some(sb), &runs);
        if !CMP.contains(op) {
            // the IEEE-754 result itself: the host's f64 arithmetic is the reference (not expressible in TLA+)
            let host = host_float(op, f64::from_bits(*a), f64::from_bits(*b)).to_bits();
            for r in &runs {
                ieee_checked += 1;
                if r.out != Out::F(host) {
                    let mut d = case_json("float2", op, sa, Some(sb));
                    d["form"] = json!(r.form);
                    d["program"] = json!(r.program);
                    d["expected"] = out_show(&Out::F(host));
                    d["got"] = out_show(&r.out);
                    mm.push("ieee", d);
                }
                if r.form.starts_with("asg") && r.cell.as_ref() != Some(&Out::F(host)) {
                    let mut d = case_json("float2", op, sa, Some(sb));
                    d["form"] = json!(r.form);
                    d["program"] = json!(r.program);
                    d["expected_cell"] = out_show(&Out::F(host));
                    d["got_cell"] = r.cell.as_ref().map(out_show).unwrap_or(json!(null));
                    mm.push("ieee", d);
                }
            }
        }
        // plain assignment `c = b` on a cell holding a: stores b and yields b — bit for bit (the zeros of both signs,
        // NaN payloads), also when b compares equal to the content
        if *op == "+" {
            let f = "(a: float, b: float) -> (float, float) { c := mut a; r := c = b; return (r, *c) }".to_string();
            if let Ok(fun) = cache.function(&f, true) {
                let got = match catch(|| fun.create_call(vec![sa.var(), sb.var()])) {
                    Ok(Ok(code)) => match exec(&code) {
                        Ok(Variable::Tuple(es)) if es.len() == 2 => Some((out_from_var(&es[0]), out_from_var(&es[1]))),
                        _ => None,
                    },
                    _ => None,
                };
                ieee_checked += 1;
                if got != Some((Out::F(*b), Out::F(*b))) {
                    let mut d = case_json("float2", "=", sa, Some(sb));
                    d["form"] = json!("plain_assign");
                    d["program"] = json!(format!("{f} called with ({}, {})", sa.show(), sb.show()));
                    d["expected"] = out_show(&Out::F(*b));
                    d["got"] = json!(format!("{:?}", got.map(|(r, c)| (out_show(&r), out_show(&c)))));
                    mm.push("ieee", d);
                }
            }
        }
        // chain `a op b op b` with a hidden first operand and literal constants: ((a op b) op b), every application
        // rounded on its own (host f64 as the reference)
        if ["+", "-", "*", "/"].contains(op) && cache.lit_ok(sb) {
            let (fa, fb) = (f64::from_bits(*a), f64::from_bits(*b));
            let host = host_float(op, host_float(op, fa, fb), fb).to_bits();
            let lb = sb.lit().unwrap();
            let f = format!("(a: float) -> float {{ return a {op} {lb} {op} {lb} }}");
            let (out_f, _) = cache.call_api(&f, false, vec![sa.var()]);
            ieee_checked += 1;
            if out_f != Out::F(host) {
                let mut d = case_json("float2", op, sa, Some(sb));
                d["form"] = json!("chain");
                d["program"] = json!(format!("{f} called with ({})", sa.show()));
                d["expected"] = out_show(&Out::F(host));
                d["got"] = out_show(&out_f);
                mm.push("ieee", d);
            }
        }
        if i % (float_cases.len() / 3 + 1) == 11 {
            samples.push(json!({"case": case_json("float2", op, sa, Some(sb)),
                "impl": runs.iter().map(|r| json!({"form": r.form, "got": out_show(&r.out)})).collect::<Vec<_>>()}));
        }
        emit(&mut file, "float2", op, sa, Some(sb), &runs, nt);
        records += 1;
    }
    // unary minus on random floats
    for _ in 0..(n_float / 10) {
        let a = Sc::F(rand_float(&mut rng, &grid));
        let runs = exec_unary("neg", a, &mut cache);
        let nt = st.note("neg", a, None, &runs);
        emit(&mut file, "float1", "neg", a, None, &runs, nt);
        records += 1;
    }
    file.flush().unwrap();
    let mut res = st.json();
    res["records"] = json!(records);
    res["ieee_results_compared_with_host"] = json!(ieee_checked);
    res["float_grid"] = json!(grid.len());
    res["mismatch_counts"] = mm.counts();
    res["mismatches"] = mm.items();
    res["samples"] = json!(samples);
    res
}

// ------------------------------------------------------------------ float folds ($+ / $* over floats, C11)

/// `vh arith folds <out.ndjson> <n_random>`: for float sequences whose partial sums / products round (or are infinite,
/// NaN, signed zeros), record (1) every step `acc op x` of the documented left fold, computed by the implementation's own
/// binary operator (a `float2` record each; the IEEE result is compared with the host's f64), and (2) the value of
/// `xs~ $+` / `xs~ $*` in every execution form (one `ffold` record).  Trace_Arith chains the steps through its memo and
/// accepts the `ffold` record only if every form gave the end of the chain, bit for bit.
fn folds(out_path: &str, n_random: usize) -> Value {
    let mut rng = Rng::from_env(0xC11F);
    let mut cache = Cache::default();
    let mut mm = Mismatches::new(100);
    let mut file = std::io::BufWriter::new(std::fs::File::create(out_path).expect("cannot create the trace file"));
    let inf = f64::INFINITY;
    let mut table: Vec<Vec<f64>> = vec![
        vec![], vec![1.5], vec![-0.0], vec![-0.0, -0.0], vec![0.0, -0.0], vec![1.0, 1e-16, 1e-16], vec![0.1; 10], vec![inf, 1.0], vec![inf, -inf],
        vec![1e16, 1.0, 1.0, 1.0, 1.0, 1.0, 1.0, 1.0, 1.0], vec![1e308, 1e308, -1e308], vec![-1e308, 1e308, 1e308], vec![0.1, 0.2, 0.3],
        vec![1e-200, 1e200, 1e200], vec![1e200, 1e200, 1e-200], vec![3.0, 0.0, f64::NAN], vec![0.0, inf], vec![0.0, -3.0, inf], vec![f64::NAN, 1.0],
        vec![1.1, 1.1, 1.1, 1.1], vec![1e16, -1e16, 1.0], vec![1.0, 1e16, -1e16], vec![5e-324, 5e-324, 0.5], vec![2.0, 0.5, 3.0, 1.0 / 3.0],
        vec![1e16, 3.0, -1e16, 3.0, 1e16, 3.0, -1e16], vec![0.7, 0.1, 0.2, 0.3, 0.4, 0.5, 0.6, 0.7, 0.8, 0.9, 1.0, 1.1],
    ];
    let pool = [0.1, 0.2, 0.3, 1.0, -1.0, 1e16, -1e16, 1e-16, 3.5, 1e308, -1e308, 0.0, -0.0, 1.0 / 3.0, 2.5e-8, 7.0, 1e100, 1e-100, inf, -inf, f64::NAN];
    for _ in 0..n_random {
        let len = rng.below(13) as usize;
        table.push((0..len).map(|_| if rng.chance(1, 6) { f64::from_bits(rand_float(&mut rng, &[])) } else { *rng.pick(&pool) }).collect());
    }
    let (mut records, mut folds, mut steps, mut executions) = (0u64, 0u64, 0u64, 0u64);
    let mut samples = vec![];
    for (si, seq) in table.iter().enumerate() {
        for op in ["+", "*"] {
            let id = if op == "+" { 0.0f64 } else { 1.0f64 };
            // (1) the steps of the left fold, by the implementation's own operator
            let step_fn = format!("(a: float, b: float) -> float {{ return a {op} b }}");
            let mut acc = id.to_bits();
            let mut host = id;
            let mut chain_ok = true;
            for x in seq {
                let (out, _) = cache.call_api(&step_fn, true, vec![Variable::Float(f64::from_bits(acc)), Variable::Float(*x)]);
                host = host_float(op, f64::from_bits(acc), *x);
                let rec = json!({"t": "float2", "op": op, "a": limbs(acc), "b": limbs(x.to_bits()), "as": format!("{:?}", f64::from_bits(acc)),
                    "bs": format!("{x:?}"), "rs": [{"f": "api", "r": out_json(&out)}], "cells": [], "nt": false});
                writeln!(file, "{}", serde_json::to_string(&rec).unwrap()).unwrap();
                records += 1;
                steps += 1;
                match out {
                    Out::F(b) => {
                        if b != host.to_bits() && !(f64::from_bits(b).is_nan() && host.is_nan()) {
                            mm.push("ieee", json!({"t": "float2", "op": op, "a": format!("{:?}", f64::from_bits(acc)), "b": format!("{x:?}"),
                                "program": format!("{step_fn} (a step of the fold)"), "expected": format!("{host:?}"), "got": format!("{:?}", f64::from_bits(b))}));
                        }
                        acc = b;
                    }
                    _ => { chain_ok = false; break; }
                }
            }
            if !chain_ok {
                mm.push("step", json!({"t": "ffold", "op": op, "a": format!("{seq:?}"), "program": step_fn, "what": "a step of the fold did not yield a float"}));
                continue;
            }
            // (2) the reduction in every form
            let arr = Variable::from(seq.iter().map(|x| Variable::Float(*x)).collect::<Vec<Variable>>());
            let idl = Sc::F(id.to_bits()).lit().unwrap();
            let mut forms: Vec<(&'static str, String, Out)> = vec![];
            let f = format!("(a: [float]) -> float {{ return a~ ${op} }}");
            forms.push(("red_param", f.clone(), cache.call_api(&f, true, vec![arr.clone()]).0));
            let f = format!("(a: [float]) -> float {{ return a~ $ {idl} (s: float, x: float) -> float {{ return s {op} x }} }}");
            forms.push(("fold_param", f.clone(), cache.call_api(&f, true, vec![arr.clone()]).0));
            let f = format!("(a: [float]) -> float {{ return a~ @ (x: float) -> float {{ return x }} ${op} }}");
            forms.push(("red_mapped", f.clone(), cache.call_api(&f, true, vec![arr.clone()]).0));
            let f = format!("(a: [float]) -> float {{ it := a~; return it ${op} }}");
            forms.push(("red_named", f.clone(), cache.call_api(&f, true, vec![arr.clone()]).0));
            let f = format!("(a: [float]) -> int|float {{ pick := (b: bool) -> ()->(bool, int)|()->(bool, float) {{ if b {{ return [1]~ }} return a~ }}; it := pick(false); return it ${op} }}");
            // (an empty array carries the element type `!` at run time: its iterator declares no float elements, and the
            // dynamically chosen reducer is the int one — Lang.tla, `dyn`; the union route is a float fold only when non-empty)
            if !seq.is_empty() {
                forms.push(("red_union", f.clone(), cache.call_api(&f, true, vec![arr.clone()]).0));
            }
            if !seq.is_empty() && seq.iter().all(|x| cache.lit_ok(Sc::F(x.to_bits()))) {
                let lits: Vec<String> = seq.iter().map(|x| Sc::F(x.to_bits()).lit().unwrap()).collect();
                let program = format!("[{}]~ ${op}", lits.join(", "));
                forms.push(("red_lit", program.clone(), run_text(&program).0));
                let program = format!("xs := [{}]; f := () -> float {{ return xs~ ${op} }}; f(); f()", lits.join(", "));
                forms.push(("red_captured_twice", program.clone(), run_text(&program).0));
            }
            executions += forms.len() as u64;
            let rs: Vec<Value> = forms.iter().map(|(f, _, o)| json!({"f": f, "r": out_json(o)})).collect();
            let rec = json!({"t": "ffold", "op": op, "xs": seq.iter().map(|x| limbs(x.to_bits())).collect::<Vec<_>>(),
                "as": format!("{seq:?}"), "rs": rs, "cells": [], "nt": true,
                "programs": forms.iter().map(|(f, p, _)| json!({"f": f, "program": p})).collect::<Vec<_>>()});
            writeln!(file, "{}", serde_json::to_string(&rec).unwrap()).unwrap();
            records += 1;
            folds += 1;
            // the end of the host's own chain, as a cross-check of the recorded steps (NaN payloads aside)
            let _ = host;
            if si % 9 == 2 && samples.len() < 4 {
                samples.push(json!({"sequence": format!("{seq:?}"), "op": op, "fold": format!("{:?}", f64::from_bits(acc)),
                    "forms": forms.iter().map(|(f, _, o)| json!({"form": f, "got": out_show(o)})).collect::<Vec<_>>()}));
            }
        }
    }
    file.flush().unwrap();
    json!({"records": records, "folds": folds, "steps": steps, "executions": executions, "sequences": table.len(),
        "mismatch_counts": mm.counts(), "mismatches": mm.items(), "samples": samples})
}

// ------------------------------------------------------------------ long chains of one precedence level (C14)

/// `vh arith chains <out.ndjson> <n_random>`: `x1 op1 x2 op2 ... xn` with operators of ONE level (+ -, or * /) groups left
/// to right, however long the chain is; with floats every grouping rounds differently.  Records the steps of the
/// left-to-right reading (float2 records of the implementation's own operators) and the value of the unparenthesised
/// chain in several forms (one `fchain` record); Trace_Arith (FloatChain) chains the steps through its memo.
fn chains(out_path: &str, n_random: usize) -> Value {
    let mut rng = Rng::from_env(0xC14C);
    let mut cache = Cache::default();
    let mut mm = Mismatches::new(100);
    let mut file = std::io::BufWriter::new(std::fs::File::create(out_path).expect("cannot create the trace file"));
    let mut table: Vec<(Vec<f64>, Vec<&'static str>)> = vec![
        (vec![1e16, 1.0, 1.0, 1.0, 1.0, 1.0, 1.0, 1.0], vec!["+"; 7]),
        (vec![1e16, 1.0, 1.0, 1.0, 1.0, 1.0, 1.0, 1.0, 1.0], vec!["+"; 8]),
        (vec![0.1; 10], vec!["+"; 9]),
        (vec![1.0, 1e16, -1e16, 1.0, 1e16, -1e16, 1.0, 1e16, -1e16, 1.0, 3.0, 4.0], vec!["+"; 11]),
        (vec![1e16, 1.0, 1.0, 1.0, 1.0, 1.0, 1.0, 1.0, 1.0, 1.0, 1.0, 1.0, 1.0, 1.0, 1.0, 1.0], vec!["+"; 15]),
        (vec![1e16, 1.0, 1e16, 1.0, 1.0, 1.0, 1.0, 1.0, 1.0], vec!["+", "-", "+", "+", "+", "-", "+", "+"]),
        (vec![1e-200, 1e200, 1e200, 1e-200, 1e-200, 1e200, 3.0, 7.0], vec!["*"; 7]),
        (vec![1.1; 9], vec!["*"; 8]),
        (vec![1e200, 1e200, 1e-200, 1e-200, 3.0, 7.0, 0.1, 0.3, 9.0], vec!["*", "/", "*", "/", "*", "/", "*", "/"]),
        (vec![1.0, 3.0, 3.0, 3.0, 3.0, 3.0, 3.0, 3.0, 3.0], vec!["/"; 8]),
        (vec![100.0, 0.1, 0.2, 0.3, 0.1, 0.2, 0.3, 0.1, 0.2], vec!["-"; 8]),
    ];
    let pool = [0.1, 0.2, 0.3, 1.0, -1.0, 1e16, -1e16, 1e-16, 3.5, 1e308, 1.0 / 3.0, 2.5e-8, 7.0, 1e100, 1e-100, 3.0, 1.1];
    for _ in 0..n_random {
        let len = 3 + rng.below(12) as usize;
        let level: &[&'static str] = if rng.chance(1, 2) { &["+", "-"] } else { &["*", "/"] };
        let xs: Vec<f64> = (0..len).map(|_| *rng.pick(&pool)).collect();
        let ops: Vec<&'static str> = (0..len - 1).map(|_| *rng.pick(level)).collect();
        table.push((xs, ops));
    }
    let (mut records, mut nchains, mut steps, mut executions) = (0u64, 0u64, 0u64, 0u64);
    let mut samples = vec![];
    for (ci, (xs, ops)) in table.iter().enumerate() {
        let mut acc = xs[0].to_bits();
        let mut ok = true;
        for (i, op) in ops.iter().enumerate() {
            let x = xs[i + 1];
            let step_fn = format!("(a: float, b: float) -> float {{ return a {op} b }}");
            let (out, _) = cache.call_api(&step_fn, true, vec![Variable::Float(f64::from_bits(acc)), Variable::Float(x)]);
            let host = host_float(op, f64::from_bits(acc), x);
            let rec = json!({"t": "float2", "op": op, "a": limbs(acc), "b": limbs(x.to_bits()), "as": format!("{:?}", f64::from_bits(acc)),
                "bs": format!("{x:?}"), "rs": [{"f": "api", "r": out_json(&out)}], "cells": [], "nt": false});
            writeln!(file, "{}", serde_json::to_string(&rec).unwrap()).unwrap();
            records += 1;
            steps += 1;
            match out {
                Out::F(b) => {
                    if b != host.to_bits() && !(f64::from_bits(b).is_nan() && host.is_nan()) {
                        mm.push("ieee", json!({"t": "float2", "op": op, "a": format!("{:?}", f64::from_bits(acc)), "b": format!("{x:?}"),
                            "program": format!("{step_fn} (a step of the chain)"), "expected": format!("{host:?}"), "got": format!("{:?}", f64::from_bits(b))}));
                    }
                    acc = b;
                }
                _ => { ok = false; break; }
            }
        }
        if !ok || !xs.iter().all(|x| cache.lit_ok(Sc::F(x.to_bits()))) {
            continue;
        }
        let lits: Vec<String> = xs.iter().map(|x| Sc::F(x.to_bits()).lit().unwrap()).collect();
        let join = |names: &[String]| -> String {
            let mut t = names[0].clone();
            for (i, op) in ops.iter().enumerate() {
                t.push_str(&format!(" {op} {}", names[i + 1]));
            }
            t
        };
        let mut forms: Vec<(&'static str, String, Out)> = vec![];
        let program = join(&lits);
        forms.push(("lit", program.clone(), run_text(&program).0));
        let mut first = lits.clone();
        first[0] = "a".to_string();
        let f = format!("(a: float) -> float {{ return {} }}", join(&first));
        forms.push(("param_first", f.clone(), cache.call_api(&f, false, vec![Variable::Float(xs[0])]).0));
        let mut last = lits.clone();
        let n = last.len();
        last[n - 1] = "z".to_string();
        let f = format!("(z: float) -> float {{ return {} }}", join(&last));
        forms.push(("param_last", f.clone(), cache.call_api(&f, false, vec![Variable::Float(xs[n - 1])]).0));
        let names: Vec<String> = (0..n).map(|i| format!("p{i}")).collect();
        let params: Vec<String> = names.iter().map(|p| format!("{p}: float")).collect();
        let f = format!("({}) -> float {{ return {} }}", params.join(", "), join(&names));
        forms.push(("all_params", f.clone(), cache.call_api(&f, false, xs.iter().map(|x| Variable::Float(*x)).collect()).0));
        let decls: Vec<String> = (0..n).map(|i| format!("v{i} := mut {}; ", lits[i])).collect();
        let reads: Vec<String> = (0..n).map(|i| format!("(*v{i})")).collect();
        let program = format!("{}{}", decls.concat(), join(&reads));
        forms.push(("cells", program.clone(), run_text(&program).0));
        executions += forms.len() as u64;
        let rs: Vec<Value> = forms.iter().map(|(f, _, o)| json!({"f": f, "r": out_json(o)})).collect();
        let rec = json!({"t": "fchain", "op": "chain", "ops": ops, "xs": xs.iter().map(|x| limbs(x.to_bits())).collect::<Vec<_>>(),
            "as": join(&lits), "rs": rs, "cells": [], "nt": true,
            "programs": forms.iter().map(|(f, p, _)| json!({"f": f, "program": p})).collect::<Vec<_>>()});
        writeln!(file, "{}", serde_json::to_string(&rec).unwrap()).unwrap();
        records += 1;
        nchains += 1;
        if ci % 7 == 1 && samples.len() < 3 {
            samples.push(json!({"chain": join(&lits), "left_to_right": format!("{:?}", f64::from_bits(acc)),
                "forms": forms.iter().map(|(f, _, o)| json!({"form": f, "got": out_show(o)})).collect::<Vec<_>>()}));
        }
    }
    file.flush().unwrap();
    json!({"records": records, "chains": nchains, "steps": steps, "executions": executions,
        "mismatch_counts": mm.counts(), "mismatches": mm.items(), "samples": samples})
}

pub fn run(args: &[String]) -> Value {
    match args.first().map(String::as_str) {
        Some("replay") => replay(&args[1]),
        Some("chains") => chains(&args[1], args.get(2).and_then(|s| s.parse().ok()).unwrap_or(100)),
        Some("folds") => folds(&args[1], args.get(2).and_then(|s| s.parse().ok()).unwrap_or(100)),
        Some("record") => record(
            &args[1],
            args.get(2).and_then(|s| s.parse().ok()).unwrap_or(1000),
            args.get(3).and_then(|s| s.parse().ok()).unwrap_or(300),
            args.get(4).map(String::as_str).filter(|p| *p != "-"),
            args.get(5).and_then(|s| s.parse().ok()).unwrap_or(0),
        ),
        _ => {
            eprintln!("usage: vh arith replay <cases.ndjson> | vh arith record <out.ndjson> <n_int> <n_float> [<cases.ndjson>|-] [<chunk>]");
            std::process::exit(2);
        }
    }
}
