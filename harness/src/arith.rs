//! placeholder: filled in by the check that owns this sub-command
use serde_json::{Value, json};

pub fn run(_args: &[String]) -> Value {
    json!({"error": "not implemented"})
}
