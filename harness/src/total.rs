//! `vh total ...` — C03: parsing and checking is total.
//!
//! Replays the cases of spec/Syntax.tla (token sequences, untyped ASTs rendered by the
//! specification, the folding sub-suite, single-token mutations of valid programs, random walks)
//! and seeded byte/char mutations of the corpus into `Code::parse`, `Variable::from_str` and
//! `Type::from_str`, and classifies every run by the specification's outcome machine:
//! `Program` or `Error`.  A panic (caught, with its location recorded by a panic hook of our
//! own) or an abort of the worker process (observed through its exit status) is not a state of
//! that machine.  Cases run in child processes (`vh total worker`), so that an abort or a stack
//! overflow of the code under test is data, not a crash of the harness.
//!
//! The only "rendering" done here is: join the specification's tokens with one blank (token
//! sequences also without any blank), and replace `"@kind"` inside string tokens by the path of
//! the scratch file of that kind (imports take a string literal path).
use crate::util::{catch, read_ndjson, Rng};
use serde_json::{Value, json};
use simplesl::{Code, Interpreter, variable::{Type, Variable}};
use std::{
    cell::RefCell,
    collections::BTreeMap,
    fs,
    io::Write,
    path::Path,
    process::{Command, Stdio},
    str::FromStr,
    time::{Duration, Instant},
};

// ------------------------------------------------------------------------------------------
// outcome of one run
// ------------------------------------------------------------------------------------------

#[derive(Clone, Debug, PartialEq)]
pub enum Outcome {
    Program,
    /// error value; the name of the `simplesl::Error` variant (or "ParseTypeError")
    Error(String),
    /// caught panic: location `file:line`, message
    Panic(String, String),
    /// the worker process died on this run: description of the exit status, classification
    Abort(String, String),
}

impl Outcome {
    fn code(&self) -> &'static str {
        match self {
            Outcome::Program => "Program",
            Outcome::Error(_) => "Error",
            Outcome::Panic(..) => "Panic",
            Outcome::Abort(..) => "Abort",
        }
    }
}

thread_local! {
    static PANIC_LOC: RefCell<Option<String>> = const { RefCell::new(None) };
}

/// our own panic hook: remember where the panic was raised (util::silence_panics installs an empty one)
fn install_hook() {
    std::panic::set_hook(Box::new(|info| {
        let loc = info.location().map(|l| format!("{}:{}", l.file(), l.line()));
        PANIC_LOC.with(|p| *p.borrow_mut() = loc);
    }));
}

fn short_loc(loc: &str) -> String {
    // /repo/src/instruction/x.rs:12 -> src/instruction/x.rs:12 ; registry crates: <crate>/src/...
    if let Some(i) = loc.find("/src/") {
        let head = &loc[..i];
        let krate = head.rsplit('/').next().unwrap_or("");
        if head.ends_with("/repo") || head == "src" || head.is_empty() {
            return loc[i + 1..].to_string();
        }
        return format!("{krate}{}", &loc[i..]);
    }
    loc.to_string()
}

fn error_class<E: std::fmt::Debug>(e: &E) -> String {
    let s = format!("{e:?}");
    s.chars().take_while(|c| c.is_ascii_alphanumeric() || *c == '_').collect()
}

fn classify<T, E: std::fmt::Debug>(f: impl FnOnce() -> Result<T, E>) -> Outcome {
    PANIC_LOC.with(|p| *p.borrow_mut() = None);
    match catch(f) {
        Ok(Ok(_)) => Outcome::Program,
        Ok(Err(e)) => Outcome::Error(error_class(&e)),
        Err(msg) => {
            let loc = PANIC_LOC.with(|p| p.borrow_mut().take()).unwrap_or_else(|| "?".into());
            Outcome::Panic(short_loc(&loc), msg)
        }
    }
}

/// api: "plain" = Code::parse against a fresh stdlib interpreter, "host" = against the
/// interpreter that holds the specification's HostPrelude, "value" / "type" = from_str
fn run_one(api: &str, text: &str, plain: &Interpreter, host: &Interpreter) -> Outcome {
    match api {
        "plain" => classify(|| Code::parse(plain, text)),
        "host" => classify(|| Code::parse(host, text)),
        "value" => classify(|| Variable::from_str(text)),
        "type" => classify(|| Type::from_str(text)),
        other => panic!("unknown api {other}"),
    }
}

// ------------------------------------------------------------------------------------------
// scratch files for imports, rendering of token sequences
// ------------------------------------------------------------------------------------------

fn scratch() -> String { format!("{}/c03_scratch", crate::util::work_dir()) }

fn make_scratch() {
    let scratch = scratch();
    let d = Path::new(&scratch);
    fs::create_dir_all(d.join("dir.sl")).unwrap();
    fs::write(d.join("valid.sl"), "one := 1;\ninc := (v: int) -> int { return v + one }\ncell := mut 2.5\n").unwrap();
    fs::write(d.join("invalid.sl"), "one := := 1 }").unwrap();
    fs::write(d.join("illtyped.sl"), "one := 1 + \"s\"").unwrap();
    fs::write(d.join("binary.sl"), [0xffu8, 0xfe, 0x00, 0xc3, 0x28]).unwrap();
    fs::write(d.join("self.sl"), format!("import \"{scratch}/self.sl\"")).unwrap();
    let _ = fs::remove_file(d.join("missing.sl"));
}

fn subst(tok: &str) -> String {
    if let Some(rest) = tok.strip_prefix("\"@") {
        if let Some(kind) = rest.strip_suffix('"') {
            return format!("\"{}/{kind}.sl\"", scratch());
        }
    }
    tok.to_string()
}

fn toks(v: &Value) -> Vec<String> {
    v.as_array().map(|a| a.iter().map(|t| t.as_str().unwrap().to_string()).collect()).unwrap_or_default()
}

fn join(ts: &[String], sep: &str) -> String {
    ts.iter().map(|t| subst(t)).collect::<Vec<_>>().join(sep)
}

#[derive(Clone)]
struct Ctx {
    name: String,
    pre: Vec<String>,
    post: Vec<String>,
    /// non-empty: the context applies only to cases in which this token occurs
    mentions: String,
}

struct Contexts {
    code: Vec<Ctx>,
    typ: Ctx,
    host_prelude: Vec<String>,
    tokens: Vec<String>,
}

fn load_contexts(dir: &str) -> Contexts {
    let rows = read_ndjson(&format!("{dir}/syntax_contexts.ndjson"));
    let mut c = Contexts { code: vec![], typ: Ctx { name: String::new(), pre: vec![], post: vec![], mentions: String::new() }, host_prelude: vec![], tokens: vec![] };
    for r in rows {
        let ctx = Ctx { name: r["name"].as_str().unwrap().to_string(), pre: toks(&r["pre"]), post: toks(&r["post"]),
                        mentions: r["mentions"].as_str().unwrap_or("").to_string() };
        match ctx.name.as_str() {
            "$host_prelude" => c.host_prelude = ctx.pre,
            "$tokens" => c.tokens = ctx.pre,
            "type" => c.typ = ctx,
            _ => c.code.push(ctx),
        }
    }
    c.code.sort_by(|a, b| a.name.cmp(&b.name));
    assert!(c.code.len() >= 4 && !c.host_prelude.is_empty() && !c.tokens.is_empty() && c.typ.name == "type");
    c
}

fn in_ctx(c: &Ctx, body: &str) -> String {
    let mut s = join(&c.pre, " ");
    if !s.is_empty() {
        s.push(' ');
    }
    s.push_str(body);
    let post = join(&c.post, " ");
    if !post.is_empty() {
        s.push(' ');
        s.push_str(&post);
    }
    s
}

/// The runs of one case: (label, api, text).  Shared by the driver and the worker so that result
/// lines can be matched to texts.
fn variants(case: &Value, cx: &Contexts) -> Vec<(String, &'static str, String)> {
    let suite = case["suite"].as_str().unwrap_or("text");
    let ts = toks(&case["ts"]);
    let mut out = vec![];
    let code_ctx = |out: &mut Vec<(String, &'static str, String)>, body: &str, tag: &str| {
        for c in &cx.code {
            if c.mentions.is_empty() || ts.contains(&c.mentions) {
                out.push((format!("{}{tag}", c.name), "host", in_ctx(c, body)));
            }
        }
    };
    match suite {
        "tok" => {
            let spaced = join(&ts, " ");
            let glued = join(&ts, "");
            code_ctx(&mut out, &spaced, "");
            out.push(("value".into(), "value", spaced.clone()));
            out.push(("type".into(), "type", spaced.clone()));
            if glued != spaced {
                code_ctx(&mut out, &glued, "/glued");
                out.push(("value/glued".into(), "value", glued.clone()));
                out.push(("type/glued".into(), "type", glued));
            }
        }
        "ast" | "walk" => {
            let body = join(&ts, " ");
            code_ctx(&mut out, &body, "");
            // the blank between two tokens may be any white space or a comment: statements that begin with a keyword
            // are also written with a tab, a line break and a comment as separators (in the `top' context)
            const KEYWORDS: [&str; 12] = ["if", "else", "match", "loop", "while", "for", "return", "import", "mod", "struct", "mut", "in"];
            if ts.iter().any(|t| KEYWORDS.contains(&t.as_str())) {
                if let Some(c) = cx.code.iter().find(|c| c.name == "top") {
                    for (tag, sep) in [("tab", "\t"), ("newline", "\n"), ("comment", "/**/")] {
                        out.push((format!("top/{tag}"), "host", in_ctx(c, &join(&ts, sep))));
                    }
                }
            }
            out.push(("value".into(), "value", body.clone()));
            if case["sort"] == "E" {
                out.push(("type".into(), "type", body));
            }
        }
        "type" => {
            let body = join(&ts, " ");
            out.push(("type".into(), "type", body.clone()));
            out.push(("param".into(), "plain", in_ctx(&cx.typ, &body)));
            out.push(("value".into(), "value", body));
        }
        "fold" | "import_self" | "prog" => out.push(("plain".into(), "plain", join(&ts, " "))),
        // mutants and corpus programs: in the context the base program was accepted in
        "mut" => {
            let body = join(&ts, " ");
            match case["ctx"].as_str().unwrap_or("plain") {
                "plain" => out.push(("plain".into(), "plain", body)),
                name => {
                    let c = cx.code.iter().find(|c| c.name == name).expect("context");
                    out.push((name.to_string(), "host", in_ctx(c, &body)));
                }
            }
        }
        // raw text (corpus originals, byte mutations)
        _ => {
            let text = case["text"].as_str().unwrap().to_string();
            out.push(("plain".into(), "plain", text.clone()));
            if case["apis"] == "all" {
                out.push(("value".into(), "value", text.clone()));
                out.push(("type".into(), "type", text));
            }
        }
    }
    out
}

// ------------------------------------------------------------------------------------------
// worker: one child process runs a shard of cases and appends one line per run
// ------------------------------------------------------------------------------------------

fn esc(s: &str) -> String {
    s.replace('\\', "\\\\").replace('\t', "\\t").replace('\n', "\\n").replace('\r', "\\r")
}

fn host_interpreter(cx: &Contexts) -> Interpreter<'static> {
    let mut host = Interpreter::with_stdlib();
    let text = join(&cx.host_prelude, " ");
    let code = Code::parse(&host, &text).expect("the specification's HostPrelude must parse");
    code.exec_unscoped(&mut host).expect("the specification's HostPrelude must run");
    host
}

/// vh total worker <ctxdir> <shard.ndjson> <results.txt> <first_case> <first_variant>
fn worker(args: &[String]) -> Value {
    install_hook();
    let cx = load_contexts(&args[0]);
    let cases = read_ndjson(&args[1]);
    let (c0, v0): (usize, usize) = (args[3].parse().unwrap(), args[4].parse().unwrap());
    let mut out = fs::OpenOptions::new().create(true).append(true).open(&args[2]).unwrap();
    // the code under test runs on a thread of its own with a moderate stack: nesting is bounded by
    // the generators, and unbounded recursion (a file importing itself) should overflow quickly
    std::thread::scope(|s| {
        std::thread::Builder::new()
            .stack_size(256 << 20)
            .spawn_scoped(s, || {
                install_hook();
                let plain = Interpreter::with_stdlib();
                let host = host_interpreter(&cx);
                for (ci, case) in cases.iter().enumerate().skip(c0) {
                    for (vi, (_, api, text)) in variants(case, &cx).iter().enumerate() {
                        if ci == c0 && vi < v0 {
                            continue;
                        }
                        let line = match run_one(api, text, &plain, &host) {
                            Outcome::Program => format!("{ci}\t{vi}\tP\n"),
                            Outcome::Error(c) => format!("{ci}\t{vi}\tE\t{c}\n"),
                            Outcome::Panic(l, m) => format!("{ci}\t{vi}\tX\t{}\t{}\n", esc(&l), esc(&m)),
                            Outcome::Abort(..) => unreachable!(),
                        };
                        out.write_all(line.as_bytes()).unwrap();
                    }
                }
            })
            .unwrap()
            .join()
            .unwrap();
    });
    json!({"done": true})
}

// ------------------------------------------------------------------------------------------
// driver: shard the cases, run the workers, restart after an abort, collect the outcomes
// ------------------------------------------------------------------------------------------

struct RunResult {
    /// outcome per case per variant
    outcomes: Vec<Vec<Outcome>>,
    aborts: usize,
    timeouts: usize,
}

const WORKERS: usize = 6;
const MEM_KB: u64 = 10_000_000; // address space limit of a worker (includes the 1 GiB main stack)
const STALL: Duration = Duration::from_secs(60);

fn classify_abort(status: &std::process::ExitStatus, stderr: &str) -> (String, String) {
    use std::os::unix::process::ExitStatusExt;
    let desc = match (status.code(), status.signal()) {
        (Some(c), _) => format!("exit status {c}"),
        (None, Some(s)) => format!("signal {s}"),
        _ => "unknown".into(),
    };
    let tail: String = stderr.lines().rev().take(3).collect::<Vec<_>>().into_iter().rev().collect::<Vec<_>>().join(" | ");
    let class = if stderr.contains("has overflowed its stack") || status.signal() == Some(11) {
        "resource:stack"
    } else if stderr.contains("memory allocation of") {
        "resource:memory"
    } else {
        "abort"
    };
    (format!("{desc}; stderr: {tail}"), class.to_string())
}

fn run_cases(name: &str, ctxdir: &str, cases: &[Value], cx: &Contexts) -> RunResult {
    let dir = format!("{}/c03_run_{name}", crate::util::work_dir());
    let _ = fs::remove_dir_all(&dir);
    fs::create_dir_all(&dir).unwrap();
    make_scratch();
    let exe = std::env::current_exe().unwrap();
    let n = cases.len();
    let nv: Vec<usize> = cases.iter().map(|c| variants(c, cx).len()).collect();
    let mut outcomes: Vec<Vec<Outcome>> = nv.iter().map(|_| vec![]).collect();
    // shard w holds the cases w, w + WORKERS, ...
    let shards: Vec<Vec<usize>> = (0..WORKERS).map(|w| (w..n).step_by(WORKERS).collect()).collect();
    let (mut aborts, mut timeouts) = (0, 0);
    std::thread::scope(|s| {
        let handles: Vec<_> = shards
            .iter()
            .enumerate()
            .map(|(w, idxs)| {
                let dir = dir.clone();
                let exe = exe.clone();
                let nv = &nv;
                s.spawn(move || {
                    let shard_file = format!("{dir}/shard{w}.ndjson");
                    let mut f = std::io::BufWriter::new(fs::File::create(&shard_file).unwrap());
                    for &i in idxs {
                        writeln!(f, "{}", serde_json::to_string(&cases[i]).unwrap()).unwrap();
                    }
                    drop(f);
                    let res_file = format!("{dir}/res{w}.txt");
                    let mut local: Vec<Vec<Outcome>> = idxs.iter().map(|_| vec![]).collect();
                    let (mut c0, mut v0) = (0usize, 0usize);
                    let (mut ab, mut to) = (0usize, 0usize);
                    let total: usize = idxs.iter().map(|&i| nv[i]).sum();
                    let mut done = 0usize;
                    while done < total {
                        let _ = fs::remove_file(&res_file);
                        let mut child = Command::new("sh")
                            .arg("-c")
                            .arg(format!("ulimit -v {MEM_KB}; exec \"$0\" \"$@\""))
                            .arg(&exe)
                            .args(["total", "worker", ctxdir, &shard_file, &res_file, &c0.to_string(), &v0.to_string()])
                            .stdout(Stdio::null())
                            .stderr(Stdio::piped())
                            .spawn()
                            .expect("spawn worker");
                        // watchdog: the result file has to grow
                        let (mut last_len, mut last_change) = (0u64, Instant::now());
                        let mut timed_out = false;
                        let status = loop {
                            if let Some(st) = child.try_wait().unwrap() {
                                break st;
                            }
                            std::thread::sleep(Duration::from_millis(20));
                            let len = fs::metadata(&res_file).map(|m| m.len()).unwrap_or(0);
                            if len != last_len {
                                last_len = len;
                                last_change = Instant::now();
                            } else if last_change.elapsed() > STALL {
                                let _ = child.kill();
                                timed_out = true;
                                break child.wait().unwrap();
                            }
                        };
                        let mut stderr = String::new();
                        if let Some(mut e) = child.stderr.take() {
                            use std::io::Read;
                            let _ = e.read_to_string(&mut stderr);
                        }
                        // read what the worker managed to write
                        let text = fs::read_to_string(&res_file).unwrap_or_default();
                        for line in text.lines() {
                            let mut p = line.split('\t');
                            let (Some(ci), Some(vi), Some(code)) = (p.next(), p.next(), p.next()) else { continue };
                            let (Ok(ci), Ok(vi)) = (ci.parse::<usize>(), vi.parse::<usize>()) else { continue };
                            let o = match code {
                                "P" => Outcome::Program,
                                "E" => Outcome::Error(p.next().unwrap_or("").to_string()),
                                "X" => Outcome::Panic(p.next().unwrap_or("").to_string(), p.next().unwrap_or("").to_string()),
                                _ => continue,
                            };
                            if local[ci].len() == vi {
                                local[ci].push(o);
                                done += 1;
                            }
                        }
                        if done >= total {
                            break;
                        }
                        // the worker died (or hung) on the first run that has no result
                        let ci = (0..local.len()).find(|&ci| local[ci].len() < nv[idxs[ci]]).unwrap();
                        let vi = local[ci].len();
                        if status.success() && !timed_out {
                            panic!("worker {w} exited normally but results are missing at case {ci}/{vi}: {stderr}");
                        }
                        let (desc, class) = if timed_out {
                            to += 1;
                            (format!("no progress for {}s, killed", STALL.as_secs()), "timeout".to_string())
                        } else {
                            ab += 1;
                            classify_abort(&status, &stderr)
                        };
                        local[ci].push(Outcome::Abort(desc, class));
                        done += 1;
                        c0 = ci;
                        v0 = vi + 1;
                        if ab + to > 200 {
                            panic!("too many worker deaths in shard {w}; last: {:?}", local[ci].last());
                        }
                    }
                    (local, ab, to)
                })
            })
            .collect();
        for (w, h) in handles.into_iter().enumerate() {
            let (local, ab, to) = h.join().expect("driver thread");
            aborts += ab;
            timeouts += to;
            for (k, o) in local.into_iter().enumerate() {
                outcomes[shards[w][k]] = o;
            }
        }
    });
    let _ = fs::remove_dir_all(&dir);
    RunResult { outcomes, aborts, timeouts }
}

// ------------------------------------------------------------------------------------------
// comparison with the specification's prediction and the report
// ------------------------------------------------------------------------------------------

struct Report {
    cases: u64,
    runs: u64,
    by_outcome: BTreeMap<String, u64>,
    by_suite: BTreeMap<String, BTreeMap<String, u64>>,
    error_classes: BTreeMap<String, u64>,
    /// distinct defects: key = location (panic) or kind; value = (count, shortest example)
    defects: BTreeMap<String, (u64, Value)>,
    resource: Vec<Value>,
    accepted_nontrivial: u64,
    samples: Vec<Value>,
}

impl Report {
    fn new() -> Self {
        Report { cases: 0, runs: 0, by_outcome: BTreeMap::new(), by_suite: BTreeMap::new(), error_classes: BTreeMap::new(),
                 defects: BTreeMap::new(), resource: vec![], accepted_nontrivial: 0, samples: vec![] }
    }

    fn defect(&mut self, key: String, example: Value) {
        let len = example["text"].as_str().map_or(usize::MAX, str::len);
        let e = self.defects.entry(key).or_insert((0, example.clone()));
        e.0 += 1;
        if len < e.1["text"].as_str().map_or(usize::MAX, str::len) {
            e.1 = example;
        }
    }

    /// compare one case's runs with the prediction (`expect`) of the specification
    fn judge(&mut self, case: &Value, cx: &Contexts, outs: &[Outcome]) {
        let suite = case["suite"].as_str().unwrap_or("text").to_string();
        let expect = case["expect"].as_str().unwrap_or("any");
        self.cases += 1;
        let vars = variants(case, cx);
        for ((label, api, text), o) in vars.iter().zip(outs) {
            self.runs += 1;
            *self.by_outcome.entry(o.code().into()).or_insert(0) += 1;
            *self.by_suite.entry(suite.clone()).or_default().entry(o.code().into()).or_insert(0) += 1;
            if let Outcome::Error(c) = o {
                *self.error_classes.entry(c.clone()).or_insert(0) += 1;
            }
            // the prediction is about Code::parse; the value / type grammars only have to be total
            let expect = if *api == "value" || *api == "type" { "any" } else { expect };
            let ctx = json!({"suite": suite, "variant": label, "api": api, "text": text, "expect": expect,
                             "form": case["form"], "ws": case["ws"], "name": case["name"], "mutation": case["mutation"]});
            match o {
                Outcome::Panic(loc, msg) => {
                    let mut ex = ctx.clone();
                    ex["kind"] = json!("panic");
                    ex["location"] = json!(loc);
                    ex["message"] = json!(msg);
                    self.defect(format!("panic@{loc}"), ex);
                }
                Outcome::Abort(desc, class) => {
                    let mut ex = ctx.clone();
                    ex["status"] = json!(desc);
                    ex["class"] = json!(class);
                    if class.starts_with("resource:") || class == "timeout" {
                        // stack / memory exhaustion is outside the claim: reported, not failed
                        if self.resource.len() < 40 {
                            self.resource.push(ex);
                        }
                    } else {
                        ex["kind"] = json!("abort");
                        self.defect(format!("abort:{}", desc.split(';').next().unwrap_or("")), ex);
                    }
                }
                Outcome::Program => {
                    if *api != "value" && *api != "type" && suite != "tok" {
                        self.accepted_nontrivial += 1;
                    }
                    if expect.starts_with("Error") {
                        let mut ex = ctx.clone();
                        ex["kind"] = json!("accepted_but_error_predicted");
                        self.defect(format!("predicted {expect}, got Program [{}]", case["ws"]), ex);
                    }
                }
                Outcome::Error(c) => {
                    if expect == "Program" {
                        let mut ex = ctx.clone();
                        ex["kind"] = json!("rejected_but_program_predicted");
                        ex["class"] = json!(c);
                        self.defect(format!("predicted Program, got Error:{c} [{}]", case["name"]), ex);
                    } else if let Some(want) = expect.strip_prefix("Error:") {
                        if want != c {
                            let mut ex = ctx.clone();
                            ex["kind"] = json!("wrong_error_class");
                            ex["class"] = json!(c);
                            self.defect(format!("predicted {expect}, got Error:{c} [{}]", case["ws"]), ex);
                        }
                    }
                }
            }
        }
        if self.samples.len() < 4 && self.cases % 997 == 1 {
            if let (Some((label, _, text)), Some(o)) = (vars.first(), outs.first()) {
                self.samples.push(json!({"suite": suite, "variant": label, "text": text, "spec_admits": expect, "observed": o.code()}));
            }
        }
    }

    fn json(&self) -> Value {
        json!({
            "cases": self.cases, "runs": self.runs, "by_outcome": self.by_outcome, "by_suite": self.by_suite,
            "error_classes": self.error_classes, "accepted_programs": self.accepted_nontrivial,
            "defects": self.defects.iter().map(|(k, (n, ex))| json!({"key": k, "count": n, "example": ex})).collect::<Vec<_>>(),
            "resource_exhaustion": self.resource, "samples": self.samples,
        })
    }
}

fn run_and_judge(name: &str, ctxdir: &str, cases: &[Value], cx: &Contexts) -> (Report, RunResult) {
    let rr = run_cases(name, ctxdir, cases, cx);
    let mut rep = Report::new();
    for (case, outs) in cases.iter().zip(&rr.outcomes) {
        rep.judge(case, cx, outs);
    }
    (rep, rr)
}

fn finish(rep: &Report, rr: &RunResult, extra: Value) -> Value {
    let mut v = rep.json();
    v["worker_aborts"] = json!(rr.aborts);
    v["worker_timeouts"] = json!(rr.timeouts);
    if let Some(m) = extra.as_object() {
        for (k, x) in m {
            v[k] = x.clone();
        }
    }
    v
}

// ------------------------------------------------------------------------------------------
// a lexer of our own for corpus programs (the mutation operators work on token sequences)
// ------------------------------------------------------------------------------------------

const MULTI: &[&str] = &["<<=", ">>=", "**=", "$&&", "$||", ":=", "=>", "->", "==", "!=", "<=", ">=", "&&", "||", "<<",
    ">>", "**", "+=", "-=", "*=", "/=", "%=", "&=", "|=", "^=", "$+", "$*", "$&", "$|", "$]", "()"];

pub fn lex(src: &str) -> Vec<String> {
    let cs: Vec<char> = src.chars().collect();
    let mut out: Vec<String> = vec![];
    let mut i = 0;
    let at = |i: usize| cs.get(i).copied().unwrap_or('\0');
    while i < cs.len() {
        let c = cs[i];
        if c.is_whitespace() {
            i += 1;
        } else if c == '/' && at(i + 1) == '/' {
            while i < cs.len() && cs[i] != '\n' {
                i += 1;
            }
        } else if c == '/' && at(i + 1) == '*' {
            i += 2;
            while i < cs.len() && !(cs[i] == '*' && at(i + 1) == '/') {
                i += 1;
            }
            i = (i + 2).min(cs.len());
        } else if c == '"' {
            let s = i;
            i += 1;
            while i < cs.len() && cs[i] != '"' {
                i += if cs[i] == '\\' { 2 } else { 1 };
            }
            i = (i + 1).min(cs.len());
            out.push(cs[s..i].iter().collect());
        } else if c.is_ascii_digit() {
            let s = i;
            if c == '0' && matches!(at(i + 1), 'x' | 'b' | 'o') {
                i += 2;
                while at(i).is_ascii_alphanumeric() || at(i) == '_' {
                    i += 1;
                }
            } else {
                while at(i).is_ascii_digit() || at(i) == '_' {
                    i += 1;
                }
                let after_dot = out.last().is_some_and(|t| t == ".");
                if !after_dot && at(i) == '.' && at(i + 1).is_ascii_digit() {
                    i += 1;
                    while at(i).is_ascii_digit() || at(i) == '_' {
                        i += 1;
                    }
                }
                if !after_dot && matches!(at(i), 'e' | 'E') {
                    let mut j = i + 1;
                    if matches!(at(j), '+' | '-') {
                        j += 1;
                    }
                    while at(j) == '_' {
                        j += 1;
                    }
                    if at(j).is_ascii_digit() {
                        i = j;
                        while at(i).is_ascii_digit() || at(i) == '_' {
                            i += 1;
                        }
                    }
                }
            }
            out.push(cs[s..i].iter().collect());
        } else if c.is_alphabetic() || c == '_' {
            let s = i;
            while at(i).is_alphanumeric() || at(i) == '_' {
                i += 1;
            }
            out.push(cs[s..i].iter().collect());
        } else {
            let rest: String = cs[i..(i + 3).min(cs.len())].iter().collect();
            if let Some(m) = MULTI.iter().find(|m| rest.starts_with(**m)) {
                out.push((*m).to_string());
                i += m.chars().count();
            } else {
                out.push(c.to_string());
                i += 1;
            }
        }
    }
    out
}

fn corpus_files(dir: &str) -> Vec<(String, String)> {
    let mut v: Vec<(String, String)> = fs::read_dir(dir)
        .unwrap_or_else(|e| panic!("corpus {dir}: {e}"))
        .filter_map(|e| e.ok())
        .filter(|e| e.path().is_file())
        .map(|e| (e.file_name().to_string_lossy().to_string(), fs::read_to_string(e.path()).unwrap()))
        .collect();
    v.sort();
    v
}

// ------------------------------------------------------------------------------------------
// sub-commands
// ------------------------------------------------------------------------------------------

/// vh total gen <dir> <max_accepted>: replay syntax_{tok,ast,fold}.ndjson; write <dir>/accepted.ndjson
fn gen_cmd(args: &[String]) -> Value {
    let dir = &args[0];
    let max_acc: usize = args.get(1).and_then(|s| s.parse().ok()).unwrap_or(300);
    let cx = load_contexts(dir);
    let mut cases = vec![];
    for f in ["syntax_fold", "syntax_ast", "syntax_tok", "syntax_walk"] {
        let p = format!("{dir}/{f}.ndjson");
        if Path::new(&p).exists() {
            cases.extend(read_ndjson(&p));
        }
    }
    let (rep, rr) = run_and_judge("gen", dir, &cases, &cx);
    // accepted programs of suite (b): one per form first, then a seeded sample of the rest
    let mut rng = Rng::from_env(0xC03);
    let mut first: BTreeMap<String, Value> = BTreeMap::new();
    let mut rest: Vec<Value> = vec![];
    let mut forms_seen: BTreeMap<String, [u64; 2]> = BTreeMap::new();
    for (case, outs) in cases.iter().zip(&rr.outcomes) {
        if case["suite"] != "ast" {
            continue;
        }
        let form = case["form"].as_str().unwrap_or("").to_string();
        let vars = variants(case, &cx);
        let any_ok = vars.iter().zip(outs).any(|((_, api, _), o)| *api == "host" && *o == Outcome::Program);
        let e = forms_seen.entry(form.clone()).or_insert([0, 0]);
        e[0] += 1;
        e[1] += any_ok as u64;
        for ((label, api, _), o) in vars.iter().zip(outs) {
            if *api == "host" && *o == Outcome::Program && !label.contains('/') {
                let row = json!({"suite": "mut", "ctx": label, "ts": case["ts"], "form": form, "expect": "Program"});
                let key = form.clone();
                if !first.contains_key(&key) {
                    first.insert(key, row);
                } else {
                    rest.push(row);
                }
            }
        }
    }
    let mut acc: Vec<Value> = first.into_values().collect();
    while acc.len() < max_acc && !rest.is_empty() {
        let i = rng.below(rest.len());
        acc.push(rest.swap_remove(i));
    }
    acc.truncate(max_acc.max(1));
    let mut f = std::io::BufWriter::new(fs::File::create(format!("{dir}/accepted.ndjson")).unwrap());
    for r in &acc {
        writeln!(f, "{}", serde_json::to_string(r).unwrap()).unwrap();
    }
    let never_accepted: Vec<&String> = forms_seen.iter().filter(|(_, v)| v[1] == 0).map(|(k, _)| k).collect();
    finish(&rep, &rr, json!({"accepted_written": acc.len(), "forms": forms_seen.len(),
        "forms_never_accepted": never_accepted}))
}

/// vh total corpus <corpus_dir> <dir>: originals and re-joined token sequences must be programs;
/// writes <dir>/mut_in.ndjson = tokenised corpus + <dir>/accepted.ndjson (input of MC_SyntaxMut)
fn corpus(args: &[String]) -> Value {
    let (cdir, dir) = (&args[0], &args[1]);
    let max_tokens: usize = args.get(2).and_then(|s| s.parse().ok()).unwrap_or(400);
    let cx = load_contexts(dir);
    let files = corpus_files(cdir);
    let mut cases = vec![];
    let mut rows = vec![];
    for (name, text) in &files {
        cases.push(json!({"suite": "text", "name": name, "text": text, "apis": "all", "expect": "Program"}));
        let ts = lex(text);
        cases.push(json!({"suite": "prog", "name": format!("{name} (tokens re-joined)"), "ts": ts, "expect": "Program"}));
        if ts.len() <= max_tokens && !ts.is_empty() {
            rows.push(json!({"suite": "mut", "ctx": "plain", "ts": ts, "name": name, "expect": "Program"}));
        }
    }
    let (rep, rr) = run_and_judge("corpus", dir, &cases, &cx);
    let acc = format!("{dir}/accepted.ndjson");
    if Path::new(&acc).exists() {
        rows.extend(read_ndjson(&acc));
    }
    let mut f = std::io::BufWriter::new(fs::File::create(format!("{dir}/mut_in.ndjson")).unwrap());
    for (i, r) in rows.iter().enumerate() {
        let mut r = r.clone();
        r["id"] = json!(i + 1);
        writeln!(f, "{}", serde_json::to_string(&r).unwrap()).unwrap();
    }
    let positions: usize = rows.iter().map(|r| r["ts"].as_array().unwrap().len()).sum();
    finish(&rep, &rr, json!({"corpus_files": files.len(), "bases": rows.len(), "positions": positions}))
}

fn apply_mutation(ts: &[String], op: &str, p: usize, t: &str) -> Vec<String> {
    let mut r = ts.to_vec();
    match op {
        "del" => {
            r.remove(p - 1);
        }
        "dup" => r.insert(p - 1, ts[p - 1].clone()),
        "rep" => r[p - 1] = t.to_string(),
        other => panic!("unknown mutation {other}"),
    }
    r
}

/// vh total mut <dir>: apply the specification's mutations (syntax_mut.ndjson: i, op, p, t, and for
/// a sample the specification's own result r) to the bases of mut_in.ndjson and run them
fn mutate(args: &[String]) -> Value {
    let dir = &args[0];
    let cx = load_contexts(dir);
    let bases = read_ndjson(&format!("{dir}/mut_in.ndjson"));
    let muts = read_ndjson(&format!("{dir}/syntax_mut.ndjson"));
    let mut cases = Vec::with_capacity(muts.len());
    let (mut cross, mut cross_bad) = (0u64, vec![]);
    let mut per_op: BTreeMap<String, u64> = BTreeMap::new();
    for m in &muts {
        let i = m["i"].as_u64().unwrap() as usize;
        let base = &bases[i - 1];
        let ts = toks(&base["ts"]);
        let (op, p, t) = (m["op"].as_str().unwrap(), m["p"].as_u64().unwrap() as usize, m["t"].as_str().unwrap_or(""));
        let r = apply_mutation(&ts, op, p, t);
        *per_op.entry(op.to_string()).or_insert(0) += 1;
        if m.get("r").is_some_and(|r| r.is_array()) {
            cross += 1;
            let spec_r = toks(&m["r"]);
            if spec_r != r && cross_bad.len() < 5 {
                let at = spec_r.iter().zip(&r).position(|(a, b)| a != b).unwrap_or(spec_r.len().min(r.len()));
                cross_bad.push(json!({"base": i, "op": op, "p": p, "t": t, "first_difference_at": at,
                    "spec": spec_r.get(at), "harness": r.get(at), "spec_len": spec_r.len(), "harness_len": r.len()}));
            }
        }
        cases.push(json!({"suite": "mut", "ctx": base["ctx"], "ts": r, "name": base["name"], "form": base["form"],
                          "mutation": {"base": i, "op": op, "p": p, "t": t}, "expect": "any"}));
    }
    let (rep, rr) = run_and_judge("mut", dir, &cases, &cx);
    finish(&rep, &rr, json!({"mutants": cases.len(), "per_op": per_op, "cross_checked_against_spec": cross,
                             "cross_check_mismatches": cross_bad}))
}

/// vh total bytes <corpus_dir> <dir> <per_file>: seeded random byte / char mutations of corpus programs
fn bytes(args: &[String]) -> Value {
    let (cdir, dir) = (&args[0], &args[1]);
    let per_file: usize = args.get(2).and_then(|s| s.parse().ok()).unwrap_or(200);
    let cx = load_contexts(dir);
    let mut rng = Rng::from_env(0xB17E5);
    let odd: Vec<char> = vec!['\0', '\u{1}', '\u{7f}', '\t', '\r', '\n', '\u{b}', '\u{85}', '\u{a0}', 'é', 'ß', 'ł', '→', '∀',
        '\u{200b}', '\u{2028}', '\u{feff}', '😀', '𝔘', '\u{10ffff}', '"', '\\', '\'', '`', '#', '$', '@', '~', '?', '!', '|', '&',
        '{', '}', '(', ')', '[', ']', ';', ':', ',', '.', '=', '<', '>', '+', '-', '*', '/', '%', '^', '0', '9', '_', 'e', 'x'];
    let mut cases = vec![];
    for (name, text) in corpus_files(cdir) {
        let chars: Vec<char> = text.chars().collect();
        if chars.is_empty() {
            continue;
        }
        for k in 0..per_file {
            let mut c = chars.clone();
            let edits = 1 + rng.below(3);
            let mut what = vec![];
            for _ in 0..edits {
                if c.is_empty() {
                    break;
                }
                let p = rng.below(c.len());
                match rng.below(6) {
                    0 => {
                        c.remove(p);
                        what.push(format!("del@{p}"));
                    }
                    1 => {
                        let x = *rng.pick(&odd);
                        c.insert(p, x);
                        what.push(format!("ins@{p}:{:?}", x));
                    }
                    2 => {
                        let x = *rng.pick(&odd);
                        c[p] = x;
                        what.push(format!("rep@{p}:{:?}", x));
                    }
                    3 => {
                        // byte-level: flip one bit of the UTF-8 encoding; keep the text valid UTF-8 (lossy)
                        let mut b: Vec<u8> = c.iter().collect::<String>().into_bytes();
                        let q = rng.below(b.len());
                        b[q] ^= 1 << rng.below(8);
                        c = String::from_utf8_lossy(&b).chars().collect();
                        what.push(format!("bitflip@byte{q}"));
                    }
                    4 => {
                        let q = rng.below(c.len());
                        c.swap(p, q);
                        what.push(format!("swap@{p},{q}"));
                    }
                    _ => {
                        c.truncate(p);
                        what.push(format!("truncate@{p}"));
                    }
                }
            }
            let t: String = c.into_iter().collect();
            cases.push(json!({"suite": "text", "name": format!("{name}#{k}"), "text": t, "apis": if k % 8 == 0 { "all" } else { "code" },
                              "mutation": what, "expect": "any"}));
        }
    }
    let (rep, rr) = run_and_judge("bytes", dir, &cases, &cx);
    finish(&rep, &rr, json!({"byte_mutants": cases.len()}))
}

/// vh total one <api> <text>: one run in-process, for reproducing a finding by hand
fn one(args: &[String]) -> Value {
    install_hook();
    make_scratch();
    let plain = Interpreter::with_stdlib();
    let text = if args[1] == "-" { std::io::read_to_string(std::io::stdin()).unwrap() } else { args[1].clone() };
    let o = if args[0] == "host" {
        let cx = load_contexts(&args[2]);
        let host = host_interpreter(&cx);
        run_one("host", &text, &plain, &host)
    } else {
        run_one(&args[0], &text, &plain, &plain)
    };
    json!({"outcome": o.code(), "detail": format!("{o:?}")})
}

/// vh total lex <file>: the token sequence of a file (debugging aid)
fn lex_cmd(args: &[String]) -> Value {
    json!(lex(&fs::read_to_string(&args[0]).unwrap()))
}

pub fn run(args: &[String]) -> Value {
    let Some(cmd) = args.first() else {
        return json!({"error": "usage: vh total gen|corpus|mut|bytes|one|lex|worker ..."});
    };
    match cmd.as_str() {
        "worker" => worker(&args[1..]),
        "gen" => gen_cmd(&args[1..]),
        "corpus" => corpus(&args[1..]),
        "mut" => mutate(&args[1..]),
        "bytes" => bytes(&args[1..]),
        "one" => one(&args[1..]),
        "lex" => lex_cmd(&args[1..]),
        other => json!({"error": format!("unknown sub-command {other}")}),
    }
}
