//! `vh api <dir>`: the embedding API against spec/MC_C17.tla — REPL vs batch for every split of every
//! session, exec isolation / repeatability, host calls (`Function::create_call`) vs in-language calls.
use crate::lang::{diff_value, error_kind, exec_error_kind};
use crate::render::Renderer;
use crate::util::{catch, read_ndjson, Mismatches};
use crate::wire::*;
use serde_json::{Value, json};
use simplesl::{Code, Interpreter, variable::Variable};

const NAMES: [&str; 31] = ["x", "c", "f", "g", "ps", "rp", "inc", "ts", "ta", "sp", "sq", "se", "y", "z", "a", "p", "q", "r", "w", "it", "n", "u", "ua", "tt", "default", "ints", "dd", "bf", "bb", "lv", "h_0"];

#[derive(Clone, Debug, PartialEq)]
enum Out {
    Value(Value),
    Rejected(String),
    Error(String),
    Panic(String),
}

fn feed(interp: &mut Interpreter, text: &str) -> Out {
    let code = match catch(|| Code::parse(interp, text)) {
        Err(p) => return Out::Panic(format!("parse: {p}")),
        Ok(Err(e)) => return Out::Rejected(error_kind(&e)),
        Ok(Ok(c)) => c,
    };
    match catch(|| code.exec_unscoped(interp)) {
        Err(p) => Out::Panic(p),
        Ok(Err(e)) => Out::Error(exec_error_kind(&e).to_string()),
        Ok(Ok(v)) => {
            let mut ids = Ids::default();
            Out::Value(value_to_wire(&v, &mut ids, 0))
        }
    }
}

/// canonical description of the named top-level variables (cells by content, functions by signature)
fn snapshot(interp: &Interpreter) -> Value {
    let mut m = serde_json::Map::new();
    for n in NAMES {
        if let Some(v) = interp.get_variable(n) {
            let mut ids = Ids::default();
            m.insert(n.to_string(), strip_ids(&value_to_wire(v, &mut ids, 0)));
        }
    }
    Value::Object(m)
}

fn strip_ids(v: &Value) -> Value {
    match v {
        Value::Object(o) => Value::Object(o.iter().filter(|(k, _)| k.as_str() != "id").map(|(k, x)| (k.clone(), strip_ids(x))).collect()),
        Value::Array(a) => Value::Array(a.iter().map(strip_ids).collect()),
        x => x.clone(),
    }
}

fn identity(interp: &Interpreter) -> Vec<(String, String)> {
    NAMES
        .iter()
        .filter_map(|n| interp.get_variable(n).map(|v| (n.to_string(), match v {
            Variable::Mut(c) => format!("cell@{:p}", std::sync::Arc::as_ptr(c)),
            Variable::Function(f) => format!("fn@{:p}", std::sync::Arc::as_ptr(f)),
            Variable::Array(a) => format!("arr@{:p}", std::sync::Arc::as_ptr(a)),
            other => format!("{other:?}"),
        })))
        .collect()
}

pub fn run(args: &[String]) -> Value {
    let dir = &args[0];
    let mut mm = Mismatches::new(300);
    let mut n_repl = 0u64;
    let mut n_compared = 0u64;
    let mut n_sessions = 0u64;
    let mut samples = vec![];
    for case in read_ndjson(&format!("{dir}/c17_sessions.ndjson")) {
        n_sessions += 1;
        let stmts = case["stmts"].as_array().unwrap();
        let n = stmts.len();
        let mut rd = Renderer::new();
        let texts: Vec<String> = stmts.iter().map(|s| rd.stmts(std::slice::from_ref(s), 0)).collect();
        let prelude = rd.prelude(false);
        // batch route for every prefix
        let mut batch: Vec<(Out, Value)> = vec![];
        for p in 1..=n {
            let mut interp = Interpreter::without_stdlib();
            let text = format!("{prelude}{}", texts[..p].concat());
            let o = feed(&mut interp, &text);
            batch.push((o, snapshot(&interp)));
        }
        // batch vs specification
        for p in 1..=n {
            let spec = &case["prefixes"][p - 1];
            let st = spec["status"].as_str().unwrap();
            match (&batch[p - 1].0, st) {
                (Out::Value(v), "value") => {
                    let mut d = vec![];
                    diff_value(&spec["v"], v, "result", &mut d);
                    for w in spec["vars"].as_array().unwrap() {
                        let name = w["n"].as_str().unwrap();
                        match batch[p - 1].1.get(name) {
                            Some(g) => diff_value(&w["v"], g, name, &mut d),
                            None if !NAMES.contains(&name) => panic!("harness error: the session pool binds `{name}`, which api.rs does not watch (add it to NAMES)"),
                            None => d.push(format!("{name} unbound")),
                        }
                    }
                    d.retain(|x| !x.contains(": TAG "));
                    if !d.is_empty() {
                        mm.push("batch-vs-spec", json!({"id": case["id"], "prefix": p, "program": texts[..p].concat(), "what": d.join("; ")}));
                    }
                }
                (Out::Error(k), "error") if spec["v"].as_str() == Some(k.as_str()) => {}
                (Out::Rejected(_), "stuck") | (Out::Rejected(_), "rejected") | (_, "inconclusive") => {}
                (Out::Panic(m), _) => mm.push("panic", json!({"id": case["id"], "prefix": p, "program": texts[..p].concat(), "what": m})),
                (o, s) => mm.push("batch-vs-spec", json!({"id": case["id"], "prefix": p, "program": texts[..p].concat(),
                    "what": format!("specification: {s} {}, implementation: {o:?}", spec["v"])})),
            }
        }
        // REPL route for every split (composition of n)
        for mask in 0..(1u32 << (n - 1)) {
            let mut interp = Interpreter::without_stdlib();
            if !prelude.is_empty() {
                feed(&mut interp, &prelude);
            }
            let mut start = 0;
            let mut alive = true;
            for end in 1..=n {
                let cut = end == n || (mask >> (end - 1)) & 1 == 1;
                if !cut {
                    continue;
                }
                let chunk = texts[start..end].concat();
                start = end;
                if !alive {
                    break;
                }
                n_repl += 1;
                let before = identity(&interp);
                let o = feed(&mut interp, &chunk);
                if let Out::Rejected(_) = &o {
                    // an input the checker refuses must leave the interpreter exactly as it was
                    let after = identity(&interp);
                    if before != after {
                        mm.push("rejected-input-modifies-interpreter", json!({"id": case["id"], "split": mask, "input": chunk,
                            "what": format!("{before:?} -> {after:?}")}));
                    }
                }
                match (&o, &batch[end - 1].0) {
                    (Out::Panic(m), _) => {
                        mm.push("panic", json!({"id": case["id"], "split": mask, "input": chunk, "what": m}));
                        alive = false;
                    }
                    (Out::Value(rv), Out::Value(bv)) => {
                        n_compared += 1;
                        let snap = snapshot(&interp);
                        if strip_ids(rv) != strip_ids(bv) {
                            mm.push("repl-vs-batch", json!({"id": case["id"], "split": mask, "prefix": end, "program": texts[..end].concat(),
                                "what": format!("last result differs: REPL {rv}, batch {bv}")}));
                        } else if snap != batch[end - 1].1 {
                            mm.push("repl-vs-batch", json!({"id": case["id"], "split": mask, "prefix": end, "program": texts[..end].concat(),
                                "what": format!("top-level variables differ: REPL {snap}, batch {}", batch[end - 1].1)}));
                        }
                    }
                    (Out::Value(_), _) => {} // batch did not complete: not compared
                    _ => alive = false,       // REPL input rejected or failed: the rest is not compared
                }
            }
        }
        // exec(): isolated and repeatable (whole session as one program against a host that holds the helper)
        {
            let mut host = Interpreter::without_stdlib();
            if !prelude.is_empty() {
                feed(&mut host, &prelude);
            }
            feed(&mut host, "x := 40; c := mut 2;");
            let before = identity(&host);
            let text = texts.concat();
            if let Ok(Ok(code)) = catch(|| Code::parse(&host, &text)) {
                let run = |code: &Code| match catch(|| code.exec()) {
                    Err(p) => Out::Panic(p),
                    Ok(Err(e)) => Out::Error(exec_error_kind(&e).to_string()),
                    Ok(Ok(v)) => { let mut ids = Ids::default(); Out::Value(strip_ids(&value_to_wire(&v, &mut ids, 0))) }
                };
                let host_c_before = snapshot(&host)["c"].clone();
                let r1 = run(&code);
                let after = identity(&host);
                if before != after {
                    mm.push("exec-modifies-interpreter", json!({"id": case["id"], "program": text, "what": format!("{before:?} -> {after:?}")}));
                }
                // repeatability is only demanded when the program left the host's cell alone
                let host_c_after = snapshot(&host)["c"].clone();
                let r2 = run(&code);
                if let Out::Panic(m) = &r1 {
                    mm.push("panic", json!({"id": case["id"], "program": text, "what": m}));
                } else if host_c_before == host_c_after && r1 != r2 {
                    mm.push("exec-not-repeatable", json!({"id": case["id"], "program": text, "what": format!("{r1:?} then {r2:?}")}));
                }
            }
        }
        if samples.len() < 3 && n == 3 {
            samples.push(json!({"session": texts, "batch_outcomes": batch.iter().map(|b| format!("{:?}", b.0)).collect::<Vec<_>>()}));
        }
    }
    // host calls
    let mut n_host = 0u64;
    for hc in read_ndjson(&format!("{dir}/c17_hostcalls.ndjson")) {
        n_host += 1;
        let mut rd = Renderer::new();
        let decl = rd.stmts(std::slice::from_ref(&hc["decl"]), 0);
        let arg_texts: Vec<String> = hc["args"].as_array().unwrap().iter().map(|a| rd.expr(a)).collect();
        let fname = hc["fname"].as_str().unwrap();
        let mut interp = Interpreter::without_stdlib();
        if let Out::Panic(m) = feed(&mut interp, &decl) {
            mm.push("panic", json!({"id": hc["id"], "what": m}));
            continue;
        }
        let Some(Variable::Function(f)) = interp.get_variable(fname).cloned() else {
            mm.push("host", json!({"id": hc["id"], "what": "function not bound after its declaration"}));
            continue;
        };
        let mut argv = vec![];
        for t in &arg_texts {
            let mut scratch = Interpreter::without_stdlib();
            match Code::parse(&scratch, t).ok().and_then(|c| c.exec_unscoped(&mut scratch).ok()) {
                Some(v) => argv.push(v),
                None => {}
            }
        }
        if argv.len() != arg_texts.len() {
            continue;
        }
        let spec_accept = hc["accept"].as_bool().unwrap();
        let host = catch(|| f.clone().create_call(argv.clone()));
        let host_accept = matches!(host, Ok(Ok(_)));
        let call_text = format!("{fname}({})", arg_texts.join(", "));
        let lang_parse = catch(|| Code::parse(&interp, &call_text));
        let lang_accept = matches!(lang_parse, Ok(Ok(_)));
        if let Err(p) = &host {
            mm.push("panic", json!({"id": hc["id"], "call": call_text, "what": format!("create_call panicked: {p}")}));
            continue;
        }
        if host_accept != spec_accept {
            mm.push("host", json!({"id": hc["id"], "call": call_text, "what": format!("create_call accepts: {host_accept}, specification: {spec_accept}")}));
        }
        if host_accept != lang_accept {
            mm.push("host", json!({"id": hc["id"], "call": call_text, "what": format!("create_call accepts: {host_accept}, in-language call accepted: {lang_accept}")}));
        }
        if host_accept && lang_accept {
            let hres = match catch(|| host.unwrap().unwrap().exec()) {
                Err(p) => Out::Panic(p),
                Ok(Err(e)) => Out::Error(exec_error_kind(&e).to_string()),
                Ok(Ok(v)) => { let mut ids = Ids::default(); Out::Value(strip_ids(&value_to_wire(&v, &mut ids, 0))) }
            };
            let lres = match feed(&mut interp, &call_text) {
                Out::Value(v) => Out::Value(strip_ids(&v)),
                o => o,
            };
            if hres != lres {
                mm.push("host", json!({"id": hc["id"], "call": call_text, "what": format!("host call returned {hres:?}, in-language call {lres:?}")}));
            }
            // the call run UNSCOPED into a host interpreter of its own: same result, and nothing the callee binds (its own
            // name, its parameters, its locals) is left behind in that interpreter; names the host had stay what they were
            if let Ok(Ok(code)) = catch(|| f.clone().create_call(argv.clone())) {
                let mut own = Interpreter::without_stdlib();
                let params: Vec<String> = hc["decl"]["ps"].as_array().map(|ps| ps.iter().map(|p| p["n"].as_str().unwrap_or("").to_string()).collect()).unwrap_or_default();
                let mut watched: Vec<String> = params.clone();
                watched.push(fname.to_string());
                for n in &watched {
                    own.insert(n.as_str().into(), Variable::String("host".into()));
                }
                let ures = match catch(|| code.exec_unscoped(&mut own)) {
                    Err(p) => Out::Panic(p),
                    Ok(Err(e)) => Out::Error(exec_error_kind(&e).to_string()),
                    Ok(Ok(v)) => { let mut ids = Ids::default(); Out::Value(strip_ids(&value_to_wire(&v, &mut ids, 0))) }
                };
                if ures != hres {
                    mm.push("host", json!({"id": hc["id"], "call": call_text, "what": format!("exec() returned {hres:?}, exec_unscoped() {ures:?}")}));
                }
                for n in &watched {
                    if !matches!(own.get_variable(n), Some(Variable::String(s)) if &**s == "host") {
                        mm.push("host", json!({"id": hc["id"], "call": call_text, "what": format!("the host interpreter's own `{n}` was overwritten by a host call run unscoped: {:?}", own.get_variable(n))}));
                    }
                }
                for n in ["u", "n", "y", "e", "acc"] {
                    if own.get_variable(n).is_some() && !watched.iter().any(|w| w == n) {
                        mm.push("host", json!({"id": hc["id"], "call": call_text, "what": format!("a local `{n}` of the callee is bound in the host interpreter after a host call run unscoped")}));
                    }
                }
            }
            match (&hres, hc["status"].as_str().unwrap()) {
                (Out::Value(v), "value") => {
                    let mut d = vec![];
                    diff_value(&hc["v"], v, "result", &mut d);
                    d.retain(|x| !x.contains(": TAG "));
                    if !d.is_empty() {
                        mm.push("host", json!({"id": hc["id"], "call": call_text, "what": d.join("; ")}));
                    }
                }
                (Out::Error(k), "error") if hc["v"].as_str() == Some(k.as_str()) => {}
                (_, "inconclusive") => {}
                (Out::Panic(m), _) => mm.push("panic", json!({"id": hc["id"], "call": call_text, "what": m})),
                (o, s) => mm.push("host", json!({"id": hc["id"], "call": call_text, "what": format!("specification: {s}, host call: {o:?}")})),
            }
        }
    }
    json!({"sessions": n_sessions, "repl_inputs": n_repl, "prefix_comparisons": n_compared, "host_calls": n_host,
        "mismatch_counts": mm.counts(), "mismatches": mm.items(), "samples": samples})
}
