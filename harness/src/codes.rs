//! `vh codes <pool.ndjson> <behaviours.ndjson>`: replays the behaviours of spec/MC_Codes.tla in THIS process: Parse(j) makes a
//! fresh Code of program j (replacing the one held), Exec(j) runs the held Code scoped (Code::exec), ExecInto(j) runs it unscoped
//! into one host interpreter that lives as long as the behaviour.  Every execution must yield the specification's constant
//! answer for program j; the interpreter the codes are parsed against must stay empty.
use crate::lang::diff_value;
use crate::render::Renderer;
use crate::util::{Mismatches, catch, read_ndjson};
use crate::wire::{Ids, value_to_wire};
use serde_json::{Value, json};
use simplesl::{Code, Interpreter};

pub fn run(args: &[String]) -> Value {
    let pool = read_ndjson(&args[0]);
    let rows = read_ndjson(&args[1]);
    let texts: Vec<String> = pool.iter().map(|c| Renderer::new().program(c["prog"].as_array().unwrap())).collect();
    let mut mm = Mismatches::new(60);
    let (mut parses, mut runs) = (0u64, 0u64);
    let mut samples = vec![];
    // the interpreter every Code is parsed against: exec / exec_unscoped into ANOTHER interpreter never modify it
    let parse_against = Interpreter::without_stdlib();
    for (bi, row) in rows.iter().enumerate() {
        let steps = row.as_array().expect("a behaviour is a list of steps");
        let mut held: Vec<Option<Code>> = (0..pool.len()).map(|_| None).collect();
        let mut host = Interpreter::without_stdlib();
        let mut shown: Vec<String> = vec![];
        for (si, st) in steps.iter().enumerate() {
            let j = st["j"].as_u64().unwrap() as usize - 1;
            let a = st["a"].as_str().unwrap();
            shown.push(format!("{a} {}", j + 1));
            let base = json!({"behaviour": bi, "step": si, "history": shown, "program": texts[j], "expected": pool[j]["exp"]});
            if a == "parse" {
                parses += 1;
                match catch(|| Code::parse(&parse_against, &texts[j])) {
                    Ok(Ok(c)) => held[j] = Some(c),
                    Ok(Err(e)) => {
                        let mut b = base.clone();
                        b["what"] = json!(format!("refused: {e}"));
                        mm.push("rejected", b);
                        break;
                    }
                    Err(p) => {
                        let mut b = base.clone();
                        b["what"] = json!(format!("panic while parsing: {p}"));
                        mm.push("panic", b);
                        break;
                    }
                }
                continue;
            }
            let Some(code) = held[j].as_ref() else { panic!("behaviour executes a program that was not parsed") };
            runs += 1;
            let out = if a == "exec" { catch(|| code.exec()) } else { catch(|| code.exec_unscoped(&mut host)) };
            match out {
                Err(p) => {
                    let mut b = base.clone();
                    b["what"] = json!(format!("panic: {p}"));
                    mm.push("panic", b);
                }
                Ok(Err(e)) => {
                    let mut b = base.clone();
                    b["what"] = json!(format!("run-time error {e:?}"));
                    mm.push("outcome", b);
                }
                Ok(Ok(v)) => {
                    let mut ids = Ids::default();
                    let got = value_to_wire(&v, &mut ids, 0);
                    let mut diffs = vec![];
                    diff_value(&pool[j]["exp"]["v"], &got, "result", &mut diffs);
                    diffs.retain(|d| !d.contains(": TAG "));
                    if !diffs.is_empty() {
                        let mut b = base.clone();
                        b["what"] = json!(diffs.join("; "));
                        b["observed"] = got;
                        mm.push("history-dependent", b);
                    } else if samples.len() < 2 && bi % 577 == 5 {
                        samples.push(json!({"history": shown, "program": texts[j], "expected": pool[j]["exp"]["v"], "observed": format!("{v:?}")}));
                    }
                }
            }
        }
        if parse_against.get_variable("log").is_some() || parse_against.get_variable("c").is_some() {
            mm.push("parse-interpreter-modified", json!({"behaviour": bi, "history": shown}));
        }
    }
    json!({"behaviours": rows.len(), "programs": pool.len(), "parses": parses, "runs": runs,
        "mismatch_counts": mm.counts(), "mismatches": mm.items(), "samples": samples})
}
