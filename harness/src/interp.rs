//! `vh interp <tlc-output>`: behaviours of spec/MC_Interp.tla (printed as <<"HIST", json>>) replayed through the
//! real `simplesl::Interpreter` scope API: insert / create_layer / drop_layer / get_variable.
use crate::util::Mismatches;
use serde_json::{Value, json};
use simplesl::{Interpreter, variable::Variable};

fn run(interp: &mut Interpreter, ops: &[Value], idx: &mut usize, mm: &mut Mismatches, hist: &Value, checks: &mut u64) {
    while *idx < ops.len() {
        let op = &ops[*idx];
        *idx += 1;
        let check_table = |interp: &Interpreter, op: &Value, step: usize, mm: &mut Mismatches, checks: &mut u64| {
            if let Some(tab) = op["tab"].as_object() {
                for (name, v) in tab {
                    *checks += 1;
                    let got = interp.get_variable(name).and_then(|x| x.as_int().copied()).unwrap_or(0);
                    if got != v.as_i64().unwrap() {
                        mm.push("table", json!({"history": hist, "step": step, "name": name, "expected": v, "got": got}));
                    }
                }
            }
        };
        match op["op"].as_str().unwrap() {
            "insert" => {
                interp.insert(op["n"].as_str().unwrap().into(), Variable::Int(op["v"].as_i64().unwrap()));
                check_table(interp, op, *idx, mm, checks);
            }
            "get" => {
                *checks += 1;
                let got = interp.get_variable(op["n"].as_str().unwrap()).and_then(|v| v.as_int().copied()).unwrap_or(0);
                if got != op["v"].as_i64().unwrap() {
                    mm.push("get", json!({"history": hist, "step": *idx, "expected": op["v"], "got": got}));
                }
            }
            "create" => {
                let mut child = interp.create_layer();
                check_table(&child, op, *idx, mm, checks);
                run(&mut child, ops, idx, mm, hist, checks);
                // the step that ended the child's run (if any) was its drop: compare what it hands back
                let own = child.drop_layer();
                if *idx <= ops.len() && *idx > 0 && ops[*idx - 1]["op"] == "drop" && ops[*idx - 1].get("_done").is_none() {
                    let expected = &ops[*idx - 1]["names"];
                    let mut names: Vec<String> = own.keys().map(|k| k.to_string()).collect();
                    names.sort();
                    let mut exp: Vec<String> = expected.as_array().map(|a| a.iter().map(|x| x.as_str().unwrap().to_string()).collect()).unwrap_or_default();
                    exp.sort();
                    *checks += 1;
                    if names != exp {
                        mm.push("drop", json!({"history": hist, "step": *idx, "expected": exp, "got": names}));
                    }
                    check_table(interp, &ops[*idx - 1], *idx, mm, checks);
                    for (k, v) in own.iter() {
                        let e = ops[*idx - 1]["own"].get(&**k).and_then(Value::as_i64);
                        if v.as_int().copied() != e {
                            mm.push("drop", json!({"history": hist, "step": *idx, "name": &**k, "expected": e, "got": format!("{v:?}")}));
                        }
                    }
                }
            }
            "drop" => return,
            _ => {}
        }
    }
}

pub fn run_file(args: &[String]) -> Value {
    let text = std::fs::read_to_string(&args[0]).unwrap();
    let mut mm = Mismatches::new(100);
    let mut n = 0u64;
    let mut checks = 0u64;
    let mut sample = Value::Null;
    for line in text.lines() {
        let Some(rest) = line.strip_prefix("<<\"HIST\", \"") else { continue };
        let Some(body) = rest.strip_suffix("\">>") else { continue };
        let unescaped = body.replace("\\\"", "\"").replace("\\\\", "\\");
        let hist: Value = serde_json::from_str(&unescaped).unwrap();
        n += 1;
        if n == 200 {
            sample = hist.clone();
        }
        let ops = hist.as_array().unwrap().clone();
        let mut root = Interpreter::without_stdlib();
        let mut idx = 0;
        run(&mut root, &ops, &mut idx, &mut mm, &hist, &mut checks);
    }
    json!({"behaviours": n, "checks": checks, "mismatch_counts": mm.counts(), "mismatches": mm.items(), "sample": sample})
}
