//! Wire formats shared with the TLA+ specifications (DESIGN.md appendix A): conversion between
//! JSON and the implementation's `Type` / `Variable`, canonical forms for comparison, and the
//! harness' own type printer (trusted base: it follows docs' grammar, not the code's Display).
use serde_json::{Value, json};
use simplesl::{
    ExecError, Interpreter,
    function::{Function, Param, Params},
    variable::{Array, FunctionType, Mut, StructType, Type, Typed, Variable},
};
use std::{
    collections::HashMap,
    sync::{Arc, RwLock},
};

pub fn k(v: &Value) -> &str {
    v.get("k").and_then(Value::as_str).unwrap_or("?")
}

fn arr<'a>(v: &'a Value, key: &str) -> &'a [Value] {
    v.get(key).and_then(Value::as_array).map(Vec::as_slice).unwrap_or(&[])
}

pub fn fields_of(v: &Value) -> Vec<(String, Value)> {
    fields(v)
}

/// struct fields arrive as [[name, x], ...] (or as a JSON object)
fn fields(v: &Value) -> Vec<(String, Value)> {
    match v.get("fs") {
        Some(Value::Array(items)) => items
            .iter()
            .map(|p| (p[0].as_str().unwrap().to_string(), p[1].clone()))
            .collect(),
        Some(Value::Object(map)) => map.iter().map(|(k, v)| (k.clone(), v.clone())).collect(),
        _ => vec![],
    }
}

// ------------------------------------------------------------------ types

/// Build a `Type` with the implementation's constructors (unions through `|`).
pub fn type_from_wire(v: &Value) -> Type {
    match k(v) {
        "bool" => Type::Bool,
        "int" => Type::Int,
        "float" => Type::Float,
        "string" => Type::String,
        "void" => Type::Void,
        "any" => Type::Any,
        "never" => Type::Never,
        "array" => Type::Array(Arc::new(type_from_wire(&v["e"]))),
        "mut" => Type::Mut(Arc::new(type_from_wire(&v["e"]))),
        "tuple" => Type::Tuple(arr(v, "es").iter().map(type_from_wire).collect()),
        "fn" => Type::Function(Arc::new(FunctionType {
            params: arr(v, "ps").iter().map(type_from_wire).collect(),
            return_type: type_from_wire(&v["r"]),
        })),
        "struct" => {
            let tm: HashMap<Arc<str>, Type> = fields(v)
                .into_iter()
                .map(|(name, t)| (Arc::from(name.as_str()), type_from_wire(&t)))
                .collect();
            Type::Struct(StructType(Arc::new(tm)))
        }
        "multi" => arr(v, "ms")
            .iter()
            .map(type_from_wire)
            .reduce(|a, b| a | b)
            .expect("empty union on the wire"),
        other => panic!("unknown type kind on the wire: {other}"),
    }
}

/// Same, with the members of every union and the fields of every struct taken in the order
/// given by `rot` (a rotation), so that different calls exercise different insertion orders.
pub fn type_from_wire_rot(v: &Value, rot: usize) -> Type {
    match k(v) {
        "array" => Type::Array(Arc::new(type_from_wire_rot(&v["e"], rot))),
        "mut" => Type::Mut(Arc::new(type_from_wire_rot(&v["e"], rot))),
        "tuple" => Type::Tuple(arr(v, "es").iter().map(|t| type_from_wire_rot(t, rot)).collect()),
        "fn" => Type::Function(Arc::new(FunctionType {
            params: arr(v, "ps").iter().map(|t| type_from_wire_rot(t, rot)).collect(),
            return_type: type_from_wire_rot(&v["r"], rot),
        })),
        "struct" => {
            let mut fs = fields(v);
            if !fs.is_empty() {
                let r = rot % fs.len();
                fs.rotate_left(r);
            }
            let mut tm: HashMap<Arc<str>, Type> = HashMap::new();
            for (name, t) in fs {
                tm.insert(Arc::from(name.as_str()), type_from_wire_rot(&t, rot));
            }
            Type::Struct(StructType(Arc::new(tm)))
        }
        "multi" => {
            let mut ms: Vec<&Value> = arr(v, "ms").iter().collect();
            let r = rot % ms.len();
            ms.rotate_left(r);
            ms.into_iter()
                .map(|t| type_from_wire_rot(t, rot))
                .reduce(|a, b| a | b)
                .unwrap()
        }
        _ => type_from_wire(v),
    }
}

/// Canonical wire form of an implementation type (union members and struct fields sorted).
pub fn type_to_wire(t: &Type) -> Value {
    match t {
        Type::Bool => json!({"k": "bool"}),
        Type::Int => json!({"k": "int"}),
        Type::Float => json!({"k": "float"}),
        Type::String => json!({"k": "string"}),
        Type::Void => json!({"k": "void"}),
        Type::Any => json!({"k": "any"}),
        Type::Never => json!({"k": "never"}),
        Type::Array(e) => json!({"k": "array", "e": type_to_wire(e)}),
        Type::Mut(e) => json!({"k": "mut", "e": type_to_wire(e)}),
        Type::Tuple(es) => json!({"k": "tuple", "es": es.iter().map(type_to_wire).collect::<Vec<_>>()}),
        Type::Function(f) => json!({"k": "fn",
            "ps": f.params.iter().map(type_to_wire).collect::<Vec<_>>(),
            "r": type_to_wire(&f.return_type)}),
        Type::Struct(s) => {
            let mut fs: Vec<(String, Value)> =
                s.0.iter().map(|(name, t)| (name.to_string(), type_to_wire(t))).collect();
            fs.sort_by(|a, b| a.0.cmp(&b.0));
            json!({"k": "struct", "fs": fs.into_iter().map(|(n, t)| json!([n, t])).collect::<Vec<_>>()})
        }
        Type::Multi(m) => {
            let mut ms: Vec<Value> = m.iter().map(type_to_wire).collect();
            ms.sort_by_key(|v| v.to_string());
            json!({"k": "multi", "ms": ms})
        }
    }
}

/// Canonicalise a wire type coming from the specification (sort unions / struct fields).
pub fn canon_type(v: &Value) -> Value {
    match k(v) {
        "array" | "mut" => json!({"k": k(v), "e": canon_type(&v["e"])}),
        "tuple" => json!({"k": "tuple", "es": arr(v, "es").iter().map(canon_type).collect::<Vec<_>>()}),
        "fn" => json!({"k": "fn", "ps": arr(v, "ps").iter().map(canon_type).collect::<Vec<_>>(),
                        "r": canon_type(&v["r"])}),
        "struct" => {
            let mut fs: Vec<(String, Value)> =
                fields(v).into_iter().map(|(n, t)| (n, canon_type(&t))).collect();
            fs.sort_by(|a, b| a.0.cmp(&b.0));
            json!({"k": "struct", "fs": fs.into_iter().map(|(n, t)| json!([n, t])).collect::<Vec<_>>()})
        }
        "multi" => {
            let mut ms: Vec<Value> = arr(v, "ms").iter().map(canon_type).collect();
            ms.sort_by_key(|v| v.to_string());
            ms.dedup();
            json!({"k": "multi", "ms": ms})
        }
        other => json!({"k": other}),
    }
}

/// The harness' printer: the text docs/README prescribe for a type, with union members and
/// struct fields in the given rotation. Unions are parenthesised inside `mut` and function results.
pub fn type_text(v: &Value, rot: usize) -> String {
    fn paren_if_multi(v: &Value, rot: usize) -> String {
        if k(v) == "multi" { format!("({})", type_text(v, rot)) } else { type_text(v, rot) }
    }
    match k(v) {
        "bool" | "int" | "float" | "string" | "any" => k(v).to_string(),
        "void" => "()".into(),
        "never" => "!".into(),
        "array" => {
            if k(&v["e"]) == "never" { "[]".into() } else { format!("[{}]", type_text(&v["e"], rot)) }
        }
        "mut" => format!("mut {}", paren_if_multi(&v["e"], rot)),
        "tuple" => format!(
            "({})",
            arr(v, "es").iter().map(|t| type_text(t, rot)).collect::<Vec<_>>().join(", ")
        ),
        "fn" => format!(
            "({})->{}",
            arr(v, "ps").iter().map(|t| type_text(t, rot)).collect::<Vec<_>>().join(", "),
            paren_if_multi(&v["r"], rot)
        ),
        "struct" => {
            let mut fs = fields(v);
            if !fs.is_empty() {
                let r = rot % fs.len();
                fs.rotate_left(r);
            }
            format!(
                "struct{{{}}}",
                fs.iter().map(|(n, t)| format!("{n}: {}", type_text(t, rot))).collect::<Vec<_>>().join(", ")
            )
        }
        "multi" => {
            let mut ms: Vec<&Value> = arr(v, "ms").iter().collect();
            let r = rot % ms.len();
            ms.rotate_left(r);
            ms.iter().map(|t| type_text(t, rot)).collect::<Vec<_>>().join("|")
        }
        other => panic!("unknown type kind {other}"),
    }
}

// ------------------------------------------------------------------ values

fn native_stub(_: &mut Interpreter) -> Result<Variable, ExecError> {
    Ok(Variable::Void)
}

/// Build a `Variable` from the wire. Cells and function values are fresh objects; `cells`
/// (id -> cell) lets several occurrences of one id alias the same cell.
pub fn value_from_wire(v: &Value, cells: &mut HashMap<i64, Arc<Mut>>) -> Variable {
    match k(v) {
        "bool" => Variable::Bool(v["v"].as_bool().unwrap()),
        "int" => Variable::Int(int_from_wire(v)),
        "float" => Variable::Float(float_from_wire(v)),
        "string" => Variable::String(string_from_wire(v).into()),
        "void" => Variable::Void,
        "array" => {
            let elements: Arc<[Variable]> =
                arr(v, "es").iter().map(|e| value_from_wire(e, cells)).collect();
            match v.get("tag") {
                Some(tag) => Array::new_with_type(type_from_wire(tag), elements).into(),
                None => Array::from(elements).into(),
            }
        }
        "tuple" => Variable::Tuple(arr(v, "es").iter().map(|e| value_from_wire(e, cells)).collect()),
        "struct" => {
            let vm: HashMap<Arc<str>, Variable> = fields(v)
                .into_iter()
                .map(|(n, x)| (Arc::from(n.as_str()), value_from_wire(&x, cells)))
                .collect();
            Variable::Struct(Arc::new(vm))
        }
        "cell" => {
            if let Some(id) = v.get("id").and_then(Value::as_i64) {
                if let Some(cell) = cells.get(&id) {
                    return Variable::Mut(cell.clone());
                }
            }
            let content = value_from_wire(&v["c"], cells);
            let cell = Arc::new(Mut { var_type: type_from_wire(&v["ty"]), variable: RwLock::new(content) });
            if let Some(id) = v.get("id").and_then(Value::as_i64) {
                cells.insert(id, cell.clone());
            }
            Variable::Mut(cell)
        }
        "fnv" => {
            let Type::Function(ft) = type_from_wire(&v["sig"]) else { panic!("fnv without fn sig") };
            let params: Params = ft
                .params
                .iter()
                .enumerate()
                .map(|(i, t)| Param { name: format!("p{i}").into(), var_type: t.clone() })
                .collect();
            Function::new(params, native_stub, ft.return_type.clone()).into()
        }
        other => panic!("unknown value kind on the wire: {other}"),
    }
}

pub fn int_from_wire(v: &Value) -> i64 {
    if let Some(n) = v.get("v").and_then(Value::as_i64) {
        return n;
    }
    if let Some(s) = v.get("v").and_then(Value::as_str) {
        return s.parse().unwrap();
    }
    // little-endian limbs of 8 bits
    let limbs = arr(v, "l");
    let mut x: u64 = 0;
    for (i, l) in limbs.iter().enumerate() {
        x |= (l.as_u64().unwrap() & 0xff) << (8 * i);
    }
    x as i64
}

pub fn int_to_limbs(n: i64) -> Value {
    let x = n as u64;
    Value::Array((0..8).map(|i| json!((x >> (8 * i)) & 0xff)).collect())
}

/// floats: {"h": n} is the half-integer n/2; {"bits": "<decimal u64>"} is exact
pub fn float_from_wire(v: &Value) -> f64 {
    if let Some(h) = v.get("h").and_then(Value::as_i64) {
        return h as f64 / 2.0;
    }
    if let Some(h) = v.get("v").and_then(Value::as_i64) {
        return h as f64 / 2.0;
    }
    if let Some(b) = v.get("bits").and_then(Value::as_str) {
        return f64::from_bits(b.parse::<u64>().unwrap());
    }
    panic!("float without payload: {v}")
}

/// strings: {"v": "text"} or {"cps": [scalar values]}
pub fn string_from_wire(v: &Value) -> String {
    if let Some(s) = v.get("v").and_then(Value::as_str) {
        return s.to_string();
    }
    arr(v, "cps")
        .iter()
        .map(|c| char::from_u32(c.as_u64().unwrap() as u32).unwrap())
        .collect()
}

/// Structural description of an implementation value, with hidden tags, declared cell types,
/// function signatures; cells and functions get ids in order of first appearance.
#[derive(Default)]
pub struct Ids {
    pub cells: HashMap<usize, i64>,
    pub fns: HashMap<usize, i64>,
}

pub fn value_to_wire(v: &Variable, ids: &mut Ids, depth: usize) -> Value {
    if depth > 12 {
        return json!({"k": "deep"});
    }
    match v {
        Variable::Bool(b) => json!({"k": "bool", "v": b}),
        Variable::Int(n) => json!({"k": "int", "v": n}),
        Variable::Float(f) => {
            let h = f * 2.0;
            if h.fract() == 0.0 && h.abs() < 1e9 && !(h == 0.0 && f.is_sign_negative()) {
                json!({"k": "float", "h": h as i64})
            } else {
                json!({"k": "float", "bits": f.to_bits().to_string()})
            }
        }
        Variable::String(s) => json!({"k": "string", "v": &**s}),
        Variable::Void => json!({"k": "void"}),
        Variable::Array(a) => json!({"k": "array", "tag": type_to_wire(a.element_type()),
            "es": a.iter().map(|e| value_to_wire(e, ids, depth + 1)).collect::<Vec<_>>()}),
        Variable::Tuple(es) => json!({"k": "tuple",
            "es": es.iter().map(|e| value_to_wire(e, ids, depth + 1)).collect::<Vec<_>>()}),
        Variable::Struct(vm) => {
            let mut fs: Vec<(String, Value)> =
                vm.iter().map(|(n, x)| (n.to_string(), value_to_wire(x, ids, depth + 1))).collect();
            fs.sort_by(|a, b| a.0.cmp(&b.0));
            json!({"k": "struct", "fs": fs.into_iter().map(|(n, x)| json!([n, x])).collect::<Vec<_>>()})
        }
        Variable::Mut(cell) => {
            let key = Arc::as_ptr(cell) as usize;
            let n = ids.cells.len() as i64;
            let first = !ids.cells.contains_key(&key);
            let id = *ids.cells.entry(key).or_insert(n);
            if first {
                // try_read: never block on a lock held elsewhere while describing a value
                let content = match cell.variable.try_read() {
                    Ok(guard) => {
                        let c = guard.clone();
                        drop(guard);
                        value_to_wire(&c, ids, depth + 1)
                    }
                    Err(_) => json!({"k": "locked"}),
                };
                json!({"k": "cell", "id": id, "ty": type_to_wire(&cell.var_type), "c": content})
            } else {
                json!({"k": "cell", "id": id, "ty": type_to_wire(&cell.var_type)})
            }
        }
        Variable::Function(f) => {
            let key = Arc::as_ptr(f) as usize;
            let n = ids.fns.len() as i64;
            let id = *ids.fns.entry(key).or_insert(n);
            json!({"k": "fnv", "id": id, "sig": type_to_wire(&f.as_type())})
        }
    }
}
