//! AST (wire format of spec/Lang.tla) -> SimpleSL source text. Part of the trusted base: every
//! sub-expression is parenthesised, every statement ends with `;`, helper functions that make a
//! value opaque to the optimiser (`tick`, `hide`) are declared in a prelude, one per value type.
use crate::wire::{k, type_text};
use serde_json::Value;
use std::collections::BTreeMap;

pub struct Renderer {
    /// type text (parameter form) -> (helper index, type text in result position)
    helpers: BTreeMap<String, (usize, String)>,
    /// files to be written before the program is parsed (imports): absolute path, text
    pub files: Vec<(String, String)>,
    pub import_dir: String,
}

fn arr<'a>(v: &'a Value, key: &str) -> &'a [Value] {
    v.get(key).and_then(Value::as_array).map(Vec::as_slice).unwrap_or(&[])
}

fn is_none(v: &Value) -> bool {
    v.is_null() || k(v) == "none"
}

/// the declared result type of a function literal: `-> type` takes a union bare
/// (only function *types* need `->(a|b)`)
pub fn ret_type_text(t: &Value) -> String {
    type_text(t, 0)
}

pub fn string_literal(s: &str) -> String {
    let mut out = String::from("\"");
    for c in s.chars() {
        match c {
            '"' => out.push_str("\\\""),
            '\\' => out.push_str("\\\\"),
            '\n' => out.push_str("\\n"),
            '\t' => out.push_str("\\t"),
            '\r' => out.push_str("\\r"),
            c if (c as u32) < 0x20 || c == '\u{7f}' => out.push_str(&format!("\\u{{{:x}}}", c as u32)),
            c => out.push(c),
        }
    }
    out.push('"');
    out
}

pub fn literal(v: &Value) -> String {
    match k(v) {
        "bool" => v["v"].as_bool().unwrap().to_string(),
        "int" => {
            let n = v["v"].as_i64().unwrap();
            if n < 0 { format!("({n})") } else { n.to_string() }
        }
        "float" => {
            let f = if let Some(b) = v.get("bits").and_then(Value::as_str) {
                f64::from_bits(b.parse::<u64>().unwrap())
            } else {
                v.get("v").or_else(|| v.get("h")).and_then(Value::as_i64).unwrap() as f64 / 2.0
            };
            if f < 0.0 { format!("({f:?})") } else { format!("{f:?}") }
        }
        "string" => {
            let s: String = if let Some(s) = v.get("v").and_then(Value::as_str) {
                s.to_string()
            } else {
                arr(v, "cps").iter().map(|c| char::from_u32(c.as_u64().unwrap() as u32).unwrap()).collect()
            };
            string_literal(&s)
        }
        "void" => "()".into(),
        "array" => format!("[{}]", arr(v, "es").iter().map(literal).collect::<Vec<_>>().join(", ")),
        "tuple" => format!("({})", arr(v, "es").iter().map(literal).collect::<Vec<_>>().join(", ")),
        other => panic!("cannot render literal of kind {other}"),
    }
}

impl Renderer {
    pub fn new() -> Self {
        Self { helpers: BTreeMap::new(), files: vec![], import_dir: format!("{}/imports/{}", crate::util::work_dir(), std::process::id()) }
    }

    fn helper(&mut self, ty: &Value) -> usize {
        let key = type_text(ty, 0);
        let n = self.helpers.len();
        self.helpers.entry(key).or_insert((n, ret_type_text(ty))).0
    }

    /// Declarations of the log cell and of every helper used by the rendered text.
    pub fn prelude(&self, with_log: bool) -> String {
        let mut out = String::new();
        if with_log {
            out.push_str("log := mut [int] [];\n");
        }
        for (param_ty, (n, ty)) in &self.helpers {
            if with_log {
                out.push_str(&format!("t_{n} := (i: int, v: {param_ty}) -> {ty} {{ log += [i]; return v }};\n"));
            }
            out.push_str(&format!("h_{n} := (v: {param_ty}) -> {ty} {{ return v }};\n"));
        }
        out
    }

    pub fn program(&mut self, stmts: &[Value]) -> String {
        let body = self.stmts(stmts, 0);
        format!("{}{}", self.prelude(true), body)
    }

    pub fn stmts(&mut self, ss: &[Value], ind: usize) -> String {
        let pad = "  ".repeat(ind);
        ss.iter().map(|s| format!("{pad}{};\n", self.stmt(s, ind))).collect()
    }

    fn block(&mut self, e: &Value, ind: usize) -> String {
        // bodies are always rendered as blocks
        let inner = if k(e) == "block" { self.stmts(arr(e, "body"), ind + 1) } else { self.stmts(std::slice::from_ref(e), ind + 1) };
        format!("{{\n{inner}{}}}", "  ".repeat(ind))
    }

    fn params(&mut self, ps: &[Value]) -> String {
        ps.iter()
            .map(|p| format!("{}: {}", p["n"].as_str().unwrap(), type_text(&p["ty"], 0)))
            .collect::<Vec<_>>()
            .join(", ")
    }

    /// statements and the constructs that may only appear in statement position
    pub fn stmt(&mut self, s: &Value, ind: usize) -> String {
        match k(s) {
            "set" => format!("{} := {}", s["n"].as_str().unwrap(), self.stmt(&s["e"], ind)),
            "destruct" => format!(
                "({}) := {}",
                arr(s, "ns").iter().map(|n| n.as_str().unwrap().to_string()).collect::<Vec<_>>().join(", "),
                self.stmt(&s["e"], ind)
            ),
            "fndecl" => format!(
                "{} := ({}) -> {} {{\n{}{}}}",
                s["n"].as_str().unwrap(),
                self.params(arr(s, "ps")),
                ret_type_text(&s["r"]),
                self.stmts(arr(s, "body"), ind + 1),
                "  ".repeat(ind)
            ),
            "block" => self.block(s, ind),
            "if" => {
                let mut out = format!("if {} {}", self.expr(&s["c"]), self.block(&s["t"], ind));
                if !is_none(&s["f"]) {
                    out.push_str(&format!(" else {}", self.block(&s["f"], ind)));
                }
                out
            }
            "ifset" => {
                let mut out = format!(
                    "if {}: {} = {} {}",
                    s["n"].as_str().unwrap(),
                    type_text(&s["ty"], 0),
                    self.expr(&s["e"]),
                    self.block(&s["t"], ind)
                );
                if !is_none(&s["f"]) {
                    out.push_str(&format!(" else {}", self.block(&s["f"], ind)));
                }
                out
            }
            "match" => {
                let pad = "  ".repeat(ind + 1);
                let mut out = format!("match {} {{\n", self.expr(&s["e"]));
                for a in arr(s, "arms") {
                    let head = match k(a) {
                        "val" => arr(a, "vs").iter().map(|v| self.expr(v)).collect::<Vec<_>>().join(", "),
                        "ty" => format!("{}: {}", a["n"].as_str().unwrap(), type_text(&a["ty"], 0)),
                        _ => String::new(),
                    };
                    out.push_str(&format!("{pad}{head} => {},\n", self.block(&a["b"], ind + 1)));
                }
                out.push_str(&format!("{}}}", "  ".repeat(ind)));
                out
            }
            // ("bare": the body is written without braces: `loop match e { .. }`, `while c match e { .. }`)
            "loop" if s["bare"] == true => format!("loop {}", self.stmt(&s["b"], ind)),
            "while" if s["bare"] == true => format!("while {} {}", self.expr(&s["c"]), self.stmt(&s["b"], ind)),
            "loop" => format!("loop {}", self.block(&s["b"], ind)),
            "while" => format!("while {} {}", self.expr(&s["c"]), self.block(&s["b"], ind)),
            "whileset" => format!(
                "while {}: {} = {} {}",
                s["n"].as_str().unwrap(),
                type_text(&s["ty"], 0),
                self.expr(&s["e"]),
                self.block(&s["b"], ind)
            ),
            "for" => format!("for {} in {} {}", s["n"].as_str().unwrap(), self.expr(&s["e"]), self.block(&s["b"], ind)),
            "break" => "break".into(),
            "continue" => "continue".into(),
            "ret" => {
                if is_none(&s["e"]) { "return".into() } else { format!("return {}", self.stmt(&s["e"], ind)) }
            }
            "mark" => format!("log += [{}]", s["i"]),
            "import" => self.expr(s),
            _ => self.expr(s),
        }
    }

    /// expressions; always self-delimiting (parenthesised or atomic)
    pub fn expr(&mut self, e: &Value) -> String {
        match k(e) {
            "lit" => literal(&e["v"]),
            "var" => e["n"].as_str().unwrap().to_string(),
            "tup" => format!("({})", arr(e, "es").iter().map(|x| self.expr(x)).collect::<Vec<_>>().join(", ")),
            "arr" => format!("[{}]", arr(e, "es").iter().map(|x| self.expr(x)).collect::<Vec<_>>().join(", ")),
            "rep" => format!("[{}; {}]", self.expr(&e["v"]), self.expr(&e["len"])),
            "struct" => format!(
                "struct{{{}}}",
                arr(e, "fs").iter().map(|f| format!("{} := {}", f[0].as_str().unwrap(), self.expr(&f[1]))).collect::<Vec<_>>().join(", ")
            ),
            "field" => format!("({}).{}", self.expr(&e["e"]), e["n"].as_str().unwrap()),
            "tupat" => format!("({}).{}", self.expr(&e["e"]), e["i"]),
            "at" => format!("({})[{}]", self.expr(&e["e"]), self.expr(&e["i"])),
            "slice" => {
                let part = |r: &mut Self, x: &Value| if is_none(x) { String::new() } else { r.expr(x) };
                let (a, b, c) = (part(self, &e["a"]), part(self, &e["b"]), part(self, &e["c"]));
                if is_none(&e["c"]) {
                    format!("({})[{a}:{b}]", self.expr(&e["e"]))
                } else {
                    format!("({})[{a}:{b}:{c}]", self.expr(&e["e"]))
                }
            }
            "neg" => format!("(-{})", self.pexpr(&e["e"])),
            "not" => format!("(!{})", self.pexpr(&e["e"])),
            "deref" => format!("(*{})", self.pexpr(&e["e"])),
            "bin" | "asg" => format!("({} {} {})", self.pexpr(&e["l"]), e["op"].as_str().unwrap(), self.pexpr(&e["r"])),
            "and" => format!("({} && {})", self.pexpr(&e["l"]), self.pexpr(&e["r"])),
            "or" => format!("({} || {})", self.pexpr(&e["l"]), self.pexpr(&e["r"])),
            "mut" if e.get("u").is_some() => format!("(mut {})", self.pexpr(&e["e"])),
            "mut" => format!("(mut {} {})", type_text(&e["ty"], 0), self.pexpr(&e["e"])),
            "fn" => format!(
                "({}) -> {} {{\n{}}}",
                self.params(arr(e, "ps")),
                ret_type_text(&e["r"]),
                self.stmts(arr(e, "body"), 1)
            ),
            "call" => {
                let f = if k(&e["f"]) == "var" { self.expr(&e["f"]) } else { format!("({})", self.expr(&e["f"])) };
                format!("{f}({})", arr(e, "args").iter().map(|x| self.expr(x)).collect::<Vec<_>>().join(", "))
            }
            "iter" => format!("({}~)", self.pexpr(&e["e"])),
            "map" => format!("({} @ {})", self.pexpr(&e["it"]), self.pexpr(&e["f"])),
            "filter" => format!("({} ? {})", self.pexpr(&e["it"]), self.pexpr(&e["f"])),
            "part" => format!("({} \\ {})", self.pexpr(&e["it"]), self.pexpr(&e["f"])),
            "tfilter" => format!("({} ? {})", self.pexpr(&e["it"]), type_text(&e["ty"], 0)),
            "reduce" => {
                // the function operand must not look like a call of the initial value
                let f = if k(&e["f"]) == "var" { self.expr(&e["f"]) } else { self.expr(&e["f"]) };
                format!("({} ${} {})", self.pexpr(&e["it"]), self.pexpr(&e["init"]), f)
            }
            "red" => format!("({} {})", self.pexpr(&e["it"]), e["op"].as_str().unwrap()),
            "collect" => format!("({} $])", self.pexpr(&e["it"])),
            "tick" => {
                let n = self.helper(&e["ty"]);
                format!("t_{n}({}, {})", e["i"], self.expr(&e["e"]))
            }
            "hide" => {
                let n = self.helper(&e["ty"]);
                format!("h_{n}({})", self.expr(&e["e"]))
            }
            "mod" => format!("mod {{\n{}}}", self.stmts(arr(e, "body"), 1)),
            "import" => {
                let body = self.stmts(arr(e, "body"), 0);
                let path = format!("{}/{}", self.import_dir, e["file"].as_str().unwrap());
                self.files.push((path.clone(), body));
                format!("import {}", string_literal(&path))
            }
            // statement-only constructs used as the value of a set / return are rendered by stmt()
            "if" | "ifset" | "match" | "block" | "loop" | "while" | "whileset" | "for" => self.stmt(e, 0),
            other => panic!("cannot render node kind {other}"),
        }
    }

    /// operand position: atoms stay bare, everything else is already parenthesised or gets parentheses
    fn pexpr(&mut self, e: &Value) -> String {
        let s = self.expr(e);
        match k(e) {
            "lit" | "var" | "arr" | "tup" | "rep" | "tick" | "hide" | "call" => s,
            _ if s.starts_with('(') && s.ends_with(')') && balanced(&s) => s,
            _ => format!("({s})"),
        }
    }
}

/// true when the first '(' closes at the last ')'
fn balanced(s: &str) -> bool {
    let mut depth = 0i32;
    let mut in_str = false;
    let mut esc = false;
    for (i, c) in s.char_indices() {
        if in_str {
            if esc { esc = false } else if c == '\\' { esc = true } else if c == '"' { in_str = false }
            continue;
        }
        match c {
            '"' => in_str = true,
            '(' => depth += 1,
            ')' => {
                depth -= 1;
                if depth == 0 && i != s.len() - 1 {
                    return false;
                }
            }
            _ => {}
        }
    }
    depth == 0
}
