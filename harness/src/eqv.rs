//! `vh eqv …` — binding of spec/Seqs.tla!ValEq (C19: equality is by content) to the implementation.
//!
//!   vh eqv replay <dir> <quick|thorough>
//!
//! Reads what MC_Eq wrote: eq_contents.ndjson (every content with its simple producer expressions and
//! its row of the ValEq matrix), eq_producers.ndjson (small array contents with all their producer
//! expressions and the ValEq matrix under every wrapper), eq_axes.ndjson. Every case is rendered as a
//! SimpleSL program that builds both sides along the given producer paths and evaluates
//! `x == y`, `x != y`, `match x { y => 1, => 0, }` and `y == x`; the four answers are compared with the
//! specification's prediction. The same matrix is also replayed at API level (`Variable == Variable`
//! on values built with different hidden element types).
use crate::seqs::{content_of, k, parallel, render_ext, render_value, run_text, struct_fields, Bag, Ran};
use crate::util::{catch, read_ndjson, Rng};
use serde_json::{Value, json};
use simplesl::{
    Interpreter,
    function::{Function, Param, Params},
    variable::{Array, Mut, Type, Typed, Variable},
};
use std::{collections::{BTreeSet, HashMap}, sync::{Arc, RwLock}};

/// the union type of the cell a value is passed through
const U: &str = "[any]|(any, any)|(any, any, any)|struct{}|int|float|string|bool|()|mut int|()->int";
const FILTER_TYPE: &str = "int|float|string|[any]";

#[derive(Default)]
struct Uses {
    id: bool,
    nv: bool,
    isv: bool,
    fns: BTreeSet<i64>,
    cells: BTreeSet<i64>,
}

fn scan_idents(v: &Value, u: &mut Uses) {
    match k(v) {
        "fnv" => {
            u.fns.insert(v["id"].as_i64().unwrap());
        }
        "cell" => {
            u.cells.insert(v["id"].as_i64().unwrap());
        }
        "array" | "tuple" => v["es"].as_array().unwrap().iter().for_each(|e| scan_idents(e, u)),
        "struct" => struct_fields(v).iter().for_each(|(_, e)| scan_idents(e, u)),
        _ => {}
    }
}

fn es(e: &Value) -> &[Value] {
    e["es"].as_array().map(Vec::as_slice).unwrap_or(&[])
}

/// Source text of a producer expression (every compound sub-expression parenthesised).
fn render_expr(e: &Value, u: &mut Uses) -> String {
    match k(e) {
        "lit" => {
            scan_idents(&e["v"], u);
            render_value(&e["v"])
        }
        "cat" => format!("({} + {})", render_expr(&e["l"], u), render_expr(&e["r"], u)),
        "slice" => {
            let (a, b, c) = (render_ext(&e["a"]), render_ext(&e["b"]), render_ext(&e["c"]));
            let br = if c.is_empty() { format!("[{a}:{b}]") } else { format!("[{a}:{b}:{c}]") };
            format!("{}{br}", render_expr(&e["s"], u))
        }
        "rep" => format!("[{}; {}]", render_expr(&e["v"], u), e["n"].as_i64().unwrap()),
        "collect" => format!("({}~ $])", render_expr(&e["s"], u)),
        "part" => {
            let pred = if e["pred"] == "notvoid" {
                u.nv = true;
                "nv"
            } else {
                u.isv = true;
                "isv"
            };
            format!("({}~ \\ {pred}).{}", render_expr(&e["s"], u), e["side"].as_i64().unwrap())
        }
        "filter" => {
            u.nv = true;
            format!("({}~ ? nv $])", render_expr(&e["s"], u))
        }
        "tfilter" => format!("({}~ ? {FILTER_TYPE} $])", render_expr(&e["s"], u)),
        "anyp" => {
            u.id = true;
            format!("id({})", render_expr(&e["e"], u))
        }
        "cellu" => format!("(*(mut {U} {}))", render_expr(&e["e"], u)),
        "at" => format!("{}[{}]", render_expr(&e["s"], u), render_ext(&e["i"])),
        "tup" => format!("({})", es(e).iter().map(|x| render_expr(x, u)).collect::<Vec<_>>().join(", ")),
        "arr" => format!("[{}]", es(e).iter().map(|x| render_expr(x, u)).collect::<Vec<_>>().join(", ")),
        "struct1" => format!("struct{{a := {}}}", render_expr(&e["e"], u)),
        "structn" => format!(
            "struct{{{}}}",
            e["fs"].as_array().unwrap().iter().map(|f| format!("{} := {}", f[0].as_str().unwrap(), render_expr(&f[1], u))).collect::<Vec<_>>().join(", ")
        ),
        other => panic!("producer expression kind {other}"),
    }
}

fn wrap(w: &str, e: &Value) -> Value {
    match w {
        "id" => e.clone(),
        "arr" => json!({"k": "arr", "es": [e]}),
        "tup" => json!({"k": "tup", "es": [{"k": "lit", "v": {"k": "int", "v": 1}}, e]}),
        "struct1" => json!({"k": "struct1", "e": e}),
        other => panic!("wrapper {other}"),
    }
}

fn preamble(u: &Uses) -> String {
    let mut p = String::new();
    if u.id {
        p.push_str("id := (x: any) -> any { return x }; ");
    }
    if u.nv {
        p.push_str("nv := (x: any) -> bool { return match x { v: () => false, => true, } }; ");
    }
    if u.isv {
        p.push_str("isv := (x: any) -> bool { return match x { v: () => true, => false, } }; ");
    }
    for f in &u.fns {
        p.push_str(&format!("f{f} := () -> int {{ return 1 }}; "));
    }
    for c in &u.cells {
        p.push_str(&format!("c{c} := mut 1; "));
    }
    p
}

/// mode "vars": both sides bound to variables first; mode "inline": the expressions stand in the
/// comparison themselves (whatever the folder can see, it folds).
pub fn program(ex: &Value, ey: &Value, mode: &str) -> String {
    let mut u = Uses::default();
    let (x, y) = (render_expr(ex, &mut u), render_expr(ey, &mut u));
    let pre = preamble(&u);
    if mode == "params" {
        // both sides reach the comparison through any-typed parameters: nothing is known when the body is checked
        format!("{pre}x := {x}; y := {y}; f := (a: any, b: any) -> (bool, bool, int, bool) {{ m := match a {{ b => 1, => 0, }}; return (a == b, a != b, m, b == a) }}; f(x, y)")
    } else if mode == "self" {
        // ONE non-constant name compared with itself (reflexivity holds exactly for NaN-free contents)
        format!("{pre}x := {x}; f := (a: any) -> (bool, bool, int, bool) {{ m := match a {{ a => 1, => 0, }}; return (a == a, a != a, m, a == a) }}; f(x)")
    } else if mode == "vars" {
        format!("{pre}x := {x}; y := {y}; m := match x {{ y => 1, => 0, }}; (x == y, x != y, m, y == x)")
    } else {
        format!("{pre}m := match {x} {{ {y} => 1, => 0, }}; ({x} == {y}, {x} != {y}, m, {y} == {x})")
    }
}

#[derive(Default)]
struct Ctx {
    mm: Bag,
    evals: u64,
    programs: u64,
    equal_cases: u64,
    cross_path_equal: u64,
    samples: Vec<Value>,
    path_pairs: BTreeSet<(String, String)>,
    api_checks: u64,
}

fn check_case(cx: &mut Ctx, interp: &Interpreter, suite: &str, px: &Value, py: &Value, wrapper: &str, eq: bool, mode: &str, sample: bool) {
    let (ex, ey) = (wrap(wrapper, &px["e"]), wrap(wrapper, &py["e"]));
    let text = program(&ex, &ey, mode);
    let r = run_text(interp, &text);
    cx.evals += 4;
    cx.programs += 1;
    let names = (px["p"].as_str().unwrap().to_string(), py["p"].as_str().unwrap().to_string());
    if eq {
        cx.equal_cases += 1;
        if names.0 != names.1 {
            cx.cross_path_equal += 1;
        }
    }
    let base = json!({"suite": suite, "px": names.0, "py": names.1, "wrapper": wrapper, "mode": mode,
        "x": ex, "y": ey, "program": text, "spec_equal": eq});
    cx.path_pairs.insert(names);
    let with = |extra: Value| {
        let mut b = base.clone();
        for (key, v) in extra.as_object().unwrap() {
            b[key.as_str()] = v.clone();
        }
        b
    };
    match &r {
        Ran::Val { v: Variable::Tuple(t), .. } if t.len() == 4 => {
            let want = [Variable::Bool(eq), Variable::Bool(!eq), Variable::Int(eq as i64), Variable::Bool(eq)];
            let what = ["eq", "ne", "match", "sym"];
            for i in 0..4 {
                let same = match (&t[i], &want[i]) {
                    (Variable::Bool(a), Variable::Bool(b)) => a == b,
                    (Variable::Int(a), Variable::Int(b)) => a == b,
                    _ => false,
                };
                if !same {
                    cx.mm.push(what[i], with(json!({"expected": format!("{:?}", want[i]), "observed": format!("{:?}", t[i])})));
                }
            }
            if sample {
                cx.samples.push(with(json!({"impl": format!("{:?}", Variable::Tuple(t.clone()))})));
            }
        }
        Ran::Val { v, .. } => cx.mm.push("run", with(json!({"observed": format!("unexpected result {v:?}")}))),
        Ran::Err { kind, stage } => cx.mm.push("run", with(json!({"observed": format!("{stage} error {kind}")}))),
        Ran::Panic(msg) => cx.mm.push("run", with(json!({"observed": format!("panic: {msg}")}))),
    }
}

// ------------------------------------------------------------------ API route

fn native_stub(_: &mut Interpreter) -> Result<Variable, simplesl::ExecError> {
    Ok(Variable::Int(1))
}

struct Idents {
    cells: HashMap<i64, Arc<Mut>>,
    fns: HashMap<i64, Arc<Function>>,
}

/// Build the content with the implementation's constructors; `tagmode` chooses the hidden element
/// type of every array: 0 = computed from the elements, 1 = any, 2 = computed | string | [any].
fn build(c: &Value, tagmode: usize, ids: &mut Idents) -> Variable {
    match k(c) {
        "bool" => Variable::Bool(c["b"].as_bool().unwrap()),
        "int" => Variable::Int(c["v"].as_i64().unwrap()),
        "float" => Variable::Float(match c["c"].as_str().unwrap() {
            "fin" => c["h"].as_i64().unwrap() as f64 / 2.0,
            "nan" => f64::NAN,
            "negzero" => -0.0,
            "inf" => f64::INFINITY,
            "neginf" => f64::NEG_INFINITY,
            other => panic!("float class {other}"),
        }),
        "string" => Variable::String(crate::seqs::string_of_cps(c).into()),
        "void" => Variable::Void,
        "array" => {
            let elements: Arc<[Variable]> = es(c).iter().map(|e| build(e, tagmode, ids)).collect();
            match tagmode {
                0 => Array::from(elements).into(),
                1 => Array::new_with_type(Type::Any, elements).into(),
                _ => {
                    let computed = Array::from(elements.clone()).element_type().clone();
                    let wide = computed | Type::String | Type::Array(Arc::new(Type::Any));
                    Array::new_with_type(wide, elements).into()
                }
            }
        }
        "tuple" => Variable::Tuple(es(c).iter().map(|e| build(e, tagmode, ids)).collect()),
        "struct" => {
            let vm: HashMap<Arc<str>, Variable> =
                struct_fields(c).into_iter().map(|(n, x)| (Arc::from(n.as_str()), build(&x, tagmode, ids))).collect();
            Variable::Struct(Arc::new(vm))
        }
        "cell" => {
            let id = c["id"].as_i64().unwrap();
            Variable::Mut(ids.cells.entry(id).or_insert_with(|| Arc::new(Mut { var_type: Type::Int, variable: RwLock::new(Variable::Int(1)) })).clone())
        }
        "fnv" => {
            let id = c["id"].as_i64().unwrap();
            Variable::Function(ids.fns.entry(id).or_insert_with(|| Arc::new(Function::new(std::iter::empty::<Param>().collect::<Params>(), native_stub, Type::Int))).clone())
        }
        other => panic!("content kind {other}"),
    }
}

// ------------------------------------------------------------------ replay

fn replay(dir: &str, tier: &str) -> Value {
    let thorough = tier == "thorough";
    let contents = read_ndjson(&format!("{dir}/eq_contents.ndjson"));
    let prods = read_ndjson(&format!("{dir}/eq_producers.ndjson"));
    let axes = &read_ndjson(&format!("{dir}/eq_axes.ndjson"))[0];
    let wrappers: Vec<String> = axes["wrappers"].as_array().unwrap().iter().map(|w| w.as_str().unwrap().to_string()).collect();
    let nc = contents.len();
    let parts = parallel(|w, nw| {
        let interp = Interpreter::with_stdlib();
        let mut cx = Ctx::default();
        // ---- suite A: every ordered pair of contents, producers rotating
        for i in 0..nc {
            if i % nw != w {
                continue;
            }
            let (ri, psi) = (&contents[i], contents[i]["ps"].as_array().unwrap());
            for j in 0..nc {
                let psj = contents[j]["ps"].as_array().unwrap();
                let eq = ri["eq"][j].as_i64().unwrap() == 1;
                let rots: &[usize] = if thorough { &[0, 2] } else { &[0] };
                for rot in rots {
                    let px = &psi[(i + j + rot) % psi.len()];
                    let py = &psj[(i + 2 * j + 1 + rot) % psj.len()];
                    for mode in ["vars", "inline", "params"] {
                        check_case(&mut cx, &interp, "contents", px, py, "id", eq, mode, i == nc / 2 && j == nc / 2 + 1);
                    }
                    if i == j {
                        for p in psi {
                            check_case(&mut cx, &interp, "contents", p, p, "id", eq, "self", false);
                        }
                    }
                }
                // API route: `Variable == Variable` with different hidden element types on the two sides
                for tx in 0..3 {
                    for ty in 0..3 {
                        let mut ids = Idents { cells: HashMap::new(), fns: HashMap::new() };
                        let (x, y) = (build(&ri["c"], tx, &mut ids), build(&contents[j]["c"], ty, &mut ids));
                        cx.api_checks += 1;
                        cx.evals += 2;
                        match catch(|| (x == y, x != y)) {
                            Ok((e, n)) if e == eq && n == !eq => {}
                            Ok((e, n)) => cx.mm.push("api", json!({"suite": "api", "x": ri["c"], "y": contents[j]["c"],
                                "x_tag": x.as_type().to_string(), "y_tag": y.as_type().to_string(),
                                "px": format!("tagmode{tx}"), "py": format!("tagmode{ty}"), "program": "Variable == Variable",
                                "spec_equal": eq, "observed": format!("== gave {e}, != gave {n}")})),
                            Err(p) => cx.mm.push("api", json!({"suite": "api", "x": ri["c"], "y": contents[j]["c"],
                                "px": format!("tagmode{tx}"), "py": format!("tagmode{ty}"), "program": "Variable == Variable",
                                "spec_equal": eq, "observed": format!("panic: {p}")})),
                        }
                    }
                }
            }
        }
        // ---- suite B: all pairs of producers of small array contents, under the wrappers
        let mut n = 0usize;
        for ri in prods.iter() {
            for (j, rj) in prods.iter().enumerate() {
                for (a, px) in ri["ps"].as_array().unwrap().iter().enumerate() {
                    for (b, py) in rj["ps"].as_array().unwrap().iter().enumerate() {
                        n += 1;
                        if n % nw != w {
                            continue;
                        }
                        let ws: Vec<usize> = (0..wrappers.len()).collect();
                        for wi in ws {
                            let eq = ri["eq"][wi][j].as_i64().unwrap() == 1;
                            let modes: &[&str] = if thorough { &["vars", "inline"] } else if (a + b + wi) % 2 == 0 { &["vars"] } else { &["inline"] };
                            for mode in modes {
                                check_case(&mut cx, &interp, "producers", px, py, &wrappers[wi], eq, mode, n % 4001 == 7);
                            }
                        }
                    }
                }
            }
        }
        cx
    });
    let mut t = Ctx::default();
    for p in parts {
        t.mm.merge(p.mm);
        t.evals += p.evals;
        t.programs += p.programs;
        t.equal_cases += p.equal_cases;
        t.cross_path_equal += p.cross_path_equal;
        t.samples.extend(p.samples);
        t.path_pairs.extend(p.path_pairs);
        t.api_checks += p.api_checks;
    }
    let paths: BTreeSet<&String> = t.path_pairs.iter().flat_map(|(a, b)| [a, b]).collect();
    json!({
        "contents": nc, "producer_contents": prods.len(), "programs": t.programs, "evaluations": t.evals,
        "spec_equal_cases": t.equal_cases, "equal_across_different_paths": t.cross_path_equal,
        "api_checks": t.api_checks, "path_pairs_seen": t.path_pairs.len(), "paths_seen": paths,
        "mismatch_counts": t.mm.counts_json(), "mismatches": t.mm.items_json(60),
        "samples": t.samples.into_iter().take(6).collect::<Vec<_>>(),
    })
}

// ------------------------------------------------------------------ record (impl -> spec)

fn lit(v: Value) -> Value {
    json!({"k": "lit", "v": v})
}

fn gen_content(rng: &mut Rng, depth: usize, in_array: bool) -> Value {
    let top = if depth == 0 { 6 } else { 10 };
    match rng.below(top) {
        0 => json!({"k": "int", "v": rng.below(5) as i64 - 2}),
        1 => match rng.below(6) {
            0 => json!({"k": "float", "c": "nan", "h": 0}),
            1 => json!({"k": "float", "c": "negzero", "h": 0}),
            _ => json!({"k": "float", "c": "fin", "h": rng.below(7) as i64 - 2}),
        },
        2 => json!({"k": "string", "cps": match rng.below(4) { 0 => vec![], 1 => vec![97], 2 => vec![49], _ => vec![97, 8364] }}),
        3 => json!({"k": "bool", "b": rng.chance(1, 2)}),
        4 => if in_array { json!({"k": "int", "v": 1}) } else { json!({"k": "void"}) },
        5 => if rng.chance(1, 2) { json!({"k": "cell", "id": rng.below(2)}) } else { json!({"k": "fnv", "id": rng.below(2)}) },
        6 | 7 => {
            let n = rng.below(5);
            json!({"k": "array", "es": (0..n).map(|_| gen_content(rng, depth - 1, true)).collect::<Vec<_>>()})
        }
        8 => {
            let n = 2 + rng.below(2);
            json!({"k": "tuple", "es": (0..n).map(|_| gen_content(rng, depth - 1, false)).collect::<Vec<_>>()})
        }
        _ => {
            let mut m = serde_json::Map::new();
            for name in ["a", "b", "c"] {
                if rng.chance(1, 2) {
                    m.insert(name.into(), gen_content(rng, depth - 1, false));
                }
            }
            json!({"k": "struct", "fs": m})
        }
    }
}

fn has_void_element(c: &Value) -> bool {
    es(c).iter().any(|e| k(e) == "void")
}

/// A random producer expression whose value has the content `c`.
fn gen_producer(rng: &mut Rng, c: &Value, depth: usize) -> Value {
    gen_producer_in(rng, c, depth, false)
}

/// `strict`: the expression must keep an array static type (it is an operand of `+`), so it is not
/// passed through an any-typed parameter, a union-typed cell or an index into a mixed array.
fn gen_producer_in(rng: &mut Rng, c: &Value, depth: usize, strict: bool) -> Value {
    let wrapped = |rng: &mut Rng, e: Value| match if strict { 7 } else { rng.below(8) } {
        0 => json!({"k": "anyp", "e": e}),
        1 if k(c) != "tuple" || es(c).len() <= 3 => json!({"k": "cellu", "e": e}),
        2 => json!({"k": "at", "s": {"k": "arr", "es": [e, lit(json!({"k": "void"}))]}, "i": {"k": "i", "v": 0}}),
        _ => e,
    };
    if depth == 0 {
        return wrapped(rng, lit(c.clone()));
    }
    let e = match k(c) {
        "tuple" => json!({"k": "tup", "es": es(c).iter().map(|x| gen_producer(rng, x, depth - 1)).collect::<Vec<_>>()}),
        "struct" => json!({"k": "structn", "fs": struct_fields(c).iter().map(|(n, x)| json!([n, gen_producer(rng, x, depth - 1)])).collect::<Vec<_>>()}),
        "array" => {
            let xs = es(c);
            let n = xs.len();
            let arr = |xs: &[Value]| json!({"k": "array", "es": xs});
            let filterable = xs.iter().all(|e| matches!(k(e), "int" | "float" | "string" | "array"));
            match rng.below(10) {
                0 => {
                    let j = rng.below(n + 1);
                    json!({"k": "cat", "l": gen_producer_in(rng, &arr(&xs[..j]), depth - 1, true), "r": gen_producer_in(rng, &arr(&xs[j..]), depth - 1, true)})
                }
                1 => {
                    let mut padded = vec![json!({"k": "int", "v": 0})];
                    padded.extend_from_slice(xs);
                    padded.push(json!({"k": "string", "cps": [122]}));
                    json!({"k": "slice", "s": lit(arr(&padded)), "a": {"k": "i", "v": 1}, "b": {"k": "i", "v": -1}, "c": {"k": "none"}})
                }
                2 => {
                    let rev: Vec<Value> = xs.iter().rev().cloned().collect();
                    json!({"k": "slice", "s": lit(arr(&rev)), "a": {"k": "none"}, "b": {"k": "none"}, "c": {"k": "i", "v": -1}})
                }
                3 if n >= 1 && xs.iter().all(|e| e == &xs[0]) => json!({"k": "rep", "v": gen_producer(rng, &xs[0], depth - 1), "n": n}),
                3 if n == 0 => json!({"k": "rep", "v": lit(json!({"k": "int", "v": 7})), "n": 0}),
                4 => json!({"k": "collect", "s": lit(c.clone())}),
                5 if !has_void_element(c) => {
                    let mut src = xs.to_vec();
                    src.insert(rng.below(n + 1), json!({"k": "void"}));
                    if rng.chance(1, 2) {
                        json!({"k": "part", "s": lit(arr(&src)), "pred": "notvoid", "side": 0})
                    } else {
                        json!({"k": "part", "s": lit(arr(&src)), "pred": "isvoid", "side": 1})
                    }
                }
                6 if !has_void_element(c) => {
                    let mut src = xs.to_vec();
                    src.insert(rng.below(n + 1), json!({"k": "void"}));
                    json!({"k": "filter", "s": lit(arr(&src))})
                }
                7 if filterable => {
                    let mut src = xs.to_vec();
                    src.insert(rng.below(n + 1), json!({"k": "void"}));
                    src.insert(rng.below(n + 2), json!({"k": "bool", "b": true}));
                    json!({"k": "tfilter", "s": lit(arr(&src))})
                }
                _ => json!({"k": "arr", "es": xs.iter().map(|x| gen_producer(rng, x, depth - 1)).collect::<Vec<_>>()}),
            }
        }
        _ => lit(c.clone()),
    };
    wrapped(rng, e)
}

/// A content that differs from `c` a little (or, rarely, not at all as a value: -0.0 for 0.0).
fn mutate(rng: &mut Rng, c: &Value) -> Value {
    match k(c) {
        "array" | "tuple" if !es(c).is_empty() && rng.chance(2, 3) => {
            let mut xs = es(c).to_vec();
            let i = rng.below(xs.len());
            match rng.below(4) {
                0 if k(c) == "array" => {
                    xs.remove(i);
                }
                1 if k(c) == "array" => xs.push(json!({"k": "int", "v": 1})),
                _ => xs[i] = mutate(rng, &xs[i]),
            }
            json!({"k": k(c), "es": xs})
        }
        "array" if rng.chance(1, 2) && es(c).len() >= 2 && es(c).len() <= 3 => json!({"k": "tuple", "es": es(c)}),
        "struct" => {
            let mut m = serde_json::Map::new();
            let fs = struct_fields(c);
            let pick = rng.below(fs.len().max(1));
            for (i, (n, x)) in fs.iter().enumerate() {
                m.insert(n.clone(), if i == pick { mutate(rng, x) } else { x.clone() });
            }
            if fs.is_empty() || rng.chance(1, 4) {
                m.insert("d".into(), json!({"k": "int", "v": 1}));
            }
            json!({"k": "struct", "fs": m})
        }
        "float" if c["c"] == "fin" && c["h"] == 0 => json!({"k": "float", "c": "negzero", "h": 0}),
        "float" if c["c"] == "negzero" => json!({"k": "float", "c": "fin", "h": 0}),
        "int" => if rng.chance(1, 2) { json!({"k": "int", "v": c["v"].as_i64().unwrap() + 1}) } else { json!({"k": "float", "c": "fin", "h": 2 * c["v"].as_i64().unwrap()}) },
        "cell" | "fnv" => json!({"k": k(c), "id": 1 - c["id"].as_i64().unwrap()}),
        "bool" => json!({"k": "bool", "b": !c["b"].as_bool().unwrap()}),
        "string" => json!({"k": "string", "cps": [98]}),
        _ => json!({"k": "array", "es": [c]}),
    }
}

fn record(n_cases: usize, path: &str) -> Value {
    use std::io::Write;
    let mut rng = Rng::from_env(0xe9a1);
    let interp = Interpreter::with_stdlib();
    let mut f = std::io::BufWriter::new(std::fs::File::create(path).expect("create trace file"));
    let (mut same, mut failed) = (0u64, 0u64);
    for _ in 0..n_cases {
        let depth = 1 + rng.below(3);
        let shape = rng.below(16);
        let mut cx = gen_content(&mut rng, depth, false);
        let mut cy = if rng.chance(1, 2) {
            same += 1;
            cx.clone()
        } else {
            mutate(&mut rng, &cx)
        };
        let (mut ex, mut ey) = (gen_producer(&mut rng, &cx, depth), gen_producer(&mut rng, &cy, depth));
        let mut u = Uses::default();
        let text = if shape <= 1 {
            // two TUPLE LITERALS written next to the operator, their elements names bound to values the folder cannot
            // see; the right one is the left one, a prefix of it, an extension of it, or differs in one element
            let n = 2 + rng.below(3);
            let xs: Vec<Value> = (0..n).map(|_| gen_content(&mut rng, 1, false)).collect();
            let mut decls = String::new();
            let mut names_x = vec![];
            for (i, c) in xs.iter().enumerate() {
                let e = json!({"k": "anyp", "e": gen_producer(&mut rng, c, 1)});
                decls.push_str(&format!("a{i} := {}; ", render_expr(&e, &mut u)));
                names_x.push(format!("a{i}"));
            }
            let mut names_y = names_x.clone();
            match rng.below(5) {
                0 => (),
                1 => {
                    if names_y.len() > 2 {
                        names_y.pop();
                    } else {
                        names_y.push("0".into());
                    }
                }
                2 => names_y.push("0".into()),
                3 => names_y.push(names_x[0].clone()),
                _ => {
                    let i = rng.below(n);
                    let c = mutate(&mut rng, &xs[i]);
                    let e = json!({"k": "anyp", "e": gen_producer(&mut rng, &c, 1)});
                    decls.push_str(&format!("b{i} := {}; ", render_expr(&e, &mut u)));
                    names_y[i] = format!("b{i}");
                }
            }
            let (x, y) = (format!("({})", names_x.join(", ")), format!("({})", names_y.join(", ")));
            format!("{}{decls}m := match {x} {{ {y} => 1, => 0, }}; ({x}, {y}, {x} == {y}, {x} != {y}, m, {y} == {x})", preamble(&u))
        } else {
            if shape == 2 {
                // the two contents 20 to 33 containers down, built separately at run time (nothing shared)
                let levels = 20 + rng.below(14);
                for l in 0..levels {
                    if l % 5 == 4 {
                        cx = json!({"k": "tuple", "es": [cx, {"k": "int", "v": 1}]});
                        cy = json!({"k": "tuple", "es": [cy, {"k": "int", "v": 1}]});
                        ex = json!({"k": "tup", "es": [ex, lit(json!({"k": "int", "v": 1}))]});
                        ey = json!({"k": "tup", "es": [ey, lit(json!({"k": "int", "v": 1}))]});
                    } else {
                        cx = json!({"k": "array", "es": [cx]});
                        cy = json!({"k": "array", "es": [cy]});
                        ex = json!({"k": "arr", "es": [ex]});
                        ey = json!({"k": "arr", "es": [ey]});
                    }
                }
            }
            let (x, y) = (render_expr(&ex, &mut u), render_expr(&ey, &mut u));
            format!("{}x := {x}; y := {y}; m := match x {{ y => 1, => 0, }}; (x, y, x == y, x != y, m, y == x)", preamble(&u))
        };
        let rec = match run_text(&interp, &text) {
            Ran::Val { v: Variable::Tuple(t), .. } if t.len() == 6 => {
                let mut idents = vec![];
                let (ox, oy) = (content_of(&t[0], &mut idents), content_of(&t[1], &mut idents));
                json!({"op": "cmp", "x": ox, "y": oy, "eq": t[2].as_bool().copied(), "ne": t[3].as_bool().copied(),
                       "arm": t[4].as_int().copied(), "sym": t[5].as_bool().copied(), "program": text,
                       "intended_x": cx, "intended_y": cy})
            }
            other => {
                failed += 1;
                json!({"op": "fail", "program": text, "observed": crate::seqs::outcome_json(&other)})
            }
        };
        writeln!(f, "{}", serde_json::to_string(&rec).unwrap()).unwrap();
    }
    f.flush().unwrap();
    json!({"recorded": n_cases, "same_intended_content": same, "failed_to_run": failed, "path": path})
}

pub fn run(args: &[String]) -> Value {
    match args.first().map(String::as_str) {
        Some("replay") => replay(&args[1], args.get(2).map(String::as_str).unwrap_or("quick")),
        Some("record") => record(args[1].parse().expect("count"), &args[2]),
        Some("program") => {
            // vh eqv program '<x expr json>' '<y expr json>' <mode>: render one case (replay aid)
            let (x, y) = (serde_json::from_str(&args[1]).unwrap(), serde_json::from_str(&args[2]).unwrap());
            json!({"program": program(&x, &y, args.get(3).map(String::as_str).unwrap_or("vars"))})
        }
        _ => json!({"error": "usage: vh eqv replay <dir> <tier>"}),
    }
}
