//! `vh eqv …` — binding of spec/Seqs.tla!ValEq (C19: equality is by content) to the implementation.
//!
//!   vh eqv replay <dir> <quick|thorough>
//!
//! Reads what MC_Eq wrote: eq_contents.ndjson (every content with its simple producer expressions and
//! its row of the ValEq matrix), eq_producers.ndjson (small array contents with all their producer
//! expressions and the ValEq matrix under every wrapper), eq_axes.ndjson. Every case is rendered as a
//! SimpleSL program that builds both sides along the given producer paths and evaluates
//! `x == y`, `x != y`, `match x { y => 1, => 0, }` and `y == x`; the four answers are compared with the
//! specification's prediction. The same matrix is also replayed at API level (`Variable == Variable`
//! on values built with different hidden element types).
use crate::seqs::{k, parallel, render_ext, render_value, run_text, struct_fields, Bag, Ran};
use crate::util::{catch, read_ndjson};
use serde_json::{Value, json};
use simplesl::{
    Interpreter,
    function::{Function, Param, Params},
    variable::{Array, Mut, Type, Typed, Variable},
};
use std::{collections::{BTreeSet, HashMap}, sync::{Arc, RwLock}};

/// the union type of the cell a value is passed through
const U: &str = "[any]|(any, any)|(any, any, any)|struct{}|int|float|string|bool|()|mut int|()->int";
const FILTER_TYPE: &str = "int|float|string|[any]";

#[derive(Default)]
struct Uses {
    id: bool,
    nv: bool,
    isv: bool,
    fns: BTreeSet<i64>,
    cells: BTreeSet<i64>,
}

fn scan_idents(v: &Value, u: &mut Uses) {
    match k(v) {
        "fnv" => {
            u.fns.insert(v["id"].as_i64().unwrap());
        }
        "cell" => {
            u.cells.insert(v["id"].as_i64().unwrap());
        }
        "array" | "tuple" => v["es"].as_array().unwrap().iter().for_each(|e| scan_idents(e, u)),
        "struct" => struct_fields(v).iter().for_each(|(_, e)| scan_idents(e, u)),
        _ => {}
    }
}

fn es(e: &Value) -> &[Value] {
    e["es"].as_array().map(Vec::as_slice).unwrap_or(&[])
}

/// Source text of a producer expression (every compound sub-expression parenthesised).
fn render_expr(e: &Value, u: &mut Uses) -> String {
    match k(e) {
        "lit" => {
            scan_idents(&e["v"], u);
            render_value(&e["v"])
        }
        "cat" => format!("({} + {})", render_expr(&e["l"], u), render_expr(&e["r"], u)),
        "slice" => {
            let (a, b, c) = (render_ext(&e["a"]), render_ext(&e["b"]), render_ext(&e["c"]));
            let br = if c.is_empty() { format!("[{a}:{b}]") } else { format!("[{a}:{b}:{c}]") };
            format!("{}{br}", render_expr(&e["s"], u))
        }
        "rep" => format!("[{}; {}]", render_expr(&e["v"], u), e["n"].as_i64().unwrap()),
        "collect" => format!("({}~ $])", render_expr(&e["s"], u)),
        "part" => {
            let pred = if e["pred"] == "notvoid" {
                u.nv = true;
                "nv"
            } else {
                u.isv = true;
                "isv"
            };
            format!("({}~ \\ {pred}).{}", render_expr(&e["s"], u), e["side"].as_i64().unwrap())
        }
        "filter" => {
            u.nv = true;
            format!("({}~ ? nv $])", render_expr(&e["s"], u))
        }
        "tfilter" => format!("({}~ ? {FILTER_TYPE} $])", render_expr(&e["s"], u)),
        "anyp" => {
            u.id = true;
            format!("id({})", render_expr(&e["e"], u))
        }
        "cellu" => format!("(*(mut {U} {}))", render_expr(&e["e"], u)),
        "at" => format!("{}[{}]", render_expr(&e["s"], u), render_ext(&e["i"])),
        "tup" => format!("({})", es(e).iter().map(|x| render_expr(x, u)).collect::<Vec<_>>().join(", ")),
        "arr" => format!("[{}]", es(e).iter().map(|x| render_expr(x, u)).collect::<Vec<_>>().join(", ")),
        "struct1" => format!("struct{{a := {}}}", render_expr(&e["e"], u)),
        other => panic!("producer expression kind {other}"),
    }
}

fn wrap(w: &str, e: &Value) -> Value {
    match w {
        "id" => e.clone(),
        "arr" => json!({"k": "arr", "es": [e]}),
        "tup" => json!({"k": "tup", "es": [{"k": "lit", "v": {"k": "int", "v": 1}}, e]}),
        "struct1" => json!({"k": "struct1", "e": e}),
        other => panic!("wrapper {other}"),
    }
}

fn preamble(u: &Uses) -> String {
    let mut p = String::new();
    if u.id {
        p.push_str("id := (x: any) -> any { return x }; ");
    }
    if u.nv {
        p.push_str("nv := (x: any) -> bool { return match x { v: () => false, => true, } }; ");
    }
    if u.isv {
        p.push_str("isv := (x: any) -> bool { return match x { v: () => true, => false, } }; ");
    }
    for f in &u.fns {
        p.push_str(&format!("f{f} := () -> int {{ return 1 }}; "));
    }
    for c in &u.cells {
        p.push_str(&format!("c{c} := mut 1; "));
    }
    p
}

/// mode "vars": both sides bound to variables first; mode "inline": the expressions stand in the
/// comparison themselves (whatever the folder can see, it folds).
pub fn program(ex: &Value, ey: &Value, mode: &str) -> String {
    let mut u = Uses::default();
    let (x, y) = (render_expr(ex, &mut u), render_expr(ey, &mut u));
    let pre = preamble(&u);
    if mode == "vars" {
        format!("{pre}x := {x}; y := {y}; m := match x {{ y => 1, => 0, }}; (x == y, x != y, m, y == x)")
    } else {
        format!("{pre}m := match {x} {{ {y} => 1, => 0, }}; ({x} == {y}, {x} != {y}, m, {y} == {x})")
    }
}

#[derive(Default)]
struct Ctx {
    mm: Bag,
    evals: u64,
    programs: u64,
    equal_cases: u64,
    cross_path_equal: u64,
    samples: Vec<Value>,
    path_pairs: BTreeSet<(String, String)>,
    api_checks: u64,
}

fn check_case(cx: &mut Ctx, interp: &Interpreter, suite: &str, px: &Value, py: &Value, wrapper: &str, eq: bool, mode: &str, sample: bool) {
    let (ex, ey) = (wrap(wrapper, &px["e"]), wrap(wrapper, &py["e"]));
    let text = program(&ex, &ey, mode);
    let r = run_text(interp, &text);
    cx.evals += 4;
    cx.programs += 1;
    let names = (px["p"].as_str().unwrap().to_string(), py["p"].as_str().unwrap().to_string());
    if eq {
        cx.equal_cases += 1;
        if names.0 != names.1 {
            cx.cross_path_equal += 1;
        }
    }
    let base = json!({"suite": suite, "px": names.0, "py": names.1, "wrapper": wrapper, "mode": mode,
        "x": ex, "y": ey, "program": text, "spec_equal": eq});
    cx.path_pairs.insert(names);
    let with = |extra: Value| {
        let mut b = base.clone();
        for (key, v) in extra.as_object().unwrap() {
            b[key.as_str()] = v.clone();
        }
        b
    };
    match &r {
        Ran::Val { v: Variable::Tuple(t), .. } if t.len() == 4 => {
            let want = [Variable::Bool(eq), Variable::Bool(!eq), Variable::Int(eq as i64), Variable::Bool(eq)];
            let what = ["eq", "ne", "match", "sym"];
            for i in 0..4 {
                let same = match (&t[i], &want[i]) {
                    (Variable::Bool(a), Variable::Bool(b)) => a == b,
                    (Variable::Int(a), Variable::Int(b)) => a == b,
                    _ => false,
                };
                if !same {
                    cx.mm.push(what[i], with(json!({"expected": format!("{:?}", want[i]), "observed": format!("{:?}", t[i])})));
                }
            }
            if sample {
                cx.samples.push(with(json!({"impl": format!("{:?}", Variable::Tuple(t.clone()))})));
            }
        }
        Ran::Val { v, .. } => cx.mm.push("run", with(json!({"observed": format!("unexpected result {v:?}")}))),
        Ran::Err { kind, stage } => cx.mm.push("run", with(json!({"observed": format!("{stage} error {kind}")}))),
        Ran::Panic(msg) => cx.mm.push("run", with(json!({"observed": format!("panic: {msg}")}))),
    }
}

// ------------------------------------------------------------------ API route

fn native_stub(_: &mut Interpreter) -> Result<Variable, simplesl::ExecError> {
    Ok(Variable::Int(1))
}

struct Idents {
    cells: HashMap<i64, Arc<Mut>>,
    fns: HashMap<i64, Arc<Function>>,
}

/// Build the content with the implementation's constructors; `tagmode` chooses the hidden element
/// type of every array: 0 = computed from the elements, 1 = any, 2 = computed | string | [any].
fn build(c: &Value, tagmode: usize, ids: &mut Idents) -> Variable {
    match k(c) {
        "bool" => Variable::Bool(c["b"].as_bool().unwrap()),
        "int" => Variable::Int(c["v"].as_i64().unwrap()),
        "float" => Variable::Float(match c["c"].as_str().unwrap() {
            "fin" => c["h"].as_i64().unwrap() as f64 / 2.0,
            "nan" => f64::NAN,
            "negzero" => -0.0,
            "inf" => f64::INFINITY,
            "neginf" => f64::NEG_INFINITY,
            other => panic!("float class {other}"),
        }),
        "string" => Variable::String(crate::seqs::string_of_cps(c).into()),
        "void" => Variable::Void,
        "array" => {
            let elements: Arc<[Variable]> = es(c).iter().map(|e| build(e, tagmode, ids)).collect();
            match tagmode {
                0 => Array::from(elements).into(),
                1 => Array::new_with_type(Type::Any, elements).into(),
                _ => {
                    let computed = Array::from(elements.clone()).element_type().clone();
                    let wide = computed | Type::String | Type::Array(Arc::new(Type::Any));
                    Array::new_with_type(wide, elements).into()
                }
            }
        }
        "tuple" => Variable::Tuple(es(c).iter().map(|e| build(e, tagmode, ids)).collect()),
        "struct" => {
            let vm: HashMap<Arc<str>, Variable> =
                struct_fields(c).into_iter().map(|(n, x)| (Arc::from(n.as_str()), build(&x, tagmode, ids))).collect();
            Variable::Struct(Arc::new(vm))
        }
        "cell" => {
            let id = c["id"].as_i64().unwrap();
            Variable::Mut(ids.cells.entry(id).or_insert_with(|| Arc::new(Mut { var_type: Type::Int, variable: RwLock::new(Variable::Int(1)) })).clone())
        }
        "fnv" => {
            let id = c["id"].as_i64().unwrap();
            Variable::Function(ids.fns.entry(id).or_insert_with(|| Arc::new(Function::new(std::iter::empty::<Param>().collect::<Params>(), native_stub, Type::Int))).clone())
        }
        other => panic!("content kind {other}"),
    }
}

// ------------------------------------------------------------------ replay

fn replay(dir: &str, tier: &str) -> Value {
    let thorough = tier == "thorough";
    let contents = read_ndjson(&format!("{dir}/eq_contents.ndjson"));
    let prods = read_ndjson(&format!("{dir}/eq_producers.ndjson"));
    let axes = &read_ndjson(&format!("{dir}/eq_axes.ndjson"))[0];
    let wrappers: Vec<String> = axes["wrappers"].as_array().unwrap().iter().map(|w| w.as_str().unwrap().to_string()).collect();
    let nc = contents.len();
    let parts = parallel(|w, nw| {
        let interp = Interpreter::with_stdlib();
        let mut cx = Ctx::default();
        // ---- suite A: every ordered pair of contents, producers rotating
        for i in 0..nc {
            if i % nw != w {
                continue;
            }
            let (ri, psi) = (&contents[i], contents[i]["ps"].as_array().unwrap());
            for j in 0..nc {
                let psj = contents[j]["ps"].as_array().unwrap();
                let eq = ri["eq"][j].as_i64().unwrap() == 1;
                let rots: &[usize] = if thorough { &[0, 2] } else { &[0] };
                for rot in rots {
                    let px = &psi[(i + j + rot) % psi.len()];
                    let py = &psj[(i + 2 * j + 1 + rot) % psj.len()];
                    let modes: &[&str] = if thorough { &["vars", "inline"] } else if (i + j) % 2 == 0 { &["vars"] } else { &["inline"] };
                    for mode in modes {
                        check_case(&mut cx, &interp, "contents", px, py, "id", eq, mode, i == nc / 2 && j == nc / 2 + 1);
                    }
                }
                // API route: `Variable == Variable` with different hidden element types on the two sides
                for tx in 0..3 {
                    for ty in 0..3 {
                        let mut ids = Idents { cells: HashMap::new(), fns: HashMap::new() };
                        let (x, y) = (build(&ri["c"], tx, &mut ids), build(&contents[j]["c"], ty, &mut ids));
                        cx.api_checks += 1;
                        cx.evals += 2;
                        match catch(|| (x == y, x != y)) {
                            Ok((e, n)) if e == eq && n == !eq => {}
                            Ok((e, n)) => cx.mm.push("api", json!({"suite": "api", "x": ri["c"], "y": contents[j]["c"],
                                "x_tag": x.as_type().to_string(), "y_tag": y.as_type().to_string(),
                                "px": format!("tagmode{tx}"), "py": format!("tagmode{ty}"), "program": "Variable == Variable",
                                "spec_equal": eq, "observed": format!("== gave {e}, != gave {n}")})),
                            Err(p) => cx.mm.push("api", json!({"suite": "api", "x": ri["c"], "y": contents[j]["c"],
                                "px": format!("tagmode{tx}"), "py": format!("tagmode{ty}"), "program": "Variable == Variable",
                                "spec_equal": eq, "observed": format!("panic: {p}")})),
                        }
                    }
                }
            }
        }
        // ---- suite B: all pairs of producers of small array contents, under the wrappers
        let mut n = 0usize;
        for (i, ri) in prods.iter().enumerate() {
            for (j, rj) in prods.iter().enumerate() {
                for (a, px) in ri["ps"].as_array().unwrap().iter().enumerate() {
                    for (b, py) in rj["ps"].as_array().unwrap().iter().enumerate() {
                        n += 1;
                        if n % nw != w {
                            continue;
                        }
                        let ws: Vec<usize> = if thorough { (0..wrappers.len()).collect() } else { vec![(i + j + a + b) % wrappers.len()] };
                        for wi in ws {
                            let eq = ri["eq"][wi][j].as_i64().unwrap() == 1;
                            let modes: &[&str] = if thorough { &["vars", "inline"] } else if (a + b) % 2 == 0 { &["vars"] } else { &["inline"] };
                            for mode in modes {
                                check_case(&mut cx, &interp, "producers", px, py, &wrappers[wi], eq, mode, n % 4001 == 7);
                            }
                        }
                    }
                }
            }
        }
        cx
    });
    let mut t = Ctx::default();
    for p in parts {
        t.mm.merge(p.mm);
        t.evals += p.evals;
        t.programs += p.programs;
        t.equal_cases += p.equal_cases;
        t.cross_path_equal += p.cross_path_equal;
        t.samples.extend(p.samples);
        t.path_pairs.extend(p.path_pairs);
        t.api_checks += p.api_checks;
    }
    let paths: BTreeSet<&String> = t.path_pairs.iter().flat_map(|(a, b)| [a, b]).collect();
    json!({
        "contents": nc, "producer_contents": prods.len(), "programs": t.programs, "evaluations": t.evals,
        "spec_equal_cases": t.equal_cases, "equal_across_different_paths": t.cross_path_equal,
        "api_checks": t.api_checks, "path_pairs_seen": t.path_pairs.len(), "paths_seen": paths,
        "mismatch_counts": t.mm.counts_json(), "mismatches": t.mm.items_json(60),
        "samples": t.samples.into_iter().take(6).collect::<Vec<_>>(),
    })
}

pub fn run(args: &[String]) -> Value {
    match args.first().map(String::as_str) {
        Some("replay") => replay(&args[1], args.get(2).map(String::as_str).unwrap_or("quick")),
        Some("program") => {
            // vh eqv program '<x expr json>' '<y expr json>' <mode>: render one case (replay aid)
            let (x, y) = (serde_json::from_str(&args[1]).unwrap(), serde_json::from_str(&args[2]).unwrap());
            json!({"program": program(&x, &y, args.get(3).map(String::as_str).unwrap_or("vars"))})
        }
        _ => json!({"error": "usage: vh eqv replay <dir> <tier>"}),
    }
}
