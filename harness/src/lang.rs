//! `vh lang <cases.ndjson> <events-out.ndjson>`: replay of cases whose expected outcome was computed by
//! the specification (spec/Lang.tla): render, parse, run with the hooks on, compare result value, log
//! cell and error kind; record per-instruction / call / cell events for trace validation.
use crate::render::Renderer;
use crate::util::{catch, is_budget, read_ndjson, Mismatches};
use crate::wire::*;
use serde_json::{Value, json};
use simplesl::{
    Code, Error, ExecError, Interpreter,
    variable::{ReturnType, Typed, Variable},
    verif::{self, Event},
};
use std::{cell::RefCell, collections::{HashMap, HashSet}, io::Write, rc::Rc};

pub fn error_kind(e: &Error) -> String {
    match e {
        Error::ZeroDivision => "ZeroDivision".into(),
        Error::ZeroModulo => "ZeroModulo".into(),
        Error::OverflowShift => "OverflowShift".into(),
        Error::IndexOutOfBounds => "IndexOutOfBounds".into(),
        Error::NegativeLength => "NegativeLength".into(),
        Error::NegativeExponent => "NegativeExponent".into(),
        other => {
            let d = format!("{other:?}");
            let name: String = d.chars().take_while(|c| c.is_alphanumeric()).collect();
            format!("rejected:{name}")
        }
    }
}

pub fn exec_error_kind(e: &ExecError) -> &'static str {
    match e {
        ExecError::ZeroDivision => "ZeroDivision",
        ExecError::ZeroModulo => "ZeroModulo",
        ExecError::OverflowShift => "OverflowShift",
        ExecError::IndexOutOfBounds => "IndexOutOfBounds",
        ExecError::NegativeLength => "NegativeLength",
        ExecError::NegativeExponent => "NegativeExponent",
        // (a variant this harness does not know: still a documented-error outcome, named as such)
        #[allow(unreachable_patterns)]
        _ => "OtherExecError",
    }
}

/// self-contained structural description of a value for the trace specification
pub fn value_full(v: &Variable, depth: usize, seen: &mut Vec<usize>) -> Value {
    if depth > 8 {
        return json!({"k": "deep"});
    }
    match v {
        Variable::Array(a) => json!({"k": "array", "tag": type_to_wire(a.element_type()),
            "es": a.iter().map(|e| value_full(e, depth + 1, seen)).collect::<Vec<_>>()}),
        Variable::Tuple(es) => json!({"k": "tuple", "es": es.iter().map(|e| value_full(e, depth + 1, seen)).collect::<Vec<_>>()}),
        Variable::Struct(vm) => {
            let mut fs: Vec<(String, Value)> = vm.iter().map(|(n, x)| (n.to_string(), value_full(x, depth + 1, seen))).collect();
            fs.sort_by(|a, b| a.0.cmp(&b.0));
            json!({"k": "struct", "fs": fs.into_iter().map(|(n, x)| json!([n, x])).collect::<Vec<_>>()})
        }
        Variable::Mut(cell) => {
            let key = std::sync::Arc::as_ptr(cell) as usize;
            if seen.contains(&key) {
                return json!({"k": "deep"});
            }
            seen.push(key);
            let content = match cell.variable.try_read() {
                Ok(g) => {
                    let c = g.clone();
                    drop(g);
                    value_full(&c, depth + 1, seen)
                }
                Err(_) => json!({"k": "deep"}),
            };
            seen.pop();
            json!({"k": "cell", "ty": type_to_wire(&cell.var_type), "c": content})
        }
        Variable::Function(f) => json!({"k": "fnv", "sig": type_to_wire(&f.as_type())}),
        Variable::String(s) => json!({"k": "string", "cps": s.chars().map(|c| c as u32).collect::<Vec<_>>()}),
        Variable::Float(f) => {
            let h = f * 2.0;
            if h.fract() == 0.0 && h.abs() < 1e9 { json!({"k": "float", "v": h as i64}) } else { json!({"k": "float", "bits": f.to_bits().to_string()}) }
        }
        Variable::Int(n) => {
            if n.unsigned_abs() < (1 << 30) { json!({"k": "int", "v": n}) } else { json!({"k": "int", "big": n.to_string()}) }
        }
        Variable::Bool(b) => json!({"k": "bool", "v": b}),
        Variable::Void => json!({"k": "void"}),
    }
}

/// compare the specification's value with the implementation's; returns the list of differences
pub fn diff_value(spec: &Value, got: &Value, path: &str, out: &mut Vec<String>) {
    let sk = k(spec);
    if sk == "unspec" || k(got) == "deep" {
        return;
    }
    if sk != k(got) {
        out.push(format!("{path}: kind {sk} expected, {} observed", k(got)));
        return;
    }
    match sk {
        "bool" | "int" => {
            if spec["v"] != got["v"] {
                out.push(format!("{path}: {} expected, {} observed", spec["v"], got.get("v").or(got.get("big")).unwrap_or(&Value::Null)));
            }
        }
        "float" => {
            let sv = spec.get("v").or(spec.get("h"));
            let gv = got.get("v").or(got.get("h"));
            if sv != gv || gv.is_none() {
                out.push(format!("{path}: float {:?}/2 expected, {} observed", sv, got));
            }
        }
        "string" => {
            let s = string_from_wire(spec);
            let g = string_from_wire(got);
            if s != g {
                out.push(format!("{path}: string {s:?} expected, {g:?} observed"));
            }
        }
        "void" => {}
        "array" | "tuple" => {
            let (se, ge) = (spec["es"].as_array().unwrap(), got["es"].as_array().unwrap());
            if se.len() != ge.len() {
                out.push(format!("{path}: length {} expected, {} observed", se.len(), ge.len()));
                return;
            }
            for (i, (a, b)) in se.iter().zip(ge).enumerate() {
                diff_value(a, b, &format!("{path}[{i}]"), out);
            }
            if sk == "array" {
                if let (Some(st), Some(gt)) = (spec.get("tag"), got.get("tag")) {
                    if canon_type(st) != canon_type(gt) {
                        out.push(format!("{path}: TAG {} expected, {} observed", type_text(&canon_type(st), 0), type_text(&canon_type(gt), 0)));
                    }
                }
            }
        }
        "struct" => {
            let sf = crate::wire::fields_of(spec);
            let gf = crate::wire::fields_of(got);
            let sn: Vec<&String> = sf.iter().map(|f| &f.0).collect();
            let gn: Vec<&String> = gf.iter().map(|f| &f.0).collect();
            let (mut a, mut b) = (sn.clone(), gn.clone());
            a.sort();
            b.sort();
            if a != b {
                out.push(format!("{path}: fields {a:?} expected, {b:?} observed"));
                return;
            }
            for (n, v) in &sf {
                let g = gf.iter().find(|f| &f.0 == n).unwrap();
                diff_value(v, &g.1, &format!("{path}.{n}"), out);
            }
        }
        "cell" => {
            if let (Some(st), Some(gt)) = (spec.get("ty"), got.get("ty")) {
                if canon_type(st) != canon_type(gt) {
                    out.push(format!("{path}: cell type {} expected, {} observed", type_text(&canon_type(st), 0), type_text(&canon_type(gt), 0)));
                }
            }
            if let (Some(sc), Some(gc)) = (spec.get("c"), got.get("c")) {
                diff_value(sc, gc, &format!("{path}.*"), out);
            }
        }
        "fnv" => {
            if let (Some(ss), Some(gs)) = (spec.get("sig"), got.get("sig")) {
                if canon_type(ss) != canon_type(gs) {
                    out.push(format!("{path}: function type {} expected, {} observed", type_text(&canon_type(ss), 0), type_text(&canon_type(gs), 0)));
                }
            }
        }
        _ => {}
    }
}

#[derive(Default)]
pub struct Recorder {
    /// frame stack: true = helper frame (placeholder-typed library closure: not judged)
    frames: Vec<bool>,
    helper_fns: HashSet<usize>,
    pub events: Vec<Value>,
    seen: HashSet<String>,
    pub raw: u64,
    pub panics_in_type: u64,
    /// the run pulled an iterator past its end at least once
    pub tainted: bool,
}

const HELPER_PARAMS: [&[&str]; 3] = [&["func", "mapper"], &["func", "predicate"], &["array", "default"]];

impl Recorder {
    fn judged(&self) -> bool {
        !self.frames.last().copied().unwrap_or(false)
    }
    fn push(&mut self, ev: Value) {
        self.raw += 1;
        let key = ev.to_string();
        if self.seen.insert(key) {
            self.events.push(ev);
        }
    }
    pub fn on(&mut self, ev: Event) {
        match ev {
            Event::Ret { kind, static_type, value, .. } => {
                if !self.judged() {
                    return;
                }
                if matches!(kind, "Map" | "Filter" | "Iter" | "TypeFilter") {
                    if let Variable::Function(f) = &value {
                        self.helper_fns.insert(std::sync::Arc::as_ptr(f) as usize);
                    }
                }
                if let Variable::Tuple(es) = &value {
                    if es.len() == 2 && matches!(es[0], Variable::Bool(false)) {
                        self.tainted = true;
                    }
                }
                match static_type {
                    Some(t) => self.push(json!({"ev": "ret", "kind": kind, "ty": type_to_wire(&t), "v": value_full(&value, 0, &mut vec![])})),
                    None => self.panics_in_type += 1,
                }
            }
            Event::Stop { .. } => {}
            Event::CallEnter { function, ident, params, native, args, .. } => {
                let names: Vec<&str> = params.iter().map(|p| &*p.0).collect();
                let helper = self.helper_fns.contains(&function)
                    || (ident.is_none() && HELPER_PARAMS.iter().any(|h| *h == names.as_slice()));
                if self.judged() && !helper {
                    for (i, ((name, ty), arg)) in params.iter().zip(args.iter()).enumerate() {
                        // two parameters of one name: the body sees the later one; the earlier one is not observable
                        if params[i + 1..].iter().any(|p| p.0 == *name) {
                            continue;
                        }
                        match arg {
                            Some(a) => self.push(json!({"ev": "arg", "kind": if native {"native"} else {"lang"}, "ty": type_to_wire(ty), "v": value_full(a, 0, &mut vec![])})),
                            None => self.push(json!({"ev": "unbound", "name": &**name})),
                        }
                    }
                }
                self.frames.push(helper);
            }
            Event::CallExit { return_type, result, .. } => {
                let helper = self.frames.pop().unwrap_or(false);
                if !helper && self.judged() {
                    if let Some(v) = result {
                        self.push(json!({"ev": "result", "ty": type_to_wire(&return_type), "v": value_full(&v, 0, &mut vec![])}));
                    }
                }
            }
            Event::Alloc { cell, value } => {
                if self.judged() {
                    self.push(json!({"ev": "alloc", "ty": type_to_wire(&cell.var_type), "v": value_full(&value, 0, &mut vec![])}));
                }
            }
            Event::Write { cell, op, old, rhs, new, .. } => {
                if self.judged() {
                    self.push(json!({"ev": "write", "op": op, "ty": type_to_wire(&cell.var_type),
                        "old": value_full(&old, 0, &mut vec![]), "rhs": value_full(&rhs, 0, &mut vec![]),
                        "new": new.map(|n| value_full(&n, 0, &mut vec![])).unwrap_or(json!({"k": "none"}))}));
                }
            }
        }
    }
}

pub struct RunResult {
    pub text: String,
    pub parse: String,          // "ok" | error kind | "panic"
    pub static_type: Option<Value>,
    pub status: String,         // value | error | panic | budget | (parse outcomes)
    pub value: Option<Value>,
    pub detail: String,
    pub log: Option<Vec<i64>>,
    pub watched: Vec<(String, Option<Value>)>,
}

/// Parse and run one rendered program with the hooks on.
pub fn run_program(text: &str, stdlib: bool, fuel: u64, rec: Option<Rc<RefCell<Recorder>>>, watch: &[String]) -> RunResult {
    let mut interp = if stdlib { Interpreter::with_stdlib() } else { Interpreter::without_stdlib() };
    let mut res = RunResult { text: text.to_string(), parse: "ok".into(), static_type: None, status: String::new(), value: None, detail: String::new(), log: None, watched: vec![] };
    let code = match catch(|| Code::parse(&interp, text)) {
        Err(p) => {
            res.parse = "panic".into();
            res.status = "parse-panic".into();
            res.detail = p;
            return res;
        }
        Ok(Err(e)) => {
            res.parse = error_kind(&e);
            res.status = "rejected".into();
            res.detail = e.to_string();
            return res;
        }
        Ok(Ok(c)) => c,
    };
    res.static_type = catch(|| code.return_type()).ok().map(|t| type_to_wire(&t));
    if let Some(r) = &rec {
        let r2 = r.clone();
        verif::set_sink(Some(Box::new(move |ev| r2.borrow_mut().on(ev))), true);
    }
    verif::set_budget(fuel, 200);
    let out = catch(|| code.exec_unscoped(&mut interp));
    verif::set_sink(None, false);
    verif::set_budget(u64::MAX, usize::MAX);
    match out {
        Err(p) if is_budget(&p) => {
            res.status = "budget".into();
            res.detail = p;
        }
        Err(p) => {
            res.status = "panic".into();
            res.detail = p;
        }
        Ok(Err(e)) => {
            res.status = "error".into();
            res.detail = exec_error_kind(&e).into();
        }
        Ok(Ok(v)) => {
            res.status = "value".into();
            let mut ids = Ids::default();
            res.value = Some(value_to_wire(&v, &mut ids, 0));
            res.detail = format!("{v:?}");
            if let (Some(r), Some(t)) = (&rec, catch(|| code.return_type()).ok()) {
                r.borrow_mut().push(json!({"ev": "final", "ty": type_to_wire(&t), "v": value_full(&v, 0, &mut vec![])}));
            }
        }
    }
    for name in watch {
        let mut ids = Ids::default();
        res.watched.push((name.clone(), interp.get_variable(name).map(|v| value_to_wire(v, &mut ids, 0))));
    }
    if let Some(Variable::Mut(cell)) = interp.get_variable("log") {
        if let Ok(g) = cell.variable.try_read() {
            if let Variable::Array(a) = &*g {
                res.log = Some(a.iter().filter_map(|x| x.as_int().copied()).collect());
            }
        }
    }
    res
}

/// The REPL route: the prelude and then every top-level statement are parsed against the SAME interpreter and run
/// unscoped, one after the other (what an embedding host does with successive inputs). Names bound by earlier
/// inputs are variables of the interpreter when a later input is checked. Statement texts separated by '\u{1}'.
pub fn run_program_repl(prelude: &str, stmts: &[String], stdlib: bool, fuel: u64, rec: Option<Rc<RefCell<Recorder>>>, watch: &[String]) -> RunResult {
    let mut interp = if stdlib { Interpreter::with_stdlib() } else { Interpreter::without_stdlib() };
    let text = format!("{prelude}{}", stmts.concat());
    let mut res = RunResult { text, parse: "ok".into(), static_type: None, status: "value".into(), value: None, detail: String::new(), log: None, watched: vec![] };
    let mut inputs: Vec<&str> = vec![];
    if !prelude.is_empty() {
        inputs.push(prelude);
    }
    inputs.extend(stmts.iter().map(|s| s.as_str()));
    let n_pre = if prelude.is_empty() { 0 } else { 1 };
    let mut last: Option<(Variable, Option<simplesl::variable::Type>)> = None;
    for (i, input) in inputs.iter().enumerate() {
        let code = match catch(|| Code::parse(&interp, input)) {
            Err(p) => {
                res.parse = "panic".into();
                res.status = "parse-panic".into();
                res.detail = p;
                break;
            }
            Ok(Err(e)) => {
                res.parse = error_kind(&e);
                res.status = "rejected".into();
                res.detail = e.to_string();
                break;
            }
            Ok(Ok(c)) => c,
        };
        let hooked = i >= n_pre;
        if let (Some(r), true) = (&rec, hooked) {
            let r2 = r.clone();
            verif::set_sink(Some(Box::new(move |ev| r2.borrow_mut().on(ev))), true);
        }
        verif::set_budget(fuel, 200);
        let out = catch(|| code.exec_unscoped(&mut interp));
        verif::set_sink(None, false);
        verif::set_budget(u64::MAX, usize::MAX);
        match out {
            Err(p) if is_budget(&p) => {
                res.status = "budget".into();
                res.detail = p;
                break;
            }
            Err(p) => {
                res.status = "panic".into();
                res.detail = p;
                break;
            }
            Ok(Err(e)) => {
                res.status = "error".into();
                res.detail = exec_error_kind(&e).into();
                break;
            }
            Ok(Ok(v)) => {
                last = Some((v, catch(|| code.return_type()).ok()));
            }
        }
    }
    if res.status == "value" {
        if let Some((v, t)) = &last {
            let mut ids = Ids::default();
            res.value = Some(value_to_wire(v, &mut ids, 0));
            res.detail = format!("{v:?}");
            res.static_type = t.as_ref().map(type_to_wire);
            if let (Some(r), Some(t)) = (&rec, t) {
                r.borrow_mut().push(json!({"ev": "final", "ty": type_to_wire(t), "v": value_full(v, 0, &mut vec![])}));
            }
        }
    }
    for name in watch {
        let mut ids = Ids::default();
        res.watched.push((name.clone(), interp.get_variable(name).map(|v| value_to_wire(v, &mut ids, 0))));
    }
    if let Some(Variable::Mut(cell)) = interp.get_variable("log") {
        if let Ok(g) = cell.variable.try_read() {
            if let Variable::Array(a) = &*g {
                res.log = Some(a.iter().filter_map(|x| x.as_int().copied()).collect());
            }
        }
    }
    res
}

/// `hide(ty, e)` is the identity in the specification (Lang.tla: Ev of "hide" is Ev of its operand); it only
/// keeps the implementation's folder from seeing the value. The constant twin of a program has every hide removed.
fn unhide(v: &Value) -> Value {
    match v {
        Value::Object(o) if o.get("k").and_then(Value::as_str) == Some("hide") => unhide(&o["e"]),
        Value::Object(o) => Value::Object(o.iter().map(|(k, x)| (k.clone(), unhide(x))).collect()),
        Value::Array(a) => Value::Array(a.iter().map(unhide).collect()),
        x => x.clone(),
    }
}
fn has_hide(v: &Value) -> bool {
    match v {
        Value::Object(o) => o.get("k").and_then(Value::as_str) == Some("hide") || o.values().any(has_hide),
        Value::Array(a) => a.iter().any(has_hide),
        _ => false,
    }
}

pub fn run(args: &[String]) -> Value {
    let mut cases = read_ndjson(&args[0]);
    // constant twins: the same program with the hidden operands visible to the folder; the specification predicts
    // the same outcome (suites with twin groups of their own, and deliberately ill-typed programs, are left alone)
    if std::env::var("VERIF_NO_CONST_TWINS").is_err() {
        let mut twins = vec![];
        for case in &cases {
            let grouped = case["group"].as_str().map(|g| !g.is_empty()).unwrap_or(false);
            let negative = case["negative"].as_bool().unwrap_or(false) && !case["twin"].as_bool().unwrap_or(false);
            if grouped || negative || case["notwin"].as_bool().unwrap_or(false) || !has_hide(&case["prog"]) {
                continue;
            }
            let mut t = case.clone();
            t["prog"] = unhide(&case["prog"]);
            t["id"] = json!(format!("{}#const", case["id"].as_str().unwrap_or("?")));
            t["const_twin"] = json!(true);
            twins.push(t);
        }
        // REPL twins: the statements of the program fed one by one to one interpreter (same outcome predicted)
        if std::env::var("VERIF_NO_REPL_TWINS").is_err() {
            for case in &cases {
                let grouped = case["group"].as_str().map(|g| !g.is_empty()).unwrap_or(false);
                let n = case["prog"].as_array().map(|a| a.len()).unwrap_or(0);
                if grouped || case["negative"].as_bool().unwrap_or(false) || case["norepl"].as_bool().unwrap_or(false) || n < 2 {
                    continue;
                }
                let mut t = case.clone();
                t["id"] = json!(format!("{}#repl", case["id"].as_str().unwrap_or("?")));
                t["const_twin"] = json!(true);     // judged like a constant twin: earlier bindings are known values
                t["repl_twin"] = json!(true);
                twins.push(t);
            }
        }
        cases.extend(twins);
    }
    let mut events_out = args.get(1).map(|p| std::io::BufWriter::new(std::fs::File::create(p).unwrap()));
    let fuel: u64 = std::env::var("VERIF_FUEL").ok().and_then(|s| s.parse().ok()).unwrap_or(200_000);
    let mut mm = Mismatches::new(400);
    let mut counts: HashMap<String, u64> = HashMap::new();
    let mut by_suite: HashMap<String, u64> = HashMap::new();
    let mut samples = vec![];
    let mut n_events_raw = 0u64;
    let mut n_events = 0u64;
    let mut distinct: HashSet<String> = HashSet::new();
    let mut seen_events: HashSet<String> = HashSet::new();
    // twins of one group must agree with each other even where the specification predicts nothing
    let mut groups: HashMap<String, (String, String, String)> = HashMap::new();
    for case in &cases {
        let suite = case["suite"].as_str().unwrap_or("?").to_string();
        *by_suite.entry(suite.clone()).or_insert(0) += 1;
        let exp = &case["exp"];
        let stmts = case["prog"].as_array().unwrap();
        let repl = case["repl_twin"].as_bool().unwrap_or(false);
        let mut repl_parts: (String, Vec<String>) = (String::new(), vec![]);
        let text = match catch(|| {
            let mut rd = Renderer::new();
            let t = if repl {
                let parts: Vec<String> = stmts.iter().map(|s| rd.stmts(std::slice::from_ref(s), 0)).collect();
                let pre = rd.prelude(true);
                let whole = format!("{pre}{}", parts.concat());
                repl_parts = (pre, parts);
                whole
            } else {
                rd.program(stmts)
            };
            for (path, body) in &rd.files {
                if let Some(dir) = std::path::Path::new(path).parent() {
                    let _ = std::fs::create_dir_all(dir);
                }
                std::fs::write(path, body).expect("cannot write import file");
            }
            t
        }) {
            Ok(t) => t,
            Err(p) => {
                mm.push("render", json!({"id": case["id"], "suite": suite, "panic": p}));
                continue;
            }
        };
        distinct.insert(text.clone());
        let rec = Rc::new(RefCell::new(Recorder::default()));
        let watch: Vec<String> = case["watch"].as_array().map(|w| w.iter().map(|x| x["n"].as_str().unwrap().to_string()).collect()).unwrap_or_default();
        let r = if repl {
            run_program_repl(&repl_parts.0, &repl_parts.1, case["std"].as_bool().unwrap_or(false), fuel, Some(rec.clone()), &watch)
        } else {
            run_program(&text, case["std"].as_bool().unwrap_or(false), fuel, Some(rec.clone()), &watch)
        };
        let rec = Rc::try_unwrap(rec).ok().map(RefCell::into_inner).unwrap_or_default();
        n_events_raw += rec.raw;
        if let Some(w) = &mut events_out {
            for ev in &rec.events {
                // identical events of different runs are judged once (the judgement is a function of the event);
                // runs that pulled an exhausted iterator are kept apart (their events carry "t": 1)
                let mut ev = ev.clone();
                ev["t"] = json!(rec.tainted as i64);
                if !seen_events.insert(ev.to_string()) {
                    continue;
                }
                ev["case"] = case["id"].clone();
                writeln!(w, "{}", ev).unwrap();
                n_events += 1;
            }
        }
        let exp_status = exp["status"].as_str().unwrap_or("?");
        *counts.entry(format!("spec:{exp_status}")).or_insert(0) += 1;
        *counts.entry(format!("impl:{}", r.status)).or_insert(0) += 1;
        if samples.len() < 4 && r.status == "value" && (cases.len() < 8 || stmts.len() > 1) {
            samples.push(json!({"suite": suite, "program": text, "expected": exp, "observed": r.detail, "log": r.log}));
        }
        let base = json!({"id": case["id"], "suite": suite, "program": text, "expected": exp,
            "observed": {"status": r.status, "detail": r.detail, "log": r.log}});
        let mut bad = |kind: &str, what: String, mm: &mut Mismatches| {
            let mut b = base.clone();
            b["what"] = json!(what);
            mm.push(kind, b);
        };
        if let Some(g) = case["group"].as_str().filter(|g| !g.is_empty()) {
            let mine = format!("{}:{}", r.status, r.value.as_ref().map(|v| v.to_string()).unwrap_or_else(|| r.detail.clone()));
            match groups.get(g) {
                None => { groups.insert(g.to_string(), (mine, text.clone(), case["id"].to_string())); }
                Some((first, first_text, first_id)) => {
                    if *first != mine && r.status != "rejected" && !first.starts_with("rejected") {
                        let mut b = base.clone();
                        b["what"] = json!(format!("twins of one program disagree: {first_id} gave {first}, this one {mine}"));
                        b["twin_program"] = json!(first_text);
                        mm.push("twins", b);
                    }
                }
            }
        }
        // negative (deliberately ill-typed) case: a rejection is the expected answer; if the checker accepts it the
        // run is judged by its events (recorded above) and must not panic, but no result is predicted
        let negative = case["negative"].as_bool().unwrap_or(false);
        if negative {
            match r.status.as_str() {
                "rejected" => { *counts.entry("negative-rejected".into()).or_insert(0) += 1; }
                "parse-panic" => bad("parse-panic", r.detail.clone(), &mut mm),
                "panic" => bad("panic", r.detail.clone(), &mut mm),
                _ => { *counts.entry("negative-accepted".into()).or_insert(0) += 1; }
            }
            continue;
        }
        if exp_status == "inconclusive" || r.status == "budget" {
            // the specification predicts no result here (values outside its exact domain, unspecified iterator
            // values); a panic is still not an outcome of the abstract machine
            match r.status.as_str() {
                "parse-panic" => bad("parse-panic", r.detail.clone(), &mut mm),
                "panic" => bad("panic", r.detail.clone(), &mut mm),
                _ => {}
            }
            *counts.entry("inconclusive".into()).or_insert(0) += 1;
            continue;
        }
        if matches!(r.status.as_str(), "value" | "error") {
            if let Some(ws) = case["watch"].as_array() {
                for (w, (name, got)) in ws.iter().zip(r.watched.iter()) {
                    let spec_v = &w["v"];
                    match (k(spec_v) != "none", got) {
                        (true, Some(g)) => {
                            let mut diffs = vec![];
                            diff_value(spec_v, g, name, &mut diffs);
                            diffs.retain(|d| !d.contains(": TAG "));
                            if !diffs.is_empty() {
                                bad("watch", diffs.join("; "), &mut mm);
                            }
                        }
                        (true, None) => bad("watch", format!("{name} is not bound after the run"), &mut mm),
                        (false, Some(_)) => bad("watch", format!("{name} is bound after the run but the specification never binds it"), &mut mm),
                        (false, None) => {}
                    }
                }
            }
        }
        match r.status.as_str() {
            "parse-panic" => bad("parse-panic", r.detail.clone(), &mut mm),
            "panic" => bad("panic", r.detail.clone(), &mut mm),
            "rejected" => {
                let allowed = case["allow_parse"].as_array().map(|a| a.iter().any(|x| x.as_str() == Some(r.parse.as_str()))).unwrap_or(false);
                // generated programs contain random constant sub-expressions; one that fails while being folded is
                // reported by the checker as an error of that class (documented; C03 decides its totality)
                let is_fold_class = ["ZeroDivision", "ZeroModulo", "OverflowShift", "IndexOutOfBounds", "NegativeLength"].contains(&r.parse.as_str());
                let fold_error = suite == "gen" && is_fold_class;
                let twin = case["const_twin"].as_bool().unwrap_or(false);
                // a constant twin may report at checking time the very error the specification predicts for the run
                if twin && is_fold_class && exp_status == "error" && exp["v"].as_str() == Some(r.parse.as_str()) {
                    *counts.entry("const-twin-error-reported-early".into()).or_insert(0) += 1;
                } else if case["repl_twin"].as_bool().unwrap_or(false) {
                    // C17: the incremental route may differ in which programs it accepts (it sees actual values where
                    // the batch route sees declared types)
                    *counts.entry("repl-twin-refused-permitted".into()).or_insert(0) += 1;
                } else if twin && is_fold_class {
                    // C04's permitted difference: an operation on constant operands that fails whenever it is evaluated
                    // may be reported when the program is checked, even where the hidden twin never reaches it
                    *counts.entry("const-twin-folding-error-permitted".into()).or_insert(0) += 1;
                } else if twin {
                    bad("consttwin", format!("the constant twin is refused ({}: {}) while the specification predicts {} for the program", r.parse, r.detail, exp_status), &mut mm);
                } else if fold_error {
                    *counts.entry("rejected-constant-folding-error".into()).or_insert(0) += 1;
                } else if exp_status == "rejected" || allowed {
                    *counts.entry("rejected-as-allowed".into()).or_insert(0) += 1;
                } else {
                    bad("rejected", format!("checker refused a program of the suite: {}", r.detail), &mut mm);
                }
            }
            "error" => {
                let allowed = case["allow_exec"].as_array().map(|a| a.iter().any(|x| x.as_str() == Some(r.detail.as_str()))).unwrap_or(false);
                // named deviation (DESIGN 12.5): making a closure folds its body, so a failing CONSTANT sub-expression of
                // a function body is raised when the closure is made, even if that code would never run; in the constant
                // twin of a generated program such sub-expressions arise by chance
                let twin_fold = case["const_twin"].as_bool().unwrap_or(false) && suite == "gen"
                    && ["ZeroDivision", "ZeroModulo", "OverflowShift", "IndexOutOfBounds", "NegativeLength"].contains(&r.detail.as_str());
                if allowed || twin_fold {
                    *counts.entry("exec-error-as-allowed".into()).or_insert(0) += 1;
                } else if !(exp_status == "error" && exp["v"].as_str() == Some(r.detail.as_str())) {
                    bad("outcome", format!("run-time error {} observed", r.detail), &mut mm);
                } else if let (Some(el), Some(gl)) = (exp["log"].as_array(), &r.log) {
                    let el: Vec<i64> = el.iter().filter_map(Value::as_i64).collect();
                    if &el != gl {
                        bad("log", format!("log {el:?} expected, {gl:?} observed"), &mut mm);
                    }
                }
            }
            "value" => {
                if exp_status != "value" {
                    bad("outcome", format!("value {} observed", r.detail), &mut mm);
                } else {
                    let mut diffs = vec![];
                    diff_value(&exp["v"], r.value.as_ref().unwrap(), "result", &mut diffs);
                    let (tags, vals): (Vec<_>, Vec<_>) = diffs.into_iter().partition(|d| d.contains(": TAG "));
                    if !vals.is_empty() {
                        bad("value", vals.join("; "), &mut mm);
                    } else if !tags.is_empty() {
                        bad("tag", tags.join("; "), &mut mm);
                    }
                    if let (Some(el), Some(gl)) = (exp["log"].as_array(), &r.log) {
                        let el: Vec<i64> = el.iter().filter_map(Value::as_i64).collect();
                        if &el != gl {
                            bad("log", format!("log {el:?} expected, {gl:?} observed"), &mut mm);
                        }
                    }
                }
            }
            _ => {}
        }
    }
    let _ = std::fs::remove_dir_all(Renderer::new().import_dir);
    json!({"cases": cases.len(), "distinct_programs": distinct.len(), "by_suite": by_suite, "counts": counts,
        "events_raw": n_events_raw, "events_written": n_events,
        "mismatch_counts": mm.counts(), "mismatches": mm.items(), "samples": samples})
}

/// `vh det <cases.ndjson> <K> <process-tag>`: every program parsed and run K times from scratch; one record per
/// run with the canonical outcome (union members / struct fields sorted), for Trace_Det.tla.
pub fn det(args: &[String]) -> Value {
    let cases = read_ndjson(&args[0]);
    let k: usize = args[1].parse().unwrap();
    let tag = args.get(2).cloned().unwrap_or_else(|| "p".into());
    // the order in which this process meets the programs ("after unrelated work"): fwd, rev or shuffled
    let order = args.get(3).map(|s| s.as_str()).unwrap_or("fwd");
    if order.ends_with("+fromstr") {
        // an embedding host that also uses the type parser: nothing it does may change what programs mean afterwards
        use std::str::FromStr;
        let _ = simplesl::variable::Type::from_str("[int|float]");
        let _ = simplesl::variable::Variable::from_str("[1, 2.5]");
    }
    let mut idx: Vec<usize> = (0..cases.len()).collect();
    match order.trim_end_matches("+fromstr") {
        "rev" => idx.reverse(),
        "shuf" => {
            let mut rng = crate::util::Rng::from_env(77);
            for i in (1..idx.len()).rev() {
                idx.swap(i, rng.below(i + 1));
            }
        }
        _ => {}
    }
    let fuel: u64 = 200_000;
    let mut out = std::io::BufWriter::new(std::io::stdout());
    let mut n = 0u64;
    for ci in idx {
        let case = &cases[ci];
        let stmts = case["prog"].as_array().unwrap();
        let Ok(text) = catch(|| {
            let mut rd = Renderer::new();
            let t = rd.program(stmts);
            for (path, body) in &rd.files {
                if let Some(dir) = std::path::Path::new(path).parent() {
                    let _ = std::fs::create_dir_all(dir);
                }
                std::fs::write(path, body).expect("cannot write import file");
            }
            t
        }) else { continue };
        // a refused program refused again: the two error VALUES compare equal (Error: PartialEq), whatever the
        // order in which the types they carry print their members
        {
            let interp = Interpreter::without_stdlib();
            let e1 = catch(|| Code::parse(&interp, &text).err());
            let e2 = catch(|| Code::parse(&interp, &text).err());
            if let (Ok(Some(a)), Ok(Some(b))) = (e1, e2) {
                if a != b {
                    writeln!(out, "{}", json!({"id": case["id"], "run": format!("{tag}errors-differ"), "outcome": format!("error values differ: {a:?} / {b:?}"),
                        "o": {"parse": "error values differ"}})).unwrap();
                }
            }
        }
        for rep in 0..k {
            let r = run_program(&text, case["std"].as_bool().unwrap_or(false), fuel, None, &[]);
            if r.status == "budget" {
                continue;
            }
            let outcome = json!({"parse": r.parse, "static": r.static_type, "status": r.status,
                "value": r.value, // a rejection is identified by its error kind: the message prints types, whose member order may vary
                "error": if r.status == "value" { Value::Null } else if r.status == "rejected" { json!(r.parse) } else { json!(r.detail) }, "log": r.log});
            writeln!(out, "{}", json!({"id": case["id"], "run": format!("{tag}{rep}"), "outcome": outcome.to_string(), "o": outcome})).unwrap();
            n += 1;
        }
    }
    out.flush().unwrap();
    let _ = n;
    let _ = std::fs::remove_dir_all(Renderer::new().import_dir);
    Value::Null
}
