//! C18 — conformance of the standard library with spec/Stdlib.tla and spec/Fs.tla.
//!
//!   vh stdlibx table  <obs.ndjson>                                   declared types of every leaf of `std`
//!   vh stdlibx replay <cases.ndjson> <obs.ndjson> <summary.json> <scratch>
//!   vh stdlibx random <table.ndjson> <n> <obs.ndjson> <summary.json> <scratch>
//!   vh stdlibx stdin  <stdin_cases.ndjson> <id> <obs.ndjson> <summary.json>   (stdin supplied by the caller)
//!   vh stdlibx fswalk <scratch> <events.ndjson> <summary.json> <walks> <length>     (judged by Trace_Fs.tla)
//!   vh stdlibx fs     <dir with fs_*.ndjson> <scratch> <obs.ndjson> <summary.json> <depth> <sample3> <ro:skip|only|all>
//!
//! Every call of the code under test is wrapped in `catch`; what happened is written as an
//! observation (ndjson) that spec/Trace_Stdlib.tla judges (membership in the declared result type,
//! documented result).  The harness itself only compares a result with a prediction that TLC
//! emitted (structural equality) and a directory tree with the tree TLC emitted.  std.io.print*
//! write to this process' stdout, so results go to files, never to stdout.
use crate::util::{catch, read_ndjson, Mismatches, Rng};
use crate::wire::{int_from_wire, k, type_from_wire, type_to_wire};
use serde_json::{Value, json};
use simplesl::{
    Code, Interpreter,
    function::Function,
    variable::{Array, Mut, Typed, Variable},
};
use std::{
    collections::HashMap,
    fs,
    io::Write,
    os::unix::fs::PermissionsExt,
    path::{Path, PathBuf},
    sync::{Arc, RwLock},
};

// ------------------------------------------------------------------ wire (this suite: limbs, cps)

fn limbs(x: u64) -> Value {
    Value::Array((0..8).map(|i| json!((x >> (8 * i)) & 0xff)).collect())
}

fn from_limbs(v: &Value) -> u64 {
    let mut x = 0u64;
    for (i, l) in v.as_array().map(Vec::as_slice).unwrap_or(&[]).iter().enumerate() {
        x |= (l.as_u64().unwrap() & 0xff) << (8 * i);
    }
    x
}

pub fn vw(v: &Variable, depth: usize) -> Value {
    if depth > 12 {
        return json!({"k": "deep"});
    }
    match v {
        Variable::Bool(b) => json!({"k": "bool", "v": b}),
        Variable::Int(n) => json!({"k": "int", "l": limbs(*n as u64)}),
        Variable::Float(f) => json!({"k": "float", "bl": limbs(f.to_bits())}),
        Variable::String(s) => json!({"k": "string", "cps": s.chars().map(|c| c as u32).collect::<Vec<_>>()}),
        Variable::Void => json!({"k": "void"}),
        Variable::Array(a) => json!({"k": "array", "tag": type_to_wire(a.element_type()),
            "es": a.iter().map(|e| vw(e, depth + 1)).collect::<Vec<_>>()}),
        Variable::Tuple(es) => json!({"k": "tuple", "es": es.iter().map(|e| vw(e, depth + 1)).collect::<Vec<_>>()}),
        Variable::Struct(vm) => {
            let mut fs: Vec<(String, Value)> = vm.iter().map(|(n, x)| (n.to_string(), vw(x, depth + 1))).collect();
            fs.sort_by(|a, b| a.0.cmp(&b.0));
            json!({"k": "struct", "fs": fs.into_iter().map(|(n, x)| json!([n, x])).collect::<Vec<_>>()})
        }
        Variable::Mut(cell) => {
            let content = match cell.variable.try_read() {
                Ok(g) => {
                    let c = g.clone();
                    drop(g);
                    vw(&c, depth + 1)
                }
                Err(_) => json!({"k": "locked"}),
            };
            json!({"k": "cell", "ty": type_to_wire(&cell.var_type), "c": content})
        }
        Variable::Function(f) => json!({"k": "fnv", "sig": type_to_wire(&f.as_type())}),
    }
}

fn cps_string(v: &Value) -> String {
    v["cps"].as_array().map(Vec::as_slice).unwrap_or(&[]).iter()
        .map(|c| char::from_u32(c.as_u64().unwrap() as u32).unwrap()).collect()
}

fn pairs(v: &Value) -> Vec<(String, Value)> {
    v["fs"].as_array().map(Vec::as_slice).unwrap_or(&[]).iter()
        .map(|p| (p[0].as_str().unwrap().to_string(), p[1].clone())).collect()
}

/// SimpleSL source text for a wire value; values without a literal form (NaN, infinities) are
/// bound to fresh names in `binds`.
fn render(v: &Value, binds: &mut Vec<(String, Variable)>) -> String {
    match k(v) {
        "bool" => v["v"].as_bool().unwrap().to_string(),
        "int" => {
            let n = int_from_wire(v);
            if n == i64::MIN { "(-9223372036854775807 - 1)".into() } else if n < 0 { format!("({n})") } else { n.to_string() }
        }
        "float" => {
            let f = f64::from_bits(from_limbs(&v["bl"]));
            if f.is_finite() && !(f == 0.0 && f.is_sign_negative()) {
                let t = format!("{f:?}");
                if f < 0.0 { format!("({t})") } else { t }
            } else {
                let name = format!("a{}", binds.len());
                binds.push((name.clone(), Variable::Float(f)));
                name
            }
        }
        "string" => {
            let mut s = String::from("\"");
            for c in cps_string(v).chars() {
                match c {
                    '"' => s.push_str("\\\""),
                    '\\' => s.push_str("\\\\"),
                    c if (c as u32) < 0x20 || c as u32 == 0x7f => s.push_str(&format!("\\u{{{:x}}}", c as u32)),
                    c => s.push(c),
                }
            }
            s.push('"');
            s
        }
        "void" => "()".into(),
        "array" => format!("[{}]", v["es"].as_array().unwrap().iter().map(|e| render(e, binds)).collect::<Vec<_>>().join(", ")),
        "tuple" => format!("({})", v["es"].as_array().unwrap().iter().map(|e| render(e, binds)).collect::<Vec<_>>().join(", ")),
        "struct" => format!("struct{{{}}}", pairs(v).iter().map(|(n, x)| format!("{n} := {}", render(x, binds))).collect::<Vec<_>>().join(", ")),
        "cell" => format!("mut {} {}", crate::wire::type_text(&v["ty"], 0), render(&v["c"], binds)),
        "fnv" => match v["src"].as_str() {
            Some("iter") => format!("{}~", render(&v["of"], binds)),
            _ => "(x: int) -> int { return x }".into(),
        },
        other => panic!("cannot render wire kind {other}"),
    }
}

/// The host-side value for a wire value (function values are built by running their source).
fn build(v: &Value, interp: &Interpreter) -> Variable {
    match k(v) {
        "bool" => Variable::Bool(v["v"].as_bool().unwrap()),
        "int" => Variable::Int(int_from_wire(v)),
        "float" => Variable::Float(f64::from_bits(from_limbs(&v["bl"]))),
        "string" => Variable::String(cps_string(v).into()),
        "void" => Variable::Void,
        "array" => {
            let es: Arc<[Variable]> = v["es"].as_array().unwrap().iter().map(|e| build(e, interp)).collect();
            Array::new_with_type(type_from_wire(&v["tag"]), es).into()
        }
        "tuple" => Variable::Tuple(v["es"].as_array().unwrap().iter().map(|e| build(e, interp)).collect()),
        "struct" => {
            let vm: HashMap<Arc<str>, Variable> = pairs(v).into_iter().map(|(n, x)| (Arc::from(n.as_str()), build(&x, interp))).collect();
            Variable::Struct(Arc::new(vm))
        }
        "cell" => Variable::Mut(Arc::new(Mut { var_type: type_from_wire(&v["ty"]), variable: RwLock::new(build(&v["c"], interp)) })),
        "fnv" => {
            let mut binds = vec![];
            let text = render(v, &mut binds);
            let mut layer = interp.create_layer();
            for (n, x) in binds {
                layer.insert(n.as_str().into(), x);
            }
            Code::parse(&layer, &text).expect("harness: argument source does not parse").exec().expect("harness: argument source fails")
        }
        other => panic!("cannot build wire kind {other}"),
    }
}

/// a struct with two or more fields somewhere in the value
fn multi_field_struct(v: &Value) -> bool {
    match v {
        Value::Object(m) => {
            (m.get("k").and_then(Value::as_str) == Some("struct") && m.get("fs").and_then(Value::as_array).is_some_and(|f| f.len() >= 2))
                || m.values().any(multi_field_struct)
        }
        Value::Array(a) => a.iter().any(multi_field_struct),
        _ => false,
    }
}

fn strip_tags(v: &Value) -> Value {
    match v {
        Value::Object(m) => {
            let mut o = serde_json::Map::new();
            for (key, x) in m {
                if !(key == "tag" && m.get("k").and_then(Value::as_str) == Some("array")) {
                    o.insert(key.clone(), strip_tags(x));
                }
            }
            Value::Object(o)
        }
        Value::Array(a) => Value::Array(a.iter().map(strip_tags).collect()),
        x => x.clone(),
    }
}

// ------------------------------------------------------------------ calling

struct Lib {
    interp: Interpreter<'static>,
}

impl Lib {
    fn new() -> Self {
        Lib { interp: Interpreter::with_stdlib() }
    }

    /// the value at `std.a.b`
    fn leaf(&self, name: &str) -> Option<Variable> {
        let mut parts = name.split('.');
        let mut cur = self.interp.get_variable(parts.next()?)?.clone();
        for p in parts {
            let Variable::Struct(vm) = &cur else { return None };
            cur = vm.get(p)?.clone();
        }
        Some(cur)
    }

    fn outcome(res: Result<Result<Variable, String>, String>) -> Value {
        match res {
            Err(p) => json!({"k": "panic", "msg": p}),
            Ok(Err(e)) => e.parse::<Value>().unwrap_or(json!({"k": "error", "msg": e})),
            // "tag": the implementation's own type of the result (Variable::as_type), judged next to the contents
            Ok(Ok(v)) => json!({"k": "value", "v": vw(&v, 0), "tag": catch(|| type_to_wire(&v.as_type())).unwrap_or(json!({"k": "panic"}))}),
        }
    }

    /// Heap churn: a run that makes, type-tests and drops a few hundred short-lived structs of assorted shapes, so that the
    /// values a later call returns are allocated where values of OTHER types lived (anything an implementation remembers
    /// about a value by its address must not outlive the value).
    fn churn(&self) {
        let text = "i := mut 0; n := mut 0; while *i < 300 { s := struct{a := *i}; if t: struct{a: int} = s { n += 1 }; \
                    u := struct{msg := *i, error_code := \"x\"}; if t: struct{msg: int, error_code: string} = u { n += 1 }; \
                    w := struct{error_code := [*i], msg := (*i, 1)}; if t: struct{error_code: [int], msg: (int, int)} = w { n += 1 }; i += 1 }; *n";
        let _ = catch(|| Code::parse(&self.interp, text).map(|c| c.exec()));
    }

    /// through a generated SimpleSL program
    fn call_prog(&self, name: &str, args: &[Value], is_const: bool) -> (Value, String) {
        let mut binds = vec![];
        let text = if is_const { name.to_string() } else {
            format!("{name}({})", args.iter().map(|a| render(a, &mut binds)).collect::<Vec<_>>().join(", "))
        };
        let res = catch(|| {
            let mut layer = self.interp.create_layer();
            for (n, x) in &binds {
                layer.insert(n.as_str().into(), x.clone());
            }
            let code = Code::parse(&layer, &text).map_err(|e| json!({"k": "rejected", "msg": e.to_string()}).to_string())?;
            code.exec().map_err(|e| json!({"k": "error", "msg": e.to_string()}).to_string())
        });
        (Self::outcome(res), text)
    }

    /// through the host API: the function value from the `std` struct and Function::create_call
    fn call_host(&self, name: &str, args: &[Value], is_const: bool) -> Value {
        let res = catch(|| {
            let leaf = self.leaf(name).ok_or_else(|| json!({"k": "rejected", "msg": "no such export"}).to_string())?;
            if is_const {
                return Ok(leaf);
            }
            let Variable::Function(f) = leaf else {
                return Err(json!({"k": "rejected", "msg": "export is not a function"}).to_string());
            };
            let argv: Vec<Variable> = args.iter().map(|a| build(a, &self.interp)).collect();
            let code = f.create_call(argv).map_err(|e| json!({"k": "rejected", "msg": e.to_string()}).to_string())?;
            code.exec().map_err(|e| json!({"k": "error", "msg": e.to_string()}).to_string())
        });
        Self::outcome(res)
    }
}

fn flatten_std(prefix: &str, v: &Variable, out: &mut Vec<Value>) {
    match v {
        Variable::Struct(vm) => {
            let mut names: Vec<&Arc<str>> = vm.keys().collect();
            names.sort();
            for n in names {
                flatten_std(&format!("{prefix}.{n}"), &vm[n], out);
            }
        }
        Variable::Function(f) => {
            let f: &Arc<Function> = f;
            out.push(json!({"ev": "decl", "name": prefix, "kind": "fn", "t": type_to_wire(&f.as_type())}));
        }
        other => out.push(json!({"ev": "decl", "name": prefix, "kind": "const", "t": type_to_wire(&other.as_type())})),
    }
}

fn write_lines(path: &str, rows: &[Value]) {
    let mut f = std::io::BufWriter::new(fs::File::create(path).unwrap_or_else(|e| panic!("cannot create {path}: {e}")));
    for r in rows {
        writeln!(f, "{}", serde_json::to_string(r).unwrap()).unwrap();
    }
}

fn write_json(path: &str, v: &Value) {
    fs::write(path, serde_json::to_string(v).unwrap()).unwrap_or_else(|e| panic!("cannot write {path}: {e}"));
}

fn enter_scratch(dir: &str) {
    fs::create_dir_all(dir).unwrap();
    std::env::set_current_dir(dir).unwrap();
}

// ------------------------------------------------------------------ table

fn table(out: &str) -> Value {
    let lib = Lib::new();
    let mut rows = vec![];
    match catch(|| lib.leaf("std")) {
        Ok(Some(std)) => flatten_std("std", &std, &mut rows),
        _ => rows.push(json!({"ev": "decl", "name": "std", "kind": "missing", "t": {"k": "never"}})),
    }
    write_lines(out, &rows);
    json!({"decls": rows.len()})
}

// ------------------------------------------------------------------ replay of TLC's cases

fn run_case(lib: &Lib, id: &Value, name: &str, args: &[Value], pred: &Value, is_const: bool,
            obs: &mut Vec<Value>, mm: &mut Mismatches, samples: &mut Vec<Value>) -> (u64, u64) {
    let (p_out, text) = lib.call_prog(name, args, is_const);
    let h_out = lib.call_host(name, args, is_const);
    let mut exact = 0;
    for (route, out) in [("prog", &p_out), ("host", &h_out)] {
        obs.push(json!({"ev": "call", "id": id, "name": name, "route": route, "args": args, "out": out, "text": text}));
        if k(out) != "value" {
            mm.push(k(out), json!({"id": id, "name": name, "route": route, "program": text, "args": args, "observed": out}));
        } else if k(pred) == "exact" {
            exact += 1;
            if strip_tags(&out["v"]) != strip_tags(&pred["v"]) {
                mm.push("result", json!({"id": id, "name": name, "route": route, "program": text, "args": args,
                    "expected": pred["v"], "observed": out["v"]}));
            }
        }
    }
    // to_lowercase / to_uppercase beyond ASCII: the specification fixes the ASCII part and the type; the Unicode case
    // mapping tables (final sigma, one-to-many mappings) are the host's (str::to_lowercase / to_uppercase)
    if (name == "std.string.to_lowercase" || name == "std.string.to_uppercase") && args.len() == 1 && k(&args[0]) == "string" {
        let subject: String = args[0]["cps"].as_array().unwrap().iter().filter_map(|c| char::from_u32(c.as_u64().unwrap() as u32)).collect();
        let want = if name.ends_with("lowercase") { subject.to_lowercase() } else { subject.to_uppercase() };
        for (route, out) in [("prog", &p_out), ("host", &h_out)] {
            if k(out) == "value" && k(&out["v"]) == "string" {
                let got: String = out["v"]["cps"].as_array().unwrap().iter().filter_map(|c| char::from_u32(c.as_u64().unwrap() as u32)).collect();
                if got != want {
                    mm.push("result", json!({"id": id, "name": name, "route": route, "program": text, "args": args,
                        "expected": format!("{want:?} (host case mapping)"), "observed": format!("{got:?}")}));
                }
            }
        }
    }
    // float_sum / float_product: the specification only gives the type (IEEE arithmetic is not expressible in TLA+);
    // the value is the left-to-right fold from 0.0 / 1.0, every step rounded on its own — host f64 as the reference
    if (name == "std.operators.float_sum" || name == "std.operators.float_product") && args.len() == 1 && args[0]["src"] == "iter" {
        if let Some(es) = args[0]["of"]["es"].as_array() {
            if es.iter().all(|e| k(e) == "float") {
                let product = name.ends_with("product");
                let mut acc: f64 = if product { 1.0 } else { 0.0 };
                for e in es {
                    let x = f64::from_bits(from_limbs(&e["bl"]));
                    acc = if product { acc * x } else { acc + x };
                }
                for (route, out) in [("prog", &p_out), ("host", &h_out)] {
                    if k(out) == "value" && k(&out["v"]) == "float" {
                        let got = f64::from_bits(from_limbs(&out["v"]["bl"]));
                        if !(got.to_bits() == acc.to_bits() || (got.is_nan() && acc.is_nan())) {
                            mm.push("result", json!({"id": id, "name": name, "route": route, "program": text, "args": args,
                                "expected": format!("{acc:?} (host fold)"), "observed": format!("{got:?}")}));
                        }
                    }
                }
            }
        }
    }
    if k(&p_out) == "value" && k(&h_out) == "value" && strip_tags(&p_out["v"]) != strip_tags(&h_out["v"])
        && !(name.starts_with("std.io.") || name.starts_with("std.fs.")
             // (the text of a function or of a cell holding one is not a function of the value's content)
             // (... and the order in which the fields of a struct are printed may differ between two values of equal content:
             // the field map is a HashMap with keys of its own)
             || (name == "std.convert.to_string" && { let t = serde_json::to_string(args).unwrap_or_default(); t.contains("\"fnv\"") || t.contains("\"cell\"") || args.iter().any(multi_field_struct) })) {
        mm.push("routes", json!({"id": id, "name": name, "program": text, "args": args, "prog": p_out["v"], "host": h_out["v"]}));
    }
    if samples.len() < 4 && k(pred) == "exact" && id.as_u64().unwrap_or(0) % 577 == 3 {
        samples.push(json!({"program": text, "expected": pred["v"], "observed": p_out}));
    }
    (2, exact)
}

fn replay(cases: &str, obs_path: &str, summary: &str, scratch: &str) -> Value {
    enter_scratch(scratch);
    let lib = Lib::new();
    let rows = read_ndjson(cases);
    let mut obs = vec![];
    let mut mm = Mismatches::new(200);
    let mut samples = vec![];
    let (mut calls, mut exact) = (0u64, 0u64);
    let mut names = std::collections::BTreeSet::new();
    for row in &rows {
        let name = row["name"].as_str().unwrap();
        names.insert(name.to_string());
        let args = row["args"].as_array().cloned().unwrap_or_default();
        let is_const = lib.leaf(name).map_or(false, |v| !matches!(v, Variable::Function(_))) && args.is_empty();
        if name.starts_with("std.fs.") || name.starts_with("std.io.") || row["id"].as_u64().unwrap_or(1) % 40 == 0 {
            lib.churn();
        }
        let (c, e) = run_case(&lib, &row["id"], name, &args, &row["pred"], is_const, &mut obs, &mut mm, &mut samples);
        calls += c;
        exact += e;
    }
    write_lines(obs_path, &obs);
    let s = json!({"cases": rows.len(), "calls": calls, "exact_compared": exact, "exports_called": names.len(),
        "mismatch_counts": mm.counts(), "mismatches": mm.items(), "samples": samples});
    write_json(summary, &s);
    json!({"done": "replay"})
}

// ------------------------------------------------------------------ seeded random arguments

const ALPHABET: &[u32] = &[97, 98, 65, 90, 44, 32, 9, 10, 233, 223, 304, 26085, 128512, 12288, 133, 0, 34, 92,
    48, 49, 57, 45, 43, 95, 160, 8203, 0x10FFFF, 0xD7FF, 0xE000];

fn rand_string(rng: &mut Rng, max: usize) -> Vec<u32> {
    (0..rng.below(max + 1)).map(|_| *rng.pick(ALPHABET)).collect()
}

fn rand_int(rng: &mut Rng) -> u64 {
    match rng.below(6) {
        0 => rng.below(300) as u64,
        1 => (rng.below(300) as i64).wrapping_neg() as u64,
        2 => {
            let p = 1u64 << rng.below(64);
            match rng.below(3) { 0 => p, 1 => p.wrapping_sub(1), _ => p.wrapping_add(1) }
        }
        3 => *rng.pick(&[i64::MIN as u64, i64::MAX as u64, u64::MAX, 0, 1, 10, 100, 1_000_000_007, 0xFF00FF00FF00FF00]),
        _ => rng.next(),
    }
}

fn rand_float(rng: &mut Rng) -> u64 {
    match rng.below(5) {
        0 => ((rng.below(4001) as f64 - 2000.0) / 2.0).to_bits(),
        1 => *rng.pick(&[f64::NAN.to_bits(), f64::INFINITY.to_bits(), f64::NEG_INFINITY.to_bits(), (-0.0f64).to_bits(),
            f64::MAX.to_bits(), f64::MIN_POSITIVE.to_bits(), 1, 0, 9.223372036854775807e18f64.to_bits(), (-9.3e18f64).to_bits()]),
        2 => ((rng.next() % 33_554_431) as f64 / 2.0 - 8_000_000.0).to_bits(),
        _ => rng.next(),
    }
}

fn int_w(x: u64) -> Value { json!({"k": "int", "l": limbs(x)}) }
fn float_w(b: u64) -> Value { json!({"k": "float", "bl": limbs(b)}) }
fn str_w(cps: &[u32]) -> Value { json!({"k": "string", "cps": cps}) }

fn rand_value(t: &Value, rng: &mut Rng, depth: usize) -> Value {
    match k(t) {
        "int" => int_w(rand_int(rng)),
        "float" => float_w(rand_float(rng)),
        "bool" => json!({"k": "bool", "v": rng.chance(1, 2)}),
        "string" => str_w(&rand_string(rng, 8)),
        "void" => json!({"k": "void"}),
        "any" => {
            let pick = ["int", "float", "bool", "string", "void", "array"][rng.below(if depth > 1 { 5 } else { 6 })];
            if pick == "array" {
                rand_value(&json!({"k": "array", "e": {"k": *rng.pick(&["int", "string", "float", "any"])}}), rng, depth + 1)
            } else {
                rand_value(&json!({"k": pick}), rng, depth + 1)
            }
        }
        "array" => {
            let n = rng.below(5);
            let es: Vec<Value> = (0..n).map(|_| rand_value(&t["e"], rng, depth + 1)).collect();
            // hidden tag: the declared element type when it is concrete, else what the elements are
            let tag = if k(&t["e"]) == "any" || es.is_empty() {
                let mut kinds: Vec<Value> = es.iter().map(value_type).collect();
                kinds.sort_by_key(|v| v.to_string());
                kinds.dedup();
                match kinds.len() { 0 => json!({"k": "never"}), 1 => kinds[0].clone(), _ => json!({"k": "multi", "ms": kinds}) }
            } else { t["e"].clone() };
            json!({"k": "array", "tag": tag, "es": es})
        }
        "multi" => {
            let ms = t["ms"].as_array().unwrap();
            rand_value(rng.pick(ms), rng, depth)
        }
        "fn" => {
            // only iterators () -> (bool, T) occur as parameters
            let et = t["r"]["es"][1].clone();
            let arr = rand_value(&json!({"k": "array", "e": et}), rng, depth + 1);
            let sig_e = if arr["es"].as_array().unwrap().is_empty() { json!({"k": "never"}) } else { et };
            json!({"k": "fnv", "src": "iter", "of": arr,
                   "sig": {"k": "fn", "ps": [], "r": {"k": "tuple", "es": [{"k": "bool"}, sig_e]}}})
        }
        other => panic!("random value of type kind {other}"),
    }
}

fn value_type(v: &Value) -> Value {
    match k(v) {
        "array" => json!({"k": "array", "e": v["tag"]}),
        other => json!({"k": other}),
    }
}

fn utf8ish(rng: &mut Rng) -> Value {
    let s: String = rand_string(rng, 4).iter().map(|c| char::from_u32(*c).unwrap()).collect();
    let mut bytes: Vec<i64> = s.bytes().map(|b| b as i64).collect();
    match rng.below(6) {
        0 if !bytes.is_empty() => { let i = rng.below(bytes.len()); bytes[i] = rng.below(256) as i64; }
        1 if !bytes.is_empty() => { let i = rng.below(bytes.len()); bytes.remove(i); }
        2 => { let i = rng.below(bytes.len() + 1); bytes.insert(i, *rng.pick(&[256, -1, 300, 321, 1 << 40, i64::MIN, 128, 255, 192])); }
        _ => {}
    }
    json!({"k": "array", "tag": if bytes.is_empty() { json!({"k": "never"}) } else { json!({"k": "int"}) },
           "es": bytes.iter().map(|b| int_w(*b as u64)).collect::<Vec<_>>()})
}

fn int_text(rng: &mut Rng) -> Vec<u32> {
    let mut s: Vec<u32> = vec![];
    match rng.below(4) { 0 => s.push(45), 1 => s.push(43), _ => {} }
    match rng.below(4) {
        0 => { let n = rng.next(); s.extend(n.to_string().chars().map(|c| c as u32)); }
        1 => { let base = 9223372036854775807u128 + rng.below(5) as u128 - 2; s.extend(base.to_string().chars().map(|c| c as u32)); }
        2 => { for _ in 0..rng.below(25) { s.push(48 + rng.below(10) as u32); } }
        _ => { s.extend((rng.below(100000) as u64).to_string().chars().map(|c| c as u32)); }
    }
    if rng.chance(1, 8) { let i = rng.below(s.len() + 1); s.insert(i, *rng.pick(&[32, 95, 45, 97, 46, 1635])); }
    s
}

fn random(table_path: &str, n: usize, obs_path: &str, summary: &str, scratch: &str) -> Value {
    enter_scratch(scratch);
    let lib = Lib::new();
    let table: Vec<Value> = read_ndjson(table_path).into_iter()
        .filter(|e| e["kind"] == "fn")
        .filter(|e| { let n = e["name"].as_str().unwrap(); !n.starts_with("std.fs.") && n != "std.io.cgetline" })
        .collect();
    let mut rng = Rng::from_env(0xC18);
    let mut obs = vec![];
    let mut mm = Mismatches::new(100);
    let mut calls = 0u64;
    for i in 0..n {
        let e = &table[i % table.len()];
        let name = e["name"].as_str().unwrap();
        if name.starts_with("std.io.print") && i / table.len() % 16 != 0 {
            continue; // a little of the stdout noise is enough
        }
        let ps = e["ps"].as_array().unwrap();
        let mut args: Vec<Value> = ps.iter().map(|t| rand_value(t, &mut rng, 0)).collect();
        match name {
            "std.string.str_from_utf8" | "std.string.str_from_utf8_lossy" => args[0] = utf8ish(&mut rng),
            "std.convert.parse_int" if rng.chance(3, 4) => args[0] = str_w(&int_text(&mut rng)),
            _ => {}
        }
        // patterns that occur: a later string parameter is often a piece of the first
        if ps.len() >= 2 && k(&ps[0]) == "string" && k(&ps[1]) == "string" && rng.chance(1, 2) {
            let subj: Vec<u32> = args[0]["cps"].as_array().unwrap().iter().map(|c| c.as_u64().unwrap() as u32).collect();
            if !subj.is_empty() {
                let a = rng.below(subj.len());
                let b = a + 1 + rng.below((subj.len() - a).min(2));
                args[1] = str_w(&subj[a..b.min(subj.len())]);
            }
        }
        let id = json!(format!("r{i}"));
        let route_host = rng.chance(1, 2);
        let (out, text) = if route_host {
            let mut b = vec![];
            let text = format!("{name}({})", args.iter().map(|a| render(a, &mut b)).collect::<Vec<_>>().join(", "));
            (lib.call_host(name, &args, false), text)
        } else { lib.call_prog(name, &args, false) };
        calls += 1;
        if k(&out) != "value" {
            mm.push(k(&out), json!({"id": id, "name": name, "route": if route_host { "host" } else { "prog" },
                "program": text, "args": args, "observed": out}));
        }
        obs.push(json!({"ev": "call", "id": id, "name": name, "route": if route_host { "host" } else { "prog" }, "args": args, "out": out, "text": text}));
    }
    write_lines(obs_path, &obs);
    write_json(summary, &json!({"calls": calls, "mismatch_counts": mm.counts(), "mismatches": mm.items()}));
    json!({"done": "random"})
}

// ------------------------------------------------------------------ cgetline

fn stdin_mode(cases: &str, id: u64, obs_path: &str, summary: &str) -> Value {
    let lib = Lib::new();
    let case = read_ndjson(cases).into_iter().find(|c| c["id"].as_u64() == Some(id)).expect("no such stdin case");
    let n = case["n"].as_u64().unwrap() as usize;
    let mut obs = vec![];
    let mut mm = Mismatches::new(50);
    for i in 0..n {
        let route = if (i + id as usize) % 2 == 0 { "prog" } else { "host" };
        let out = if route == "prog" { lib.call_prog("std.io.cgetline", &[], false).0 } else { lib.call_host("std.io.cgetline", &[], false) };
        let exp = &case["expect"][i];
        let ok = match k(exp) {
            "exact" => k(&out) == "value" && out["v"] == exp["v"],
            _ => k(&out) == "value" && k(&out["v"]) == "struct",
        };
        if !ok {
            mm.push("cgetline", json!({"id": id, "call": i + 1, "route": route, "stdin": case["stdin"], "expected": exp, "observed": out}));
        }
        obs.push(json!({"ev": "stdin", "id": id, "i": i + 1, "n": n, "route": route, "stdin": case["stdin"], "out": out}));
    }
    write_lines(obs_path, &obs);
    write_json(summary, &json!({"calls": n, "mismatch_counts": mm.counts(), "mismatches": mm.items()}));
    json!({"done": "stdin"})
}

// ------------------------------------------------------------------ file system behaviours

const BAD_UTF8: &str = "<not utf-8>";

fn unlock(dir: &Path) {
    if let Ok(md) = fs::symlink_metadata(dir) {
        if md.is_dir() {
            let _ = fs::set_permissions(dir, fs::Permissions::from_mode(0o755));
            if let Ok(rd) = fs::read_dir(dir) {
                for e in rd.flatten() {
                    unlock(&e.path());
                }
            }
        }
    }
}

fn wipe(root: &Path) {
    unlock(root);
    if let Ok(rd) = fs::read_dir(root) {
        for e in rd.flatten() {
            let p = e.path();
            if p.is_dir() { fs::remove_dir_all(&p).unwrap() } else { fs::remove_file(&p).unwrap() }
        }
    }
}

fn content_bytes(token: &str) -> Vec<u8> {
    if token == BAD_UTF8 { vec![0xff, 0xfe] } else { token.as_bytes().to_vec() }
}

/// establish a tree given as the specification's flat listing (parents come first)
fn setup(root: &Path, flat: &Value) {
    wipe(root);
    let items = flat.as_array().unwrap();
    for it in items {
        let p = root.join(it["p"].as_str().unwrap());
        if it["k"] == "dir" { fs::create_dir(&p).unwrap() } else { fs::write(&p, content_bytes(it["c"].as_str().unwrap())).unwrap() }
    }
    for it in items.iter().rev() {
        if it["k"] == "dir" && it["ro"] == true {
            fs::set_permissions(root.join(it["p"].as_str().unwrap()), fs::Permissions::from_mode(0o555)).unwrap();
        }
    }
}

/// the real tree in the specification's flat form
fn walk(root: &Path, prefix: &str, out: &mut Vec<Value>) {
    let mut names: Vec<String> = match fs::read_dir(root.join(prefix)) {
        Ok(rd) => rd.flatten().map(|e| e.file_name().to_string_lossy().into_owned()).collect(),
        Err(e) => { out.push(json!({"p": prefix, "k": "unreadable", "c": e.to_string(), "ro": false})); return; }
    };
    names.sort();
    for n in names {
        let rel = if prefix.is_empty() { n.clone() } else { format!("{prefix}/{n}") };
        let full = root.join(&rel);
        let md = fs::symlink_metadata(&full).unwrap();
        if md.is_dir() {
            out.push(json!({"p": rel, "k": "dir", "c": "", "ro": md.permissions().mode() & 0o200 == 0}));
            walk(root, &rel, out);
        } else if md.is_file() {
            let bytes = fs::read(&full).unwrap_or_default();
            let c = match String::from_utf8(bytes) { Ok(s) => s, Err(_) => BAD_UTF8.to_string() };
            out.push(json!({"p": rel, "k": "file", "c": c, "ro": false}));
        } else {
            out.push(json!({"p": rel, "k": "other", "c": "", "ro": false}));
        }
    }
}

fn permissions_enforced(root: &Path) -> bool {
    let probe = root.join("probe_ro");
    let _ = fs::create_dir(&probe);
    fs::set_permissions(&probe, fs::Permissions::from_mode(0o555)).unwrap();
    let enforced = fs::File::create(probe.join("f")).is_err();
    let _ = fs::set_permissions(&probe, fs::Permissions::from_mode(0o755));
    let _ = fs::remove_dir_all(&probe);
    enforced
}

struct FsModel {
    calls: Vec<Value>,
    inits: Vec<Value>,
    /// canonical tree text -> transitions per call: (ok, ret, tree afterwards)
    next: HashMap<String, Vec<(bool, String, Value)>>,
}

fn load_fs(dir: &str) -> FsModel {
    let calls = read_ndjson(&format!("{dir}/fs_calls.ndjson"));
    let inits = read_ndjson(&format!("{dir}/fs_inits.ndjson"));
    let mut next = HashMap::new();
    for row in read_ndjson(&format!("{dir}/fs_graph.ndjson")) {
        let key = row["s"].to_string();
        let trans = row["next"].as_array().unwrap().iter().map(|t| {
            if t["ok"] == 1 { (true, t["ret"].as_str().unwrap().to_string(), t["t"].clone()) } else { (false, "err".to_string(), row["s"].clone()) }
        }).collect();
        next.insert(key, trans);
    }
    FsModel { calls, inits, next }
}

struct FsRun<'a> {
    lib: &'a Lib,
    root: PathBuf,
    model: &'a FsModel,
    progs: HashMap<usize, Code>,
    fns: HashMap<String, Arc<Function>>,
    mm: Mismatches,
    results: HashMap<String, Value>,
    behaviours: u64,
    nontrivial: u64,
    calls: u64,
    ok_calls: u64,
    counter: u64,
    samples: Vec<Value>,
}

impl FsRun<'_> {
    fn abs(&self, rel: &str) -> String {
        self.root.join(rel).to_string_lossy().into_owned()
    }

    fn call_text(&self, c: &Value) -> (String, Vec<Value>) {
        let f = c["f"].as_str().unwrap();
        let mut args = vec![str_w(&self.abs(c["p"].as_str().unwrap()).chars().map(|ch| ch as u32).collect::<Vec<_>>())];
        if !c["q"].as_str().unwrap().is_empty() {
            args.push(str_w(&self.abs(c["q"].as_str().unwrap()).chars().map(|ch| ch as u32).collect::<Vec<_>>()));
        }
        if f == "write_to_file" {
            args.push(str_w(&c["c"].as_str().unwrap().chars().map(|ch| ch as u32).collect::<Vec<_>>()));
        }
        let mut b = vec![];
        (format!("std.fs.{f}({})", args.iter().map(|a| render(a, &mut b)).collect::<Vec<_>>().join(", ")), args)
    }

    /// run one call for real; `route` 0 = program, 1 = host API
    fn exec(&mut self, ci: usize, route: u64) -> Value {
        let c = self.model.calls[ci].clone();
        let (text, args) = self.call_text(&c);
        let name = format!("std.fs.{}", c["f"].as_str().unwrap());
        // route 2: the function reached through a NAME bound to it and called inside a function literal with literal
        // arguments (`al := std.fs.f; g := () -> any { return al(..) }; g()'); the program is parsed once and run
        // again at every later state of the walk — the call happens when g is called, not when it is made or parsed
        if route == 2 {
            // the function value g is made ONCE per call of the model (at whatever state the walk is in then) and kept;
            // every use of the call afterwards — at other states — calls the kept g through the host API
            let (fname, rest) = text.split_once('(').unwrap();
            let text = format!("al := {fname}; () -> any {{ return al({rest} }}");
            if !self.fns.contains_key(&text) {
                let made = catch(|| Code::parse(&self.lib.interp, &text).map_err(|e| e.to_string()).and_then(|c| c.exec().map_err(|e| e.to_string())));
                match made {
                    Ok(Ok(Variable::Function(f))) => { self.fns.insert(text.clone(), f); }
                    Ok(Ok(_)) => return json!({"k": "rejected", "msg": "not a function"}),
                    Ok(Err(e)) => return json!({"k": "rejected", "msg": e}),
                    Err(p) => return json!({"k": "panic", "msg": p}),
                }
            }
            let f = self.fns[&text].clone();
            let out = Lib::outcome(catch(|| {
                let code = f.create_call(vec![]).map_err(|e| json!({"k": "rejected", "msg": e.to_string()}).to_string())?;
                code.exec().map_err(|e| json!({"k": "error", "msg": e.to_string()}).to_string())
            }));
            let key = format!("{name} {}", out);
            if self.results.len() < 4000 && !self.results.contains_key(&key) {
                self.results.insert(key, json!({"ev": "call", "id": format!("fs{}", self.results.len()), "name": name,
                    "route": "alias-in-function", "args": args, "out": out, "text": text}));
            }
            return out;
        }
        let out = if route == 0 {
            if !self.progs.contains_key(&ci) {
                match catch(|| Code::parse(&self.lib.interp, &text)) {
                    Ok(Ok(code)) => { self.progs.insert(ci, code); }
                    Ok(Err(e)) => return json!({"k": "rejected", "msg": e.to_string()}),
                    Err(p) => return json!({"k": "panic", "msg": p}),
                }
            }
            let code = &self.progs[&ci];
            Lib::outcome(catch(|| code.exec().map_err(|e| json!({"k": "error", "msg": e.to_string()}).to_string())))
        } else {
            if !self.fns.contains_key(&name) {
                match self.lib.leaf(&name) {
                    Some(Variable::Function(f)) => { self.fns.insert(name.clone(), f); }
                    _ => return json!({"k": "rejected", "msg": "no such export"}),
                }
            }
            let f = self.fns[&name].clone();
            let lib = self.lib;
            Lib::outcome(catch(|| {
                let argv: Vec<Variable> = args.iter().map(|a| build(a, &lib.interp)).collect();
                let code = f.create_call(argv).map_err(|e| json!({"k": "rejected", "msg": e.to_string()}).to_string())?;
                code.exec().map_err(|e| json!({"k": "error", "msg": e.to_string()}).to_string())
            }))
        };
        // distinct (function, result) pairs are judged by TLC for membership in the declared type
        let key = format!("{name} {}", out);
        if self.results.len() < 4000 && !self.results.contains_key(&key) {
            self.results.insert(key, json!({"ev": "call", "id": format!("fs{}", self.results.len()), "name": name,
                "route": if route == 0 { "prog" } else if route == 2 { "alias-in-function" } else { "host" }, "args": args, "out": out, "text": text}));
        }
        out
    }

    /// execute call seq[step] in the real tree (which equals `state`) and compare with the
    /// specification's transition; false on disagreement
    #[allow(clippy::too_many_arguments)]
    fn step(&mut self, ini: usize, seq: &[usize], step: usize, state: &Value, ok: bool, ret: &str, after: &Value, route: u64) -> bool {
        let model = self.model;
        let ci = seq[step];
        let out = self.exec(ci, route);
        self.calls += 1;
        let class = if k(&out) != "value" { k(&out).to_string() } else {
            match k(&out["v"]) {
                "void" => "void".to_string(),
                "string" => cps_string(&out["v"]),
                "struct" => "err".to_string(),
                other => format!("unexpected {other}"),
            }
        };
        let mut tree = vec![];
        walk(&self.root, "", &mut tree);
        let tree = Value::Array(tree);
        let expected_class = if ok { ret.to_string() } else { "err".to_string() };
        if class != expected_class || tree != *after {
            let calls_txt: Vec<String> = seq[..=step].iter().map(|&c| self.call_text(&model.calls[c]).0).collect();
            self.mm.push(if class != expected_class { "fs_result" } else { "fs_state" }, json!({
                "initial_tree": model.inits[ini]["s"], "calls": calls_txt, "failing_step": step + 1,
                "f": model.calls[ci]["f"], "p": model.calls[ci]["p"], "q": model.calls[ci]["q"],
                "route": if route == 0 { "prog" } else if route == 2 { "alias-in-function" } else { "host" },
                "tree_before": state, "expected": {"ok": ok, "returns": expected_class, "tree": after},
                "observed": {"returns": class, "raw": out, "tree": tree}}));
            return false;
        }
        if ok { self.ok_calls += 1; }
        if self.samples.len() < 3 && ok && step == 1 && self.behaviours % 997 == 5 {
            let calls_txt: Vec<String> = seq[..=step].iter().map(|&c| self.call_text(&model.calls[c]).0).collect();
            self.samples.push(json!({"initial_tree": model.inits[ini]["s"], "calls": calls_txt, "tree_after_step_2": after}));
        }
        true
    }

    /// replay one whole behaviour from a freshly established initial tree
    fn behaviour(&mut self, ini: usize, seq: &[usize]) -> bool {
        let model = self.model;
        let mut state = model.inits[ini]["s"].clone();
        setup(&self.root, &state);
        self.behaviours += 1;
        self.counter += 1;
        for step in 0..seq.len() {
            let Some(trans) = model.next.get(&state.to_string()) else { panic!("harness: tree not in the emitted graph: {state}") };
            let (ok, ret, after) = trans[seq[step]].clone();
            let route = (self.counter + step as u64) % 3;
            if !self.step(ini, seq, step, &state, ok, &ret, &after, route) {
                return false;
            }
            state = after;
        }
        true
    }

    /// Depth-first over every call sequence of length <= depth from initial tree `ini`.
    /// Precondition and postcondition: the real tree equals `state`.  Every sequence is executed
    /// exactly once, as the extension of its prefix: its last call runs in the real tree that the
    /// prefix produced (after a successful extension the harness puts the differing sub-trees back
    /// and verifies by a walk that the tree equals `state` again).
    fn explore(&mut self, ini: usize, state: &Value, prefix: &mut Vec<usize>, depth: usize, any_ok: bool) {
        let model = self.model;
        let Some(trans) = model.next.get(&state.to_string()) else { panic!("harness: tree not in the emitted graph: {state}") };
        for ci in 0..model.calls.len() {
            prefix.push(ci);
            let (ok, ret, after) = &trans[ci];
            self.counter += 1;
            self.behaviours += 1;
            let route = self.counter % 3;
            let agreed = self.step(ini, prefix, prefix.len() - 1, state, *ok, ret, after, route);
            if agreed {
                if any_ok || *ok {
                    self.nontrivial += 1;
                }
                if prefix.len() < depth {
                    self.explore(ini, after, prefix, depth, any_ok || *ok);
                }
                if after != state {
                    self.restore(after, state);
                }
            } else {
                setup(&self.root, state);
            }
            prefix.pop();
        }
    }

    /// put back the top-level entries whose sub-trees differ; verify
    fn restore(&mut self, cur: &Value, target: &Value) {
        let sub = |flat: &Value, name: &str| -> Vec<Value> {
            flat.as_array().unwrap().iter().filter(|it| {
                let p = it["p"].as_str().unwrap();
                p == name || p.starts_with(&format!("{name}/"))
            }).cloned().collect()
        };
        let mut names: Vec<String> = cur.as_array().unwrap().iter().chain(target.as_array().unwrap())
            .map(|it| it["p"].as_str().unwrap().split('/').next().unwrap().to_string()).collect();
        names.sort();
        names.dedup();
        for name in names {
            let (a, b) = (sub(cur, &name), sub(target, &name));
            if a == b {
                continue;
            }
            let full = self.root.join(&name);
            if !a.is_empty() {
                unlock(&full);
                if full.is_dir() { fs::remove_dir_all(&full).unwrap() } else { fs::remove_file(&full).unwrap() }
            }
            for it in &b {
                let p = self.root.join(it["p"].as_str().unwrap());
                if it["k"] == "dir" { fs::create_dir(&p).unwrap() } else { fs::write(&p, content_bytes(it["c"].as_str().unwrap())).unwrap() }
            }
            for it in b.iter().rev() {
                if it["k"] == "dir" && it["ro"] == true {
                    fs::set_permissions(self.root.join(it["p"].as_str().unwrap()), fs::Permissions::from_mode(0o555)).unwrap();
                }
            }
        }
        let mut tree = vec![];
        walk(&self.root, "", &mut tree);
        if Value::Array(tree) != *target {
            panic!("harness: could not restore the tree {target}");
        }
    }
}

fn fs_mode(dir: &str, scratch: &str, obs_path: &str, summary: &str, depth: usize, sample3: usize, ro: &str) -> Value {
    fs::create_dir_all(scratch).unwrap();
    let root = PathBuf::from(scratch).join("tree");
    let _ = fs::create_dir_all(&root);
    std::env::set_current_dir(scratch).unwrap();
    let enforced = permissions_enforced(Path::new(scratch));
    let model = load_fs(dir);
    let lib = Lib::new();
    let mut run = FsRun { lib: &lib, root: root.clone(), model: &model, progs: HashMap::new(), fns: HashMap::new(),
        mm: Mismatches::new(60), results: HashMap::new(), behaviours: 0, nontrivial: 0, calls: 0, ok_calls: 0, counter: 0, samples: vec![] };
    let mut skipped_ro = 0u64;
    let mut rng = Rng::from_env(0xF5);
    let ncalls = model.calls.len();
    for ini in 0..model.inits.len() {
        let has_ro = model.inits[ini]["s"].as_array().unwrap().iter().any(|it| it["ro"] == true);
        if (has_ro && (ro == "skip" || !enforced)) || (!has_ro && ro == "only") {
            if has_ro { skipped_ro += 1; }
            continue;
        }
        let s0 = model.inits[ini]["s"].clone();
        setup(&root, &s0);
        run.explore(ini, &s0, &mut vec![], depth, false);
        for _ in 0..sample3 {
            let seq: Vec<usize> = (0..depth + 1).map(|_| rng.below(ncalls)).collect();
            run.behaviour(ini, &seq);
        }
    }
    wipe(&root);
    let _ = fs::remove_dir_all(&root);
    let mut obs: Vec<Value> = run.results.values().cloned().collect();
    obs.sort_by_key(|v| v["id"].to_string());
    write_lines(obs_path, &obs);
    write_json(summary, &json!({"behaviours": run.behaviours, "nontrivial": run.nontrivial, "calls": run.calls, "successful_calls": run.ok_calls,
        "permissions_enforced": enforced, "initial_trees_skipped_unwritable": skipped_ro, "distinct_results": obs.len(),
        "mismatch_counts": run.mm.counts(), "mismatches": run.mm.items(), "samples": run.samples}));
    json!({"done": "fs"})
}

// ------------------------------------------------------------------ random walks over the file system (impl -> spec)

fn with_pa(tree: Vec<Value>) -> Value {
    Value::Array(tree.into_iter().map(|mut it| {
        let pa: Vec<String> = it["p"].as_str().unwrap().split('/').map(str::to_string).collect();
        it["pa"] = json!(pa);
        it
    }).collect())
}

fn fswalk(scratch: &str, out_path: &str, summary: &str, nwalks: usize, len: usize) -> Value {
    fs::create_dir_all(scratch).unwrap();
    let root = PathBuf::from(scratch).join("tree");
    let _ = fs::create_dir_all(&root);
    std::env::set_current_dir(scratch).unwrap();
    let lib = Lib::new();
    let mut rng = Rng::from_env(0xF5A);
    const PATHS: &[&[&str]] = &[&["p"], &["q"], &["d"], &["p", "x"], &["q", "x"], &["d", "x"], &["d", "x", "x"], &["p", "x", "x"]];
    const FNS: &[&str] = &["file_read_to_string", "write_to_file", "copy_file", "remove_file", "remove_dir", "remove_dir_all",
        "create_dir", "create_dir_all", "rename", "rename", "create_dir", "write_to_file"];
    let mut events = vec![];
    let (mut calls, mut oks, mut unexpected) = (0u64, 0u64, 0u64);
    for run in 0..nwalks {
        // a random writable initial tree
        let mut flat = vec![];
        for name in ["d", "p", "q"] {
            match rng.below(5) {
                0 => {}
                1 => flat.push(json!({"p": name, "k": "file", "c": *rng.pick(&["a", "b", BAD_UTF8]), "ro": false})),
                2 => flat.push(json!({"p": name, "k": "dir", "c": "", "ro": false})),
                3 => {
                    flat.push(json!({"p": name, "k": "dir", "c": "", "ro": false}));
                    flat.push(json!({"p": format!("{name}/x"), "k": "file", "c": "c", "ro": false}));
                }
                _ => {
                    flat.push(json!({"p": name, "k": "dir", "c": "", "ro": false}));
                    flat.push(json!({"p": format!("{name}/x"), "k": "dir", "c": "", "ro": false}));
                }
            }
        }
        setup(&root, &Value::Array(flat));
        let mut tree = vec![];
        walk(&root, "", &mut tree);
        events.push(json!({"ev": "init", "run": run, "tree": with_pa(tree)}));
        for step in 0..len {
            let f = *rng.pick(FNS);
            let p = *rng.pick(PATHS);
            let two = f == "copy_file" || f == "rename";
            let mut q: &[&str] = if two { *rng.pick(PATHS) } else { &[] };
            if f == "copy_file" && q == p {
                q = if p == ["q"] { &["p"] } else { &["q"] };
            }
            let abs = |pa: &[&str]| root.join(pa.join("/")).to_string_lossy().into_owned();
            let mut args = vec![str_w(&abs(p).chars().map(|c| c as u32).collect::<Vec<_>>())];
            if two { args.push(str_w(&abs(q).chars().map(|c| c as u32).collect::<Vec<_>>())); }
            let c = if f == "write_to_file" { "w" } else { "" };
            if f == "write_to_file" { args.push(str_w(&[119])); }
            let name = format!("std.fs.{f}");
            let out = if (run + step) % 2 == 0 { lib.call_prog(&name, &args, false).0 } else { lib.call_host(&name, &args, false) };
            calls += 1;
            let ret = if k(&out) != "value" { unexpected += 1; format!("!{}", k(&out)) } else {
                match k(&out["v"]) {
                    "void" => { oks += 1; "void".to_string() }
                    "string" => { oks += 1; cps_string(&out["v"]) }
                    "struct" => "err".to_string(),
                    other => { unexpected += 1; format!("!{other}") }
                }
            };
            let mut tree = vec![];
            walk(&root, "", &mut tree);
            events.push(json!({"ev": "call", "run": run, "f": f, "p": p, "q": q, "c": c, "ret": ret, "tree": with_pa(tree),
                "route": if (run + step) % 2 == 0 { "prog" } else { "host" }, "raw": out}));
        }
    }
    wipe(&root);
    let _ = fs::remove_dir_all(&root);
    write_lines(out_path, &events);
    write_json(summary, &json!({"walks": nwalks, "calls": calls, "successful_calls": oks, "unexpected_outcomes": unexpected, "events": events.len()}));
    json!({"done": "fswalk"})
}

// ------------------------------------------------------------------ entry

pub fn run(args: &[String]) -> Value {
    let a = |i: usize| args.get(i).cloned().unwrap_or_else(|| panic!("stdlibx: missing argument {i}"));
    match args.first().map(String::as_str) {
        Some("table") => table(&a(1)),
        Some("replay") => replay(&a(1), &a(2), &a(3), &a(4)),
        Some("random") => random(&a(1), a(2).parse().unwrap(), &a(3), &a(4), &a(5)),
        Some("stdin") => stdin_mode(&a(1), a(2).parse().unwrap(), &a(3), &a(4)),
        Some("fswalk") => fswalk(&a(1), &a(2), &a(3), a(4).parse().unwrap(), a(5).parse().unwrap()),
        Some("fs") => fs_mode(&a(1), &a(2), &a(3), &a(4), a(5).parse().unwrap(), a(6).parse().unwrap(), &a(7)),
        _ => json!({"error": "usage: vh stdlibx table|replay|random|stdin|fs ..."}),
    }
}
