//! `vh seqs …` — binding of spec/Seqs.tla (C09: indexing, slicing, len) to the implementation.
//!
//!   vh seqs replay <dir> <quick|thorough>   replay TLC's cases (seqs_axes / seqs_at / seqs_slice
//!                                           .ndjson written by MC_Seqs) as SimpleSL programs
//!   vh seqs record <n> <out.ndjson>         seeded random cases beyond the enumerated bound, executed
//!                                           and recorded for validation by Trace_Seqs.tla
//!   vh seqs bench                            (development) programs per second
//!
//! Also the helpers shared with eqv.rs: rendering of specification values as source text, the
//! content (tag-free) description of an implementation value, and running one program.
use crate::util::{catch, read_ndjson, Rng};
use serde_json::{Value, json};
use simplesl::{
    Code, Error, Interpreter,
    variable::{ReturnType, Type, Typed, Variable},
};

// ------------------------------------------------------------------ shared helpers

pub fn k(v: &Value) -> &str {
    v.get("k").and_then(Value::as_str).unwrap_or("?")
}

fn items<'a>(v: &'a Value, key: &str) -> &'a [Value] {
    v.get(key).and_then(Value::as_array).map(Vec::as_slice).unwrap_or(&[])
}

/// struct fields: TLC writes a function with a string domain as a JSON object, the empty one as []
pub fn struct_fields(v: &Value) -> Vec<(String, Value)> {
    match v.get("fs") {
        Some(Value::Object(m)) => m.iter().map(|(k, v)| (k.clone(), v.clone())).collect(),
        Some(Value::Array(ps)) => ps.iter().map(|p| (p[0].as_str().unwrap().to_string(), p[1].clone())).collect(),
        _ => vec![],
    }
}

pub fn string_of_cps(v: &Value) -> String {
    items(v, "cps").iter().map(|c| char::from_u32(c.as_u64().unwrap() as u32).expect("scalar value")).collect()
}

fn string_literal(s: &str) -> String {
    let mut out = String::from("\"");
    for ch in s.chars() {
        match ch {
            '"' => out.push_str("\\\""),
            '\\' => out.push_str("\\\\"),
            c => out.push(c),
        }
    }
    out.push('"');
    out
}

/// Source text of a specification value (a literal, or the variable that holds an identity).
pub fn render_value(v: &Value) -> String {
    match k(v) {
        "bool" => v["b"].as_bool().unwrap().to_string(),
        "int" => {
            let n = v["v"].as_i64().unwrap();
            if n < 0 { format!("({n})") } else { n.to_string() }
        }
        "float" => match v["c"].as_str().unwrap() {
            "fin" => {
                let h = v["h"].as_i64().unwrap();
                let f = h as f64 / 2.0;
                if h < 0 { format!("({f:.1})") } else { format!("{f:.1}") }
            }
            "nan" => "(0.0/0.0)".into(),
            "negzero" => "(-0.0)".into(),
            "inf" => "(1.0/0.0)".into(),
            "neginf" => "(-1.0/0.0)".into(),
            other => panic!("float class {other}"),
        },
        "string" => string_literal(&string_of_cps(v)),
        "void" => "()".into(),
        "array" => format!("[{}]", items(v, "es").iter().map(render_value).collect::<Vec<_>>().join(", ")),
        "tuple" => format!("({})", items(v, "es").iter().map(render_value).collect::<Vec<_>>().join(", ")),
        "struct" => {
            let mut fs = struct_fields(v);
            fs.sort_by(|a, b| a.0.cmp(&b.0));
            format!("struct{{{}}}", fs.iter().map(|(n, x)| format!("{n} := {}", render_value(x))).collect::<Vec<_>>().join(", "))
        }
        "fnv" => format!("f{}", v["id"].as_i64().unwrap()),
        "cell" => format!("c{}", v["id"].as_i64().unwrap()),
        other => panic!("cannot render value kind {other}"),
    }
}

/// The i64 an extended integer stands for (None: absent).
pub fn ext_to_i64(x: &Value) -> Option<i64> {
    match k(x) {
        "none" => None,
        "i" => Some(x["v"].as_i64().unwrap()),
        "min" => Some(i64::MIN + x["d"].as_i64().unwrap()),
        "max" => Some(i64::MAX - x["d"].as_i64().unwrap()),
        other => panic!("extended integer kind {other}"),
    }
}

/// Source text of an int operand. MIN_INT has no literal: -9223372036854775807-1.
pub fn render_int(n: i64) -> String {
    if n == i64::MIN {
        "-9223372036854775807-1".into()
    } else {
        n.to_string()
    }
}

pub fn render_ext(x: &Value) -> String {
    ext_to_i64(x).map(render_int).unwrap_or_default()
}

/// The extended integer (as the specification writes it) of an i64, if it has one.
pub fn i64_to_ext(n: i64) -> Option<Value> {
    if n.unsigned_abs() < (1 << 30) {
        Some(json!({"k": "i", "v": n}))
    } else if n < 0 && (n.wrapping_sub(i64::MIN) as u64) < (1 << 20) {
        Some(json!({"k": "min", "d": n.wrapping_sub(i64::MIN)}))
    } else if n > 0 && ((i64::MAX - n) as u64) < (1 << 20) {
        Some(json!({"k": "max", "d": i64::MAX - n}))
    } else {
        None
    }
}

/// Content of an implementation value in the specification's shape: no hidden element types, no
/// declared cell types. Cells / functions are numbered by identity in order of first appearance.
pub fn content_of(v: &Variable, idents: &mut Vec<usize>) -> Value {
    fn ident(p: usize, idents: &mut Vec<usize>) -> usize {
        if let Some(i) = idents.iter().position(|x| *x == p) {
            i
        } else {
            idents.push(p);
            idents.len() - 1
        }
    }
    match v {
        Variable::Bool(b) => json!({"k": "bool", "b": b}),
        Variable::Int(n) => json!({"k": "int", "v": n}),
        Variable::Float(f) => {
            let h = f * 2.0;
            if f.is_nan() {
                json!({"k": "float", "c": "nan", "h": 0})
            } else if *f == 0.0 && f.is_sign_negative() {
                json!({"k": "float", "c": "negzero", "h": 0})
            } else if *f == f64::INFINITY {
                json!({"k": "float", "c": "inf", "h": 0})
            } else if *f == f64::NEG_INFINITY {
                json!({"k": "float", "c": "neginf", "h": 0})
            } else if h.fract() == 0.0 && h.abs() < 1e9 {
                json!({"k": "float", "c": "fin", "h": h as i64})
            } else {
                json!({"k": "float", "c": "other", "bits": f.to_bits().to_string()})
            }
        }
        Variable::String(s) => json!({"k": "string", "cps": s.chars().map(|c| c as u32).collect::<Vec<_>>()}),
        Variable::Void => json!({"k": "void"}),
        Variable::Array(a) => json!({"k": "array", "es": a.iter().map(|e| content_of(e, idents)).collect::<Vec<_>>()}),
        Variable::Tuple(es) => json!({"k": "tuple", "es": es.iter().map(|e| content_of(e, idents)).collect::<Vec<_>>()}),
        Variable::Struct(vm) => {
            let mut m = serde_json::Map::new();
            for (n, x) in vm.iter() {
                m.insert(n.to_string(), content_of(x, idents));
            }
            json!({"k": "struct", "fs": m})
        }
        Variable::Mut(c) => json!({"k": "cell", "id": ident(std::sync::Arc::as_ptr(c) as usize, idents)}),
        Variable::Function(f) => json!({"k": "fnv", "id": ident(std::sync::Arc::as_ptr(f) as usize, idents)}),
    }
}

pub enum Ran {
    Val { v: Variable, st: Option<Type> },
    Err { kind: String, stage: &'static str },
    Panic(String),
}

fn variant_name(debug: String) -> String {
    debug.split(|c: char| !(c.is_alphanumeric() || c == '_')).next().unwrap_or("").to_string()
}

/// Parse (checks + folds) and execute one program; every call into the code under test is caught.
pub fn run_text(interp: &Interpreter, text: &str) -> Ran {
    let code = match catch(|| Code::parse(interp, text)) {
        Err(p) => return Ran::Panic(format!("parse: {p}")),
        Ok(Err(e)) => {
            let kind = if matches!(e, Error::IndexOutOfBounds) { "IndexOutOfBounds".to_string() } else { variant_name(format!("{e:?}")) };
            return Ran::Err { kind, stage: "parse" };
        }
        Ok(Ok(c)) => c,
    };
    let st = catch(|| code.return_type()).ok();
    match catch(|| code.exec()) {
        Err(p) => Ran::Panic(format!("exec: {p}")),
        Ok(Err(e)) => Ran::Err { kind: variant_name(format!("{e:?}")), stage: "exec" },
        Ok(Ok(v)) => Ran::Val { v, st },
    }
}

/// The outcome in the specification's shape ({"k":"ok","v":…} | {"k":"err","e":…}), or a panic.
pub fn outcome_json(r: &Ran) -> Value {
    match r {
        Ran::Val { v, .. } => json!({"k": "ok", "v": content_of(v, &mut vec![])}),
        Ran::Err { kind, .. } => json!({"k": "err", "e": kind}),
        Ran::Panic(msg) => json!({"k": "panic", "msg": msg}),
    }
}

/// Does the value inhabit the static type the checker gave the program (by run-time tag)?
fn static_ok(r: &Ran) -> Option<(bool, String, String)> {
    if let Ran::Val { v, st: Some(st) } = r {
        let tag = v.as_type();
        Some((tag.matches(st), tag.to_string(), st.to_string()))
    } else {
        None
    }
}

// ------------------------------------------------------------------ rendering of the cases

fn param_type(s: &Value, mode: &str) -> &'static str {
    if mode == "fnu" {
        "[any]|string"
    } else if k(s) == "string" {
        "string"
    } else {
        "[any]"
    }
}

fn element_type(v: &Value) -> &'static str {
    match k(v) {
        "int" => "int",
        "float" => "float",
        "string" => "string",
        "bool" => "bool",
        "void" => "()",
        _ => "any",
    }
}

/// An array literal whose first element is the parameter `e` (so the literal is not a constant and
/// only its length is known to the folder); None for strings and empty arrays.
fn array_literal_with_param(s: &Value) -> Option<(String, String, String)> {
    let es = items(s, "es");
    if k(s) != "array" || es.is_empty() {
        return None;
    }
    let mut parts = vec!["e".to_string()];
    parts.extend(es[1..].iter().map(render_value));
    Some((format!("[{}]", parts.join(", ")), element_type(&es[0]).to_string(), render_value(&es[0])))
}

pub fn at_program(s: &Value, i: &Value, mode: &str) -> String {
    let (st, it) = (render_value(s), render_ext(i));
    match mode {
        "arrlit" => match array_literal_with_param(s) {
            Some((lit, ty, arg)) => format!("f := (e: {ty}) -> any {{ return {lit}[{it}]; }}; f({arg})"),
            None => format!("{st}[{it}]"),
        },
        "lit" => format!("{st}[{it}]"),
        // an array of equal elements written in repeat form, the element a parameter, length and index literals: what the
        // folder decides from the two literals must be what indexing the array gives (also one past the end)
        "rep" => {
            let xs = items(s, "es");
            if k(s) == "array" && xs.windows(2).all(|w| w[0] == w[1]) {
                let elem = xs.first().map(render_value).unwrap_or_else(|| "0".into());
                format!("f := (x: any) -> any {{ return [x; {}][{it}]; }}; f({elem})", xs.len())
            } else {
                format!("{st}[{it}]")
            }
        }
        "var" => format!("s := {st}; i := {it}; s[i]"),
        "fn" | "fnu" => format!("f := (s: {}, i: int) -> any {{ return s[i]; }}; f({st}, {it})", param_type(s, mode)),
        // the operation sits in an INNER function; its operands are parameters of the enclosing function, captured
        // when the inner function is made
        "clo" => format!("mk := (s: {}, i: int) -> () -> any {{ return () -> any {{ return s[i]; }}; }}; mk({st}, {it})()", param_type(s, "fn")),
        other => panic!("mode {other}"),
    }
}

pub fn len_program(s: &Value, mode: &str) -> String {
    let st = render_value(s);
    match mode {
        "arrlit" => match array_literal_with_param(s) {
            Some((lit, ty, arg)) => format!("g := (e: {ty}) -> int {{ return std.len({lit}); }}; g({arg})"),
            None => format!("std.len({st})"),
        },
        "lit" => format!("std.len({st})"),
        "rep" => {
            let xs = items(s, "es");
            if k(s) == "array" && xs.windows(2).all(|w| w[0] == w[1]) {
                let elem = xs.first().map(render_value).unwrap_or_else(|| "0".into());
                format!("g := (x: any) -> int {{ return std.len([x; {}]); }}; g({elem})", xs.len())
            } else {
                format!("std.len({st})")
            }
        }
        "var" => format!("s := {st}; std.len(s)"),
        "fn" | "fnu" => format!("g := (s: {}) -> int {{ return std.len(s); }}; g({st})", param_type(s, mode)),
        "clo" => format!("mk := (s: {}) -> () -> int {{ return () -> int {{ return std.len(s); }}; }}; mk({st})()", param_type(s, "fn")),
        other => panic!("mode {other}"),
    }
}

/// `[a:b:c]` with the given operand texts; an absent step is written `[a:b]` or `[a:b:]`.
fn brackets(a: &str, b: &str, c: &str, trailing_colon: bool) -> String {
    if c.is_empty() && !trailing_colon { format!("[{a}:{b}]") } else { format!("[{a}:{b}:{c}]") }
}

pub fn slice_program(s: &Value, a: &Value, b: &Value, c: &Value, mode: &str, trailing_colon: bool) -> String {
    let st = render_value(s);
    let (at, bt, ct) = (render_ext(a), render_ext(b), render_ext(c));
    match mode {
        "arrlit" => match array_literal_with_param(s) {
            Some((lit, ty, arg)) => format!(
                "f := (e: {ty}) -> any {{ r := {lit}{}; return (r, std.len(r)); }}; f({arg})",
                brackets(&at, &bt, &ct, trailing_colon)
            ),
            None => slice_program(s, a, b, c, "lit", trailing_colon),
        },
        "lit" => {
            let e = format!("{st}{}", brackets(&at, &bt, &ct, trailing_colon));
            format!("({e}, std.len({e}))")
        }
        "var" | "fn" | "fnu" | "clo" => {
            let names = [("a", &at), ("b", &bt), ("c", &ct)];
            let name = |i: usize| if names[i].1.is_empty() { "" } else { names[i].0 };
            let br = brackets(name(0), name(1), name(2), trailing_colon);
            let present: Vec<&(&str, &String)> = names.iter().filter(|(_, t)| !t.is_empty()).collect();
            if mode == "var" {
                let decls: String = present.iter().map(|(n, t)| format!("{n} := {t}; ")).collect();
                format!("s := {st}; {decls}r := s{br}; (r, std.len(r))")
            } else if mode == "clo" {
                let params: String = present.iter().map(|(n, _)| format!(", {n}: int")).collect();
                let args: String = present.iter().map(|(_, t)| format!(", {t}")).collect();
                format!("mk := (s: {}{params}) -> () -> any {{ return () -> any {{ r := s{br}; return (r, std.len(r)); }}; }}; mk({st}{args})()", param_type(s, "fn"))
            } else {
                let params: String = present.iter().map(|(n, _)| format!(", {n}: int")).collect();
                let args: String = present.iter().map(|(_, t)| format!(", {t}")).collect();
                format!("f := (s: {}{params}) -> any {{ r := s{br}; return (r, std.len(r)); }}; f({st}{args})", param_type(s, mode))
            }
        }
        // the operand is a NAME (exactly typed / union-typed), the bounds are literals: what the folder can decide from the
        // bounds alone must not depend on the operand's static type
        // the sequence is a LITERAL, one of the bounds that are present is a parameter, the others are literals (ls<n>: the
        // first bound present counting from position n): a slice of a constant is only known when all three bounds are
        "ls0" | "ls1" | "ls2" => {
            let start: usize = mode[2..].parse().unwrap();
            let texts = [&at, &bt, &ct];
            match (0..3).map(|d| (start + d) % 3).find(|&i| !texts[i].is_empty()) {
                None => slice_program(s, a, b, c, "lit", trailing_colon),
                Some(which) => {
                    let mut parts = [at.clone(), bt.clone(), ct.clone()];
                    parts[which] = "p".into();
                    let br = brackets(&parts[0], &parts[1], &parts[2], trailing_colon);
                    format!("f := (p: int) -> any {{ r := {st}{br}; return (r, std.len(r)); }}; f({})", texts[which])
                }
            }
        }
        "fnl" | "fnul" => {
            let br = brackets(&at, &bt, &ct, trailing_colon);
            format!("f := (s: {}) -> any {{ r := s{br}; return (r, std.len(r)); }}; f({st})", param_type(s, if mode == "fnul" { "fnu" } else { "fn" }))
        }
        other => panic!("mode {other}"),
    }
}

/// All in-range indices of one sequence read in ONE program, in the order given, each twice in a row, through one name:
/// reading s[i] must not depend on what was read from s before.
pub fn at_sequence_program(s: &Value, indices: &[String], union_typed: bool) -> String {
    let reads: Vec<String> = indices.iter().flat_map(|i| [format!("s[{i}]"), format!("s[{i}]")]).collect();
    format!("f := (s: {}) -> any {{ return [{}]; }}; f({})", param_type(s, if union_typed { "fnu" } else { "fn" }), reads.join(", "), render_value(s))
}

fn is_min(x: &Value) -> bool {
    k(x) == "min" && x["d"].as_i64() == Some(0)
}

// ------------------------------------------------------------------ replay

/// Mismatches collected by one worker thread; merged at the end (full counts, capped items).
#[derive(Default)]
pub struct Bag {
    pub counts: std::collections::BTreeMap<String, u64>,
    pub items: Vec<Value>,
}

impl Bag {
    pub fn push(&mut self, kind: &str, mut detail: Value) {
        let c = self.counts.entry(kind.to_string()).or_insert(0);
        *c += 1;
        if *c <= 12 {
            detail["kind"] = json!(kind);
            self.items.push(detail);
        }
    }
    pub fn merge(&mut self, other: Bag) {
        for (k, v) in other.counts {
            *self.counts.entry(k).or_insert(0) += v;
        }
        self.items.extend(other.items);
    }
    pub fn counts_json(&self) -> Value {
        json!(self.counts)
    }
    /// at most `cap` items, round-robin over the kinds so that no kind starves another
    pub fn items_json(&self, cap: usize) -> Value {
        let mut by_kind: std::collections::BTreeMap<String, Vec<&Value>> = Default::default();
        for it in &self.items {
            by_kind.entry(it["kind"].as_str().unwrap_or("?").to_string()).or_default().push(it);
        }
        let mut out = vec![];
        let mut i = 0;
        while out.len() < cap {
            let mut any = false;
            for v in by_kind.values() {
                if let Some(x) = v.get(i) {
                    if out.len() < cap {
                        out.push((*x).clone());
                    }
                    any = true;
                }
            }
            if !any {
                break;
            }
            i += 1;
        }
        Value::Array(out)
    }
}

pub fn threads() -> usize {
    std::env::var("VERIF_THREADS").ok().and_then(|s| s.parse().ok()).unwrap_or(4).max(1)
}

/// Run `work(worker index, number of workers)` on `threads()` big-stack threads.
pub fn parallel<T: Send>(work: impl Fn(usize, usize) -> T + Sync) -> Vec<T> {
    let n = threads();
    std::thread::scope(|sc| {
        let hs: Vec<_> = (0..n)
            .map(|w| {
                let work = &work;
                std::thread::Builder::new().stack_size(256 << 20).spawn_scoped(sc, move || work(w, n)).unwrap()
            })
            .collect();
        hs.into_iter().map(|h| h.join().expect("worker thread panicked")).collect()
    })
}

#[derive(Default)]
struct Ctx {
    mm: Bag,
    evals: u64,
    known_min_panic: u64,
    known_examples: Vec<Value>,
    static_checks: u64,
    samples: Vec<Value>,
    at_cases: u64,
    len_cases: u64,
    at_ok: u64,
    at_err: u64,
    slice_cases: u64,
    slice_runs: u64,
    nonempty: u64,
    distinct: std::collections::HashSet<String>,
}

impl Ctx {
    fn check_static(&mut self, r: &Ran, what: &str, program: &str) {
        if let Some((ok, tag, st)) = static_ok(r) {
            self.static_checks += 1;
            if !ok {
                self.mm.push("static", json!({"what": what, "program": program, "value_tag": tag, "static": st}));
            }
        }
    }
}

fn replay(dir: &str, tier: &str) -> Value {
    let axes = &read_ndjson(&format!("{dir}/seqs_axes.ndjson"))[0];
    let idx = items(axes, "idx").to_vec();
    let bounds = items(axes, "bounds").to_vec();
    let steps = items(axes, "steps").to_vec();
    let thorough = tier == "thorough";
    let at_modes: &[&str] = if thorough { &["lit", "arrlit", "var", "fn", "fnu", "clo", "rep"] } else { &["lit", "arrlit", "fn", "fnu", "clo", "rep"] };
    let at_rows = read_ndjson(&format!("{dir}/seqs_at.ndjson"));
    let slice_rows = read_ndjson(&format!("{dir}/seqs_slice.ndjson"));
    let parts = parallel(|w, nw| {
        let interp = Interpreter::with_stdlib();
        let mut cx = Ctx::default();
        // ---- indexing and len
        for (ri, row) in at_rows.iter().enumerate() {
            if ri % nw != w {
                continue;
            }
            let s = &row["s"];
            let want_len = json!({"k": "ok", "v": {"k": "int", "v": row["len"]}});
            for mode in at_modes {
                let program = len_program(s, mode);
                let r = run_text(&interp, &program);
                cx.evals += 1;
                cx.len_cases += 1;
                let got = outcome_json(&r);
                if got != want_len {
                    cx.mm.push("len", json!({"mode": mode, "s": s, "program": program, "expected": want_len, "observed": got}));
                }
            }
            for (j, want) in items(row, "at").iter().enumerate() {
                if k(want) == "ok" { cx.at_ok += 1 } else { cx.at_err += 1 }
                for mode in at_modes {
                    let program = at_program(s, &idx[j], mode);
                    let r = run_text(&interp, &program);
                    cx.evals += 1;
                    cx.at_cases += 1;
                    let got = outcome_json(&r);
                    if &got != want {
                        cx.mm.push("at", json!({"mode": mode, "s": s, "i": idx[j], "program": program,
                            "expected": want, "observed": got}));
                    }
                    cx.check_static(&r, "at", &program);
                    if ri == at_rows.len() / 2 && (j == 5 || j == 9) && *mode == "fn" {
                        cx.samples.push(json!({"program": program, "spec": want, "impl": got}));
                    }
                }
            }
            // s[i] as a STATEMENT whose value is discarded (not the last statement of its body): still evaluated - an index out
            // of range ends the run with the error, an index in range lets it go on
            for (j, want) in items(row, "at").iter().enumerate() {
                if j % 2 == ri % 2 {
                    continue;
                }
                let it = render_ext(&idx[j]);
                let program = format!("f := (s: {}, i: int) -> any {{ s[i]; {{ s[i]; 0 }}; return std.len(s); }}; f({}, {it})", param_type(s, "fn"), render_value(s));
                let r = run_text(&interp, &program);
                cx.evals += 1;
                cx.at_cases += 1;
                let got = outcome_json(&r);
                let expect = if k(want) == "ok" { want_len.clone() } else { want.clone() };
                if got != expect {
                    cx.mm.push("at", json!({"mode": "statement", "s": s, "i": idx[j], "program": program, "expected": expect, "observed": got}));
                }
            }
            // every in-range index of this sequence in one program (ascending, descending and interleaved order)
            let ok: Vec<(String, Value)> = items(row, "at").iter().enumerate().filter(|(_, w)| k(w) == "ok")
                .map(|(j, w)| (render_ext(&idx[j]), w["v"].clone())).collect();
            if !ok.is_empty() {
                let mut orders: Vec<Vec<usize>> = vec![(0..ok.len()).collect(), (0..ok.len()).rev().collect()];
                orders.push((0..ok.len()).map(|x| if x % 2 == 0 { x / 2 } else { ok.len() - 1 - x / 2 }).collect());
                for (oi, order) in orders.iter().enumerate() {
                    let texts: Vec<String> = order.iter().map(|&x| ok[x].0.clone()).collect();
                    let program = at_sequence_program(s, &texts, oi == 1);
                    let r = run_text(&interp, &program);
                    cx.evals += 1;
                    cx.at_cases += 1;
                    let got = outcome_json(&r);
                    let want_es: Vec<Value> = order.iter().flat_map(|&x| [ok[x].1.clone(), ok[x].1.clone()]).collect();
                    let same = got["k"] == "ok" && got["v"]["k"] == "array"
                        && got["v"]["es"].as_array().map(|es| es.len() == want_es.len() && es.iter().zip(&want_es).all(|(a, b)| a == b)).unwrap_or(false);
                    if !same {
                        cx.mm.push("at", json!({"mode": "sequence", "s": s, "i": texts, "program": program,
                            "expected": want_es, "observed": got}));
                    }
                }
            }
        }
        // ---- slicing
        for (ri, row) in slice_rows.iter().enumerate() {
            if ri % nw != w {
                continue;
            }
            let s = &row["s"];
            let a = &bounds[row["a"].as_u64().unwrap() as usize - 1];
            for (bi, b) in bounds.iter().enumerate() {
                for (ci, c) in steps.iter().enumerate() {
                    let want_r = &row["r"][bi][ci];
                    let want_n = &row["n"][bi][ci];
                    let want = json!({"k": "ok", "v": {"k": "tuple", "es": [want_r, {"k": "int", "v": want_n}]}});
                    cx.slice_cases += 1;
                    if want_n.as_i64() != Some(0) {
                        cx.nonempty += 1;
                    }
                    cx.distinct.insert(format!("{s}{want_r}"));
                    let parity = (ri + bi + ci) % 2 == 0;
                    let modes: Vec<&str> = if thorough {
                        vec!["lit", "arrlit", "var", "fn", "fnu", "clo", "fnl", "fnul", "ls0", "ls1", "ls2"]
                    } else {
                        vec!["lit", if parity { "fn" } else { "fnu" }, if (ri + bi) % 2 == 0 { "var" } else { "arrlit" }, if (ri + ci) % 3 == 0 { "clo" } else { "lit" },
                             if (ri + bi + ci) % 3 == 0 { "fnl" } else { "fnul" }, ["ls0", "ls1", "ls2"][(ri + 2 * bi + ci) % 3]]
                    };
                    for mode in modes {
                        let program = slice_program(s, a, b, c, mode, parity);
                        let r = run_text(&interp, &program);
                        cx.evals += 1;
                        cx.slice_runs += 1;
                        let got = outcome_json(&r);
                        if got != want {
                            let detail = json!({"mode": mode, "s": s, "start": a, "stop": b, "step": c,
                                "program": program, "expected": want, "observed": got});
                            if k(&got) == "panic" && (is_min(a) || is_min(b)) {
                                cx.known_min_panic += 1;
                                if cx.known_examples.len() < 2 {
                                    cx.known_examples.push(detail);
                                }
                            } else {
                                cx.mm.push("slice", detail);
                            }
                        }
                        cx.check_static(&r, "slice", &program);
                        if ri == slice_rows.len() / 3 && bi == 9 && ci == 6 {
                            cx.samples.push(json!({"program": program, "spec": want, "impl": got}));
                        }
                    }
                }
            }
        }
        cx
    });
    let mut t = Ctx::default();
    for p in parts {
        t.mm.merge(p.mm);
        t.evals += p.evals;
        t.known_min_panic += p.known_min_panic;
        t.known_examples.extend(p.known_examples);
        t.static_checks += p.static_checks;
        t.samples.extend(p.samples);
        t.at_cases += p.at_cases;
        t.len_cases += p.len_cases;
        t.at_ok += p.at_ok;
        t.at_err += p.at_err;
        t.slice_cases += p.slice_cases;
        t.slice_runs += p.slice_runs;
        t.nonempty += p.nonempty;
        t.distinct.extend(p.distinct);
    }
    json!({
        "at_sequences": at_rows.len(), "at_cases": t.at_cases, "at_in_range": t.at_ok, "at_out_of_range": t.at_err,
        "len_cases": t.len_cases, "slice_sequences_x_starts": slice_rows.len(), "slice_cases": t.slice_cases,
        "slice_runs": t.slice_runs, "slice_nonempty": t.nonempty, "slice_distinct_results": t.distinct.len(),
        "static_checks": t.static_checks, "evaluations": t.evals,
        "min_int_bound_panics": t.known_min_panic, "min_int_bound_examples": t.known_examples,
        "mismatch_counts": t.mm.counts_json(), "mismatches": t.mm.items_json(60), "samples": t.samples,
    })
}

// ------------------------------------------------------------------ record (impl -> spec)

const POOL: &[char] = &['a', 'Z', '0', ' ', '\u{e9}', '\u{df}', '\u{3a9}', '\u{301}', '\u{200d}', '\u{20ac}', '\u{4e2d}',
    '\u{d7ff}', '\u{e000}', '\u{fffd}', '\u{1f600}', '\u{10ffff}', '\u{10000}', '\u{7f}', '\u{80}', '\u{7ff}', '\u{800}', '\u{ffff}'];

fn random_seq(rng: &mut Rng, max_len: usize) -> Value {
    let n = rng.below(max_len + 1);
    if rng.chance(1, 2) {
        json!({"k": "string", "cps": (0..n).map(|_| *rng.pick(POOL) as u32).collect::<Vec<_>>()})
    } else {
        let es: Vec<Value> = (0..n)
            .map(|i| match rng.below(5) {
                0 => json!({"k": "float", "c": "fin", "h": (rng.below(41) as i64) - 20}),
                1 => json!({"k": "string", "cps": [*rng.pick(POOL) as u32]}),
                2 => json!({"k": "bool", "b": rng.chance(1, 2)}),
                3 => json!({"k": "array", "es": [{"k": "int", "v": i}]}),
                _ => json!({"k": "int", "v": (rng.below(2001) as i64) - 1000}),
            })
            .collect();
        json!({"k": "array", "es": es})
    }
}

fn random_int(rng: &mut Rng, n: usize) -> i64 {
    let span = (2 * n + 7) as i64;
    match rng.below(12) {
        0 => i64::MIN + rng.below(3) as i64,
        1 => i64::MAX - rng.below(3) as i64,
        2 => (rng.below(2_000_001) as i64) - 1_000_000,
        3 => (1 << 29) + rng.below(1000) as i64,
        4 => -(1 << 29) - rng.below(1000) as i64,
        _ => (rng.below(span as usize) as i64) - span / 2,
    }
}

fn random_ext(rng: &mut Rng, n: usize, absent: bool) -> Value {
    if absent && rng.chance(1, 5) {
        return json!({"k": "none"});
    }
    i64_to_ext(random_int(rng, n)).unwrap()
}

fn record(n_cases: usize, path: &str) -> Value {
    use std::io::Write;
    let mut rng = Rng::from_env(0x5e95);
    let interp = Interpreter::with_stdlib();
    let mut f = std::io::BufWriter::new(std::fs::File::create(path).expect("create trace file"));
    let (mut ats, mut slices, mut lens) = (0u64, 0u64, 0u64);
    for i in 0..n_cases {
        let s = random_seq(&mut rng, 12);
        let n = items(&s, if k(&s) == "string" { "cps" } else { "es" }).len();
        let mode = *rng.pick(&["lit", "arrlit", "var", "fn", "fnu", "clo"]);
        let rec = match rng.below(8) {
            0 => {
                lens += 1;
                let program = len_program(&s, mode);
                let got = outcome_json(&run_text(&interp, &program));
                json!({"op": "len", "s": s, "mode": mode, "program": program, "got": got})
            }
            1 | 2 | 3 => {
                ats += 1;
                let x = random_ext(&mut rng, n, false);
                let program = at_program(&s, &x, mode);
                let got = outcome_json(&run_text(&interp, &program));
                json!({"op": "at", "s": s, "i": x, "mode": mode, "program": program, "got": got})
            }
            _ => {
                slices += 1;
                let (a, b, c) = (random_ext(&mut rng, n, true), random_ext(&mut rng, n, true), random_ext(&mut rng, n, true));
                let program = slice_program(&s, &a, &b, &c, mode, i % 2 == 0);
                let got = outcome_json(&run_text(&interp, &program));
                json!({"op": "slice", "s": s, "a": a, "b": b, "c": c, "mode": mode, "program": program, "got": got})
            }
        };
        writeln!(f, "{}", serde_json::to_string(&rec).unwrap()).unwrap();
    }
    f.flush().unwrap();
    json!({"recorded": n_cases, "at": ats, "slice": slices, "len": lens, "path": path})
}

fn bench() -> Value {
    let interp = Interpreter::with_stdlib();
    let s = json!({"k": "array", "es": [{"k": "int", "v": 1}, {"k": "float", "c": "fin", "h": 5}]});
    let (a, b, c) = (json!({"k": "i", "v": -1}), json!({"k": "none"}), json!({"k": "i", "v": 2}));
    let mut out = serde_json::Map::new();
    for mode in ["lit", "var", "fn", "fnu"] {
        let program = slice_program(&s, &a, &b, &c, mode, false);
        let t = std::time::Instant::now();
        for _ in 0..20000 {
            let _ = run_text(&interp, &program);
        }
        out.insert(mode.into(), json!({"program": program, "per_s": (20000.0 / t.elapsed().as_secs_f64()) as u64}));
    }
    Value::Object(out)
}

pub fn run(args: &[String]) -> Value {
    match args.first().map(String::as_str) {
        Some("replay") => replay(&args[1], args.get(2).map(String::as_str).unwrap_or("quick")),
        Some("record") => record(args[1].parse().expect("count"), &args[2]),
        Some("bench") => bench(),
        _ => json!({"error": "usage: vh seqs replay <dir> <tier> | record <n> <out> | bench"}),
    }
}
