//! C14 — operator precedence and associativity.
//!
//! `vh prec replay <dir>`   spec -> impl.  Reads what TLC wrote from spec/MC_Prec.tla and
//!                          spec/MC_PrecVal.tla:
//!   <dir>/prec_cases.ndjson   token sequences with the prescribed fully parenthesised tree (or
//!                             "reject"); observed *structurally*: the text is parsed with the real
//!                             grammar (`SimpleSLParser::parse(Rule::input, ..)`) and grouped by the
//!                             real table (`PRATT_PARSER` with callbacks that build a parenthesised
//!                             string), whatever the operands' types are;
//!   <dir>/prec_values.ndjson  operands chosen by the specification such that the groupings are
//!                             observably different, with the predicted value of the unparenthesised
//!                             text and of every parenthesised alternative; observed *by value*
//!                             through `Code::parse(..).exec()` in two execution forms (operands as
//!                             constants; operands as parameters of a function).
//! `vh prec record <dir> <n> <out.ndjson>`   impl -> spec.  A seeded random stream of longer token
//!                             sequences (3..9 binary operators, prefix and postfix forms) over the
//!                             lexicon TLC wrote (<dir>/prec_lexicon.ndjson) is parsed structurally
//!                             and written for spec/MC_PrecTrace.tla, which recomputes the grouping.
//!
//! Nothing here knows a precedence level: the lexicon carries names and fixities only.
use crate::util::{Mismatches, Rng, catch, read_ndjson};
use pest::{Parser, iterators::Pair};
use serde_json::{Value, json};
use simplesl::{Code, Interpreter, variable::Variable};
use simplesl_parser::{PRATT_PARSER, Rule, SimpleSLParser};
use std::io::Write;

// ------------------------------------------------------------------ structural observation

fn squeeze(s: &str) -> String {
    s.chars().filter(|c| !c.is_whitespace()).collect()
}

/// Fully parenthesised rendering of an `expr` pair, grouped by the implementation's Pratt table.
/// Same format as `Show` in Prec.tla: `(l op r)`, `(op e)` without blank, `(e op)` without blank.
fn tree_of(pair: Pair<Rule>) -> String {
    PRATT_PARSER
        .map_primary(|p| if p.as_rule() == Rule::expr { tree_of(p) } else { squeeze(p.as_str()) })
        .map_prefix(|op, rhs| format!("({}{})", squeeze(op.as_str()), rhs))
        .map_infix(|lhs, op, rhs| format!("({} {} {})", lhs, squeeze(op.as_str()), rhs))
        .map_postfix(|lhs, op| format!("({}{})", lhs, squeeze(op.as_str())))
        .parse(pair.into_inner())
}

/// Ok(tree) when the whole text is exactly one expression; Err(reason) otherwise.
pub fn observe(text: &str) -> Result<String, String> {
    let res = catch(|| -> Result<String, String> {
        let pairs = SimpleSLParser::parse(Rule::input, text).map_err(|_| "syntax error".to_string())?;
        let pairs: Vec<Pair<Rule>> = pairs.filter(|p| p.as_rule() != Rule::EOI).collect();
        if pairs.len() != 1 {
            return Err(format!("{} statements", pairs.len()));
        }
        let pair = pairs.into_iter().next().unwrap();
        if pair.as_rule() != Rule::expr {
            return Err(format!("a {:?}, not an expression", pair.as_rule()));
        }
        if pair.as_str().trim() != text.trim() {
            return Err("expression does not span the text".to_string());
        }
        Ok(tree_of(pair))
    });
    match res {
        Ok(r) => r,
        Err(p) => Err(format!("PANIC {p}")),
    }
}

fn case_text(c: &Value) -> String {
    let sep = c["sep"].as_str().unwrap_or(" ");
    c["parts"].as_array().unwrap().iter().map(|p| p.as_str().unwrap()).collect::<Vec<_>>().join(sep)
}

// ------------------------------------------------------------------ observation by value

fn lit(v: &Value) -> String {
    match v["k"].as_str().unwrap() {
        "int" => v["v"].as_i64().unwrap().to_string(),
        "bool" => v["v"].as_bool().unwrap().to_string(),
        "cell" => format!("mut {}", lit(&v["c"])),
        "arr" => format!("[{}]", v["es"].as_array().unwrap().iter().map(lit).collect::<Vec<_>>().join(", ")),
        "tup" => format!("({})", v["es"].as_array().unwrap().iter().map(lit).collect::<Vec<_>>().join(", ")),
        "struct" => format!("struct{{x := {}}}", lit(&v["x"])),
        "fn" => match v["n"].as_str().unwrap() {
            "inc" => "(x: int) -> int { return x + 1 }".to_string(),
            "dbl" => "(x: int) -> int { return 2 * x }".to_string(),
            "odd" => "(x: int) -> bool { return x % 2 == 1 }".to_string(),
            "add" => "(acc: int, x: int) -> int { return acc + x }".to_string(),
            other => panic!("unknown named function {other}"),
        },
        other => panic!("cannot render a {other}"),
    }
}

fn type_of(v: &Value) -> String {
    match v["k"].as_str().unwrap() {
        "int" => "int".to_string(),
        "bool" => "bool".to_string(),
        "cell" => format!("mut {}", type_of(&v["c"])),
        "arr" => format!("[{}]", v["ek"].as_str().unwrap()),
        "tup" => format!("({})", v["es"].as_array().unwrap().iter().map(type_of).collect::<Vec<_>>().join(", ")),
        "struct" => format!("struct{{x: {}}}", type_of(&v["x"])),
        "fn" => match v["n"].as_str().unwrap() {
            "inc" | "dbl" => "(int) -> int".to_string(),
            "odd" => "(int) -> bool".to_string(),
            "add" => "(int, int) -> int".to_string(),
            other => panic!("unknown named function {other}"),
        },
        "none" => "any".to_string(),
        other => panic!("no type for a {other}"),
    }
}

/// The observable part of a value, in the specification's wire form (element kinds dropped).
fn var_json(v: &Variable) -> Value {
    match v {
        Variable::Int(n) => json!({"k": "int", "v": n}),
        Variable::Bool(b) => json!({"k": "bool", "v": b}),
        Variable::Array(a) => json!({"k": "arr", "es": a.iter().map(var_json).collect::<Vec<_>>()}),
        Variable::Tuple(t) => json!({"k": "tup", "es": t.iter().map(var_json).collect::<Vec<_>>()}),
        other => json!({"k": "other", "dbg": format!("{other:?}")}),
    }
}

fn strip_ek(v: &Value) -> Value {
    match v {
        Value::Object(m) => Value::Object(m.iter().filter(|(k, _)| k.as_str() != "ek").map(|(k, x)| (k.clone(), strip_ek(x))).collect()),
        Value::Array(a) => Value::Array(a.iter().map(strip_ek).collect()),
        other => other.clone(),
    }
}

/// The program that evaluates `expr` over the chosen operands. form 0: operands are constants
/// of the enclosing scope; form 1: operands are parameters of a function that is then called.
fn program(decls: &[Value], expr: &str, ret: &Value, form: usize) -> String {
    let cells: Vec<&Value> = decls.iter().filter(|d| d["v"]["k"] == "cell").collect();
    let mut p = String::new();
    if form == 0 {
        for d in decls {
            p += &format!("{} := {};\n", d["n"].as_str().unwrap(), lit(&d["v"]));
        }
        p += &format!("vres := {expr};\n");
    } else {
        for d in &cells {
            p += &format!("{} := {};\n", d["n"].as_str().unwrap(), lit(&d["v"]));
        }
        let params = decls.iter().map(|d| format!("{}: {}", d["n"].as_str().unwrap(), type_of(&d["v"]))).collect::<Vec<_>>().join(", ");
        let args = decls
            .iter()
            .map(|d| if d["v"]["k"] == "cell" { d["n"].as_str().unwrap().to_string() } else { lit(&d["v"]) })
            .collect::<Vec<_>>()
            .join(", ");
        p += &format!("vfun := ({params}) -> {} {{ return {expr} }};\n", type_of(ret));
        p += &format!("vres := vfun({args});\n");
    }
    if cells.is_empty() {
        p += "vres";
    } else {
        p += &format!("(vres, {})", cells.iter().map(|d| format!("*{}", d["n"].as_str().unwrap())).collect::<Vec<_>>().join(", "));
    }
    p
}

/// {"ok": true, "v": .., "cells": [..]} or {"ok": false, "why": ..}
fn run_program(prog: &str, n_cells: usize) -> Value {
    let interp = Interpreter::without_stdlib();
    let code = match catch(|| Code::parse(&interp, prog)) {
        Err(p) => return json!({"ok": false, "why": format!("PANIC while parsing: {p}"), "panic": true}),
        Ok(Err(e)) => return json!({"ok": false, "why": format!("rejected: {e}")}),
        Ok(Ok(c)) => c,
    };
    match catch(|| code.exec()) {
        Err(p) => json!({"ok": false, "why": format!("PANIC while running: {p}"), "panic": true}),
        Ok(Err(e)) => json!({"ok": false, "why": format!("run-time error: {e}")}),
        Ok(Ok(v)) => {
            if n_cells == 0 {
                json!({"ok": true, "v": var_json(&v), "cells": []})
            } else if let Variable::Tuple(t) = &v {
                json!({"ok": true, "v": var_json(&t[0]), "cells": t[1..].iter().map(var_json).collect::<Vec<_>>()})
            } else {
                json!({"ok": false, "why": format!("observation tuple expected, got {v:?}")})
            }
        }
    }
}

fn outcome_eq(spec: &Value, got: &Value) -> bool {
    let ok = spec["ok"].as_bool().unwrap();
    if ok != got["ok"].as_bool().unwrap() {
        return false;
    }
    !ok || (strip_ek(&spec["v"]) == got["v"] && strip_ek(&spec["cells"]) == got["cells"])
}

// ------------------------------------------------------------------ replay

fn replay(dir: &str) -> Value {
    let mut mm = Mismatches::new(400);
    let mut samples = vec![];
    // --- structural
    let cases = read_ndjson(&format!("{dir}/prec_cases.ndjson"));
    let mut fam_counts = serde_json::Map::new();
    let mut structural = 0u64;
    let mut rejects_expected = 0u64;
    for c in &cases {
        let fam = c["fam"].as_str().unwrap();
        let n = fam_counts.get(fam).and_then(Value::as_u64).unwrap_or(0);
        fam_counts.insert(fam.to_string(), json!(n + 1));
        let text = case_text(c);
        let expect = c["expect"].as_str().unwrap();
        let got = observe(&text);
        structural += 1;
        let kind = if fam.starts_with("adj") { "lex" } else { "group" };
        match (&got, expect) {
            (Err(why), "reject") if !why.starts_with("PANIC") => rejects_expected += 1,
            (Ok(tree), e) if tree == e => {}
            _ => mm.push(kind, json!({"id": c["id"], "fam": fam, "text": text, "expected": expect,
                "got": match &got { Ok(t) => json!(t), Err(w) => json!(format!("reject: {w}")) }})),
        }
        if n == 0 {
            samples.push(json!({"fam": fam, "text": text, "spec": expect, "impl": got.clone().unwrap_or_else(|w| format!("reject: {w}"))}));
        }
    }
    // --- by value
    let vpath = format!("{dir}/prec_values.ndjson");
    let vals = if std::path::Path::new(&vpath).exists() { read_ndjson(&vpath) } else { vec![] };
    let (mut v_cases, mut v_runs, mut v_both, mut v_one, mut v_value, mut v_unfound) = (0u64, 0u64, 0u64, 0u64, 0u64, 0u64);
    for c in &vals {
        if !c["found"].as_bool().unwrap() {
            v_unfound += 1;
            continue;
        }
        v_cases += 1;
        match c["strength"].as_str().unwrap() {
            "both" => v_both += 1,
            "one" => v_one += 1,
            _ => v_value += 1,
        }
        let decls = c["decls"].as_array().unwrap();
        let n_cells = decls.iter().filter(|d| d["v"]["k"] == "cell").count();
        let text = c["text"].as_str().unwrap();
        let want = &c["want"];
        for form in 0..2 {
            let form_name = if form == 0 { "const" } else { "param" };
            // the unparenthesised text: the specification's value of the prescribed grouping
            let prog = program(decls, text, &want["v"], form);
            let got = run_program(&prog, n_cells);
            v_runs += 1;
            if !outcome_eq(want, &got) {
                mm.push("value", json!({"id": c["id"], "fam": c["fam"], "text": text, "form": form_name, "program": prog,
                    "prescribed": want["text"], "expected": want, "got": got}));
            }
            // the prescribed grouping written with parentheses
            let prog_p = program(decls, want["text"].as_str().unwrap(), &want["v"], form);
            let got_p = run_program(&prog_p, n_cells);
            v_runs += 1;
            if !outcome_eq(want, &got_p) {
                mm.push("eval", json!({"id": c["id"], "fam": c["fam"], "text": want["text"], "form": form_name, "program": prog_p,
                    "expected": want, "got": got_p}));
            }
            // every other grouping must be observably different, as predicted
            for o in c["others"].as_array().unwrap() {
                let prog_o = program(decls, o["text"].as_str().unwrap(), &o["v"], form);
                let got_o = run_program(&prog_o, n_cells);
                v_runs += 1;
                if got_o.get("panic").is_some() || !outcome_eq(o, &got_o) {
                    mm.push("other", json!({"id": c["id"], "fam": c["fam"], "text": o["text"], "form": form_name, "program": prog_o,
                        "expected": o, "got": got_o}));
                } else if got_o["ok"] == true && got_o["v"] == got["v"] && got_o["cells"] == got["cells"] && got["ok"] == true {
                    mm.push("indistinct", json!({"id": c["id"], "fam": c["fam"], "text": text, "other": o["text"], "form": form_name}));
                }
            }
            // the unparenthesised text NEXT TO a differently grouped sibling in one list (tuple elements, array elements):
            // the grouping of an expression does not depend on its neighbours
            if n_cells == 0 {
                if let Some(o) = c["others"].as_array().unwrap().iter().find(|o| o["ok"] == true) {
                    let ot = o["text"].as_str().unwrap();
                    for (shape, expr) in [("tuple", format!("({ot}, {text}).1")), ("tuple-rev", format!("({text}, {ot}).0")), ("array", format!("[{ot}, {text}][1]"))] {
                        let prog_s = program(decls, &expr, &want["v"], form);
                        let got_s = run_program(&prog_s, n_cells);
                        v_runs += 1;
                        if !outcome_eq(want, &got_s) {
                            mm.push("value", json!({"id": c["id"], "fam": c["fam"], "text": text, "form": format!("{form_name}/sibling-{shape}"), "program": prog_s,
                                "prescribed": want["text"], "expected": want, "got": got_s}));
                        }
                    }
                }
            }
            if form == 1 && (c["id"].as_u64().unwrap() % 331 == 7 || c["fam"] == "v_idiom" && c["id"].as_u64().unwrap() % 13 == 0) {
                samples.push(json!({"fam": c["fam"], "program": prog, "spec": want, "impl": got}));
            }
        }
    }
    json!({
        "structural_cases": structural, "families": fam_counts, "rejects_expected": rejects_expected,
        "value_cases": v_cases, "value_runs": v_runs, "value_strength": {"both": v_both, "one": v_one, "value_only": v_value},
        "value_unfound": v_unfound,
        "mismatch_counts": mm.counts(), "mismatches": mm.items(), "samples": samples,
    })
}

// ------------------------------------------------------------------ record (impl -> spec)

struct Lexicon {
    pre: Vec<(String, String)>,
    bin: Vec<(String, String)>,
    post: Vec<(String, String)>,
    /// binary operator name -> prefix operators the specification leaves unsettled after it
    nopre: std::collections::HashMap<String, Vec<String>>,
}

fn lexicon(dir: &str) -> Lexicon {
    let mut l = Lexicon { pre: vec![], bin: vec![], post: vec![], nopre: Default::default() };
    for r in read_ndjson(&format!("{dir}/prec_lexicon.ndjson")) {
        let e = (r["n"].as_str().unwrap().to_string(), r["txt"].as_str().unwrap().to_string());
        if r["fix"] == "bin" {
            let np = r["nopre"].as_array().map(|a| a.iter().map(|x| x.as_str().unwrap().to_string()).collect()).unwrap_or_default();
            l.nopre.insert(e.0.clone(), np);
        }
        match r["fix"].as_str().unwrap() {
            "pre" => l.pre.push(e),
            "bin" => l.bin.push(e),
            "post" => l.post.push(e),
            other => panic!("fixity {other}"),
        }
    }
    l
}

fn record(dir: &str, n: usize, out: &str) -> Value {
    let lex = lexicon(dir);
    let mut rng = Rng::from_env(0xC14);
    let names = ["a", "b", "c", "d"];
    let mut f = std::io::BufWriter::new(std::fs::File::create(out).unwrap());
    let (mut accepted, mut rejected, mut max_ops) = (0u64, 0u64, 0usize);
    for run in 0..n {
        let atoms = 3 + rng.below(7); // 3..9 operands, i.e. 2..8 binary operators
        let mut toks: Vec<(String, String)> = vec![];
        let mut parts: Vec<String> = vec![];
        let mut ops = 0;
        for a in 0..atoms {
            let mut unsettled: &[String] = &[];
            if a > 0 {
                let (nm, txt) = rng.pick(&lex.bin).clone();
                unsettled = lex.nopre.get(&nm).map(Vec::as_slice).unwrap_or(&[]);
                toks.push(("bin".into(), nm));
                parts.push(txt);
                ops += 1;
            }
            if rng.chance(1, 4) {
                let (nm, txt) = rng.pick(&lex.pre).clone();
                if !unsettled.contains(&nm) {
                    toks.push(("pre".into(), nm));
                    parts.push(txt);
                    ops += 1;
                }
            }
            let nm = names[a % 4];
            toks.push(("opd".into(), nm.into()));
            parts.push(nm.into());
            let posts = if rng.chance(1, 3) { 1 + rng.below(2) } else { 0 };
            for _ in 0..posts {
                let (nm, txt) = rng.pick(&lex.post).clone();
                toks.push(("post".into(), nm));
                parts.push(txt);
                ops += 1;
            }
        }
        max_ops = max_ops.max(ops);
        let text = parts.join(" ");
        let got = observe(&text);
        match &got {
            Ok(_) => accepted += 1,
            Err(_) => rejected += 1,
        }
        let rec = json!({"run": run, "toks": toks.iter().map(|(t, s)| json!([t, s])).collect::<Vec<_>>(), "text": text,
            "got": match &got { Ok(t) => t.clone(), Err(w) => format!("reject: {w}") }});
        writeln!(f, "{}", serde_json::to_string(&rec).unwrap()).unwrap();
    }
    json!({"recorded": n, "accepted": accepted, "rejected": rejected, "max_operators": max_ops})
}

pub fn run(args: &[String]) -> Value {
    match args.first().map(String::as_str) {
        Some("replay") => replay(&args[1]),
        Some("record") => record(&args[1], args[2].parse().unwrap(), &args[3]),
        Some("tree") => match observe(&args[1]) {
            Ok(t) => json!({"tree": t}),
            Err(w) => json!({"reject": w}),
        },
        _ => json!({"error": "usage: vh prec replay <dir> | record <dir> <n> <out> | tree <text>"}),
    }
}
