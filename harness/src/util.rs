use serde_json::{Map, Value, json};
use std::{
    io::{BufRead, BufReader},
    panic::{AssertUnwindSafe, catch_unwind},
};

/// Run `f`, turning a panic into `Err(message)`. Panics of the code under test are data.
pub fn catch<T>(f: impl FnOnce() -> T) -> Result<T, String> {
    catch_unwind(AssertUnwindSafe(f)).map_err(|p| {
        if let Some(s) = p.downcast_ref::<&str>() {
            (*s).to_string()
        } else if let Some(s) = p.downcast_ref::<String>() {
            s.clone()
        } else if let Some(b) = p.downcast_ref::<simplesl::verif::OutOfBudget>() {
            format!("$BUDGET:{}", b.0)
        } else {
            "panic with non-string payload".to_string()
        }
    })
}

pub fn is_budget(msg: &str) -> bool {
    msg.starts_with("$BUDGET:")
}

pub fn silence_panics() {
    // (VERIF_SHOW_PANICS=1: print them, for debugging the harness itself)
    if std::env::var("VERIF_SHOW_PANICS").is_ok() {
        return;
    }
    std::panic::set_hook(Box::new(|_| {}));
}

pub fn read_ndjson(path: &str) -> Vec<Value> {
    let f = std::fs::File::open(path).unwrap_or_else(|e| panic!("cannot open {path}: {e}"));
    BufReader::new(f)
        .lines()
        .map(|l| l.unwrap())
        .filter(|l| !l.trim().is_empty())
        .map(|l| serde_json::from_str(&l).unwrap_or_else(|e| panic!("bad json in {path}: {e}")))
        .collect()
}

/// Collects mismatches by kind: full counts, first `cap` items kept.
pub struct Mismatches {
    cap: usize,
    items: Vec<Value>,
    counts: Map<String, Value>,
}

impl Mismatches {
    pub fn new(cap: usize) -> Self {
        Self { cap, items: vec![], counts: Map::new() }
    }
    pub fn push(&mut self, kind: &str, mut detail: Value) {
        let c = self.counts.get(kind).and_then(Value::as_u64).unwrap_or(0);
        self.counts.insert(kind.to_string(), json!(c + 1));
        if c < (self.cap / 6).max(20) as u64 && self.items.len() < self.cap {
            detail["kind"] = json!(kind);
            self.items.push(detail);
        }
    }
    pub fn counts(&self) -> Value {
        Value::Object(self.counts.clone())
    }
    pub fn items(&self) -> Value {
        Value::Array(self.items.clone())
    }
    pub fn total(&self) -> u64 {
        self.counts.values().filter_map(Value::as_u64).sum()
    }
}

/// splitmix64: every random choice in the harness derives from VERIF_SEED through this.
#[derive(Clone)]
pub struct Rng(pub u64);

impl Rng {
    pub fn from_env(salt: u64) -> Self {
        let seed: u64 = std::env::var("VERIF_SEED").ok().and_then(|s| s.parse().ok()).unwrap_or(1);
        Rng(seed.wrapping_mul(0x9E3779B97F4A7C15) ^ salt.wrapping_mul(0xD1B54A32D192ED03))
    }
    pub fn next(&mut self) -> u64 {
        self.0 = self.0.wrapping_add(0x9E3779B97F4A7C15);
        let mut z = self.0;
        z = (z ^ (z >> 30)).wrapping_mul(0xBF58476D1CE4E5B9);
        z = (z ^ (z >> 27)).wrapping_mul(0x94D049BB133111EB);
        z ^ (z >> 31)
    }
    pub fn below(&mut self, n: usize) -> usize {
        if n == 0 { 0 } else { (self.next() % n as u64) as usize }
    }
    pub fn chance(&mut self, num: u64, den: u64) -> bool {
        self.next() % den < num
    }
    pub fn pick<'a, T>(&mut self, xs: &'a [T]) -> &'a T {
        &xs[self.below(xs.len())]
    }
}

/// Scratch directory of this verification tree (set by vlib/common.py; /verif/work by default).
pub fn work_dir() -> String {
    std::env::var("VERIF_WORK").unwrap_or_else(|_| "/verif/work".to_string())
}
