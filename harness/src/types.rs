//! Replay of the Types specification's universe against `simplesl::variable::Type`
//! (C10: relation, join, meet, value membership; C05: instance/hash-order independence of
//! every answer; queries used by the checker).
use crate::util::{catch, read_ndjson, Mismatches};
use crate::wire::*;
use serde_json::{Value, json};
use simplesl::variable::{Type, Typed};
use std::{collections::{HashMap, HashSet}, str::FromStr};

fn opt_wire(t: Option<Type>) -> Value {
    t.map_or(json!({"k": "none"}), |t| type_to_wire(&t))
}

fn canon_opt(v: &Value) -> Value {
    if k(v) == "none" { json!({"k": "none"}) } else { canon_type(v) }
}

pub fn queries(t: &Type) -> Value {
    let params = match t.params() {
        None => json!({"k": "none"}),
        Some(ps) => json!({"k": "some", "ps": ps.iter().map(type_to_wire).collect::<Vec<_>>()}),
    };
    json!({
        "index_result": opt_wire(t.index_result()),
        "element_type": opt_wire(t.element_type()),
        "mut_element_type": opt_wire(t.mut_element_type()),
        "return_type": opt_wire(t.return_type()),
        "iter_element": opt_wire(t.iter_element()),
        "flatten_tuple": opt_wire(t.clone().flatten_tuple().map(Type::Tuple)),
        "field_a": opt_wire(t.field_type("a")),
        "field_b": opt_wire(t.field_type("b")),
        "has_a": t.has_field("a") as i64,
        "has_b": t.has_field("b") as i64,
        "at0": opt_wire(t.tuple_element_at(0)),
        "at1": opt_wire(t.tuple_element_at(1)),
        "at2": opt_wire(t.tuple_element_at(2)),
        "tuple_len": t.tuple_len().map_or(-1, |l| l as i64),
        "min_tuple_len": t.min_tuple_len().map_or(-1, |l| l as i64),
        "is_function": t.is_function() as i64,
        "is_tuple": t.is_tuple() as i64,
        "is_mut": t.is_mut() as i64,
        "is_iterator": t.is_iterator() as i64,
        "is_struct": t.is_struct() as i64,
        "can_be_indexed": t.can_be_indexed() as i64,
        "params": params,
    })
}

fn canon_queries(q: &Value) -> Value {
    let mut out = serde_json::Map::new();
    for (key, v) in q.as_object().unwrap() {
        let c = if key == "params" {
            if k(v) == "none" {
                json!({"k": "none"})
            } else {
                json!({"k": "some", "ps": v["ps"].as_array().unwrap().iter().map(canon_type).collect::<Vec<_>>()})
            }
        } else if v.is_object() {
            canon_opt(v)
        } else {
            v.clone()
        };
        out.insert(key.clone(), c);
    }
    Value::Object(out)
}

/// `params` folds Meet over the members in hash order; Meet builds unions, so two orders may give
/// syntactically different but equivalent parameter types. Compare up to mutual `matches`.
fn params_equiv(spec: &Value, got: &Value) -> bool {
    if k(spec) != k(got) {
        return false;
    }
    if k(spec) == "none" {
        return true;
    }
    let a = spec["ps"].as_array().unwrap();
    let b = got["ps"].as_array().unwrap();
    a.len() == b.len()
        && a.iter().zip(b).all(|(x, y)| {
            let (x, y) = (type_from_wire(x), type_from_wire(y));
            x.matches(&y) && y.matches(&x)
        })
}

pub fn run(dir: &str, reps: usize) -> Value {
    let uni = read_ndjson(&format!("{dir}/types_universe.ndjson"));
    let n = uni.len();
    let mut mm = Mismatches::new(300);
    let mut evals: u64 = 0;
    // --- construction by both routes, with `reps` differently ordered instances each
    let mut cons: Vec<Vec<Type>> = Vec::with_capacity(n);
    let mut text: Vec<Vec<Option<Type>>> = Vec::with_capacity(n);
    for row in &uni {
        let w = &row["t"];
        let canon = canon_type(w);
        let mut cs = vec![];
        let mut ts = vec![];
        for r in 0..reps {
            let c = type_from_wire_rot(w, r);
            evals += 1;
            if type_to_wire(&c) != canon {
                mm.push("construct", json!({"type": type_text(w, 0), "route": "constructors", "rot": r,
                    "expected": canon, "got": type_to_wire(&c)}));
            }
            let txt = type_text(w, r);
            let parsed = catch(|| Type::from_str(&txt));
            evals += 1;
            match parsed {
                Ok(Ok(t)) => {
                    if type_to_wire(&t) != canon {
                        mm.push("parse", json!({"text": txt, "expected": canon, "got": type_to_wire(&t)}));
                    }
                    ts.push(Some(t));
                }
                Ok(Err(_)) => {
                    mm.push("parse", json!({"text": txt, "expected": canon, "got": "ParseTypeError"}));
                    ts.push(None);
                }
                Err(p) => {
                    mm.push("parse", json!({"text": txt, "panic": p}));
                    ts.push(None);
                }
            }
            cs.push(c);
        }
        cons.push(cs);
        text.push(ts);
    }
    // --- C05: structurally equal types compare equal, hash consistently, match each other
    let mut det_checks: u64 = 0;
    for i in 0..n {
        let all: Vec<&Type> = cons[i].iter().chain(text[i].iter().flatten()).collect();
        let w = type_text(&uni[i]["t"], 0);
        for a in &all {
            for b in &all {
                det_checks += 1;
                if a != b {
                    mm.push("eq", json!({"type": w, "what": "two independently built instances compare unequal"}));
                }
                if !a.matches(b) {
                    mm.push("eq", json!({"type": w, "what": "instance does not match an equal instance"}));
                }
            }
            let joined = (*a).clone() | (*all[0]).clone();
            if type_to_wire(&joined) != type_to_wire(all[0]) {
                mm.push("eq", json!({"type": w, "what": "T | T' differs from T for equal instances",
                    "got": type_to_wire(&joined)}));
            }
        }
        let set: HashSet<Type> = all.iter().map(|t| (*t).clone()).collect();
        if set.len() != 1 {
            mm.push("eq", json!({"type": w, "what": "HashSet of equal instances has more than one element", "len": set.len()}));
        }
        // query answers are instance independent and equal the specification's
        let spec_q = canon_queries(&uni[i]["q"]);
        for (r, t) in all.iter().enumerate() {
            evals += 1;
            match catch(|| queries(t)) {
                Ok(q) => {
                    let mut q2 = q.clone();
                    let mut s2 = spec_q.clone();
                    let (qp, sp) = (q2["params"].take(), s2["params"].take());
                    if q2 != s2 {
                        let diff: Vec<String> = q2.as_object().unwrap().iter()
                            .filter(|(key, v)| s2[key.as_str()] != **v).map(|(key, _)| key.clone()).collect();
                        for d in diff {
                            mm.push("query", json!({"type": w, "query": d, "instance": r,
                                "expected": s2[d.as_str()], "got": q2[d.as_str()]}));
                        }
                    }
                    if !params_equiv(&sp, &qp) {
                        mm.push("query", json!({"type": w, "query": "params", "instance": r, "expected": sp, "got": qp}));
                    }
                }
                Err(p) => mm.push("query", json!({"type": w, "instance": r, "panic": p})),
            }
        }
    }
    // --- C10: the matches matrix, by both routes and across instances
    let mut pairs: u64 = 0;
    for i in 0..n {
        let row = uni[i]["row"].as_array().unwrap();
        for j in 0..n {
            let expected = row[j].as_i64().unwrap() == 1;
            for r in 0..reps {
                let a = &cons[i][r];
                let b = &cons[j][(r + 1) % reps];
                pairs += 1;
                if a.matches(b) != expected {
                    mm.push("matches", json!({"a": type_text(&uni[i]["t"], 0), "b": type_text(&uni[j]["t"], 0),
                        "expected": expected, "got": !expected, "route": "constructors"}));
                }
                if let (Some(a), Some(b)) = (&text[i][r], &text[j][(r + 1) % reps]) {
                    pairs += 1;
                    if a.matches(b) != expected {
                        mm.push("matches", json!({"a": type_text(&uni[i]["t"], 0), "b": type_text(&uni[j]["t"], 0),
                            "expected": expected, "got": !expected, "route": "from_str"}));
                    }
                }
            }
        }
    }
    // --- joins and meets
    let jm = read_ndjson(&format!("{dir}/types_joinmeet.ndjson"));
    let mut jm_n: u64 = 0;
    for row in &jm {
        let (ia, ib) = (row["a"].as_u64().unwrap() as usize - 1, row["b"].as_u64().unwrap() as usize - 1);
        let (ej, em) = (canon_type(&row["join"]), canon_type(&row["meet"]));
        for r in 0..reps {
            let a = &cons[ia][r];
            let b = &cons[ib][(r + 1) % reps];
            jm_n += 2;
            let j = type_to_wire(&(a.clone() | b.clone()));
            if j != ej {
                mm.push("join", json!({"a": type_text(&uni[ia]["t"], 0), "b": type_text(&uni[ib]["t"], 0), "expected": ej, "got": j}));
            }
            match catch(|| a.conjoin(b)) {
                Ok(m) => {
                    let m = type_to_wire(&m);
                    if m != em {
                        mm.push("meet", json!({"a": type_text(&uni[ia]["t"], 0), "b": type_text(&uni[ib]["t"], 0), "expected": em, "got": m}));
                    }
                }
                Err(p) => mm.push("meet", json!({"a": type_text(&uni[ia]["t"], 0), "b": type_text(&uni[ib]["t"], 0), "panic": p})),
            }
        }
    }
    // --- values: tags and membership by tag
    let vals = read_ndjson(&format!("{dir}/types_values.ndjson"));
    let mut val_n: u64 = 0;
    for row in &vals {
        let mut cells = HashMap::new();
        let v = value_from_wire(&row["v"], &mut cells);
        let tag = v.as_type();
        if type_to_wire(&tag) != canon_type(&row["tag"]) {
            mm.push("tag", json!({"value": row["v"], "expected": canon_type(&row["tag"]), "got": type_to_wire(&tag)}));
        }
        let tm = row["tagmatch"].as_array().unwrap();
        for j in 0..n {
            val_n += 1;
            let expected = tm[j].as_i64().unwrap() == 1;
            if tag.matches(&cons[j][0]) != expected {
                mm.push("value", json!({"value": format!("{v:?}"), "type": type_text(&uni[j]["t"], 0),
                    "expected": expected, "got": !expected}));
            }
        }
    }
    json!({
        "universe": n, "instances_per_type": reps * 2, "pairs_checked": pairs, "joinmeet_checked": jm_n,
        "value_type_checked": val_n, "determinism_checks": det_checks, "evaluations": evals + pairs + jm_n + val_n + det_checks,
        "mismatch_counts": mm.counts(), "mismatches": mm.items(),
        "samples": [
            {"pair": [type_text(&uni[n / 3]["t"], 0), type_text(&uni[n / 2]["t"], 0)],
             "spec_matches": uni[n / 3]["row"][n / 2]},
            {"type": type_text(&uni[n - 1]["t"], 1), "queries": uni[n - 1]["q"]},
        ],
    })
}
