//! `vh gen <n> <out.ndjson>`: seeded generator of well-typed SimpleSL programs over the subset modelled
//! by spec/Lang.tla, as ASTs in the wire format. The generator is NOT an oracle: it only has to produce
//! programs the checker accepts often enough; what each program must do is computed by TLC from the AST.
//! Shapes aimed at: unions, empty arrays, hidden array tags, iterators pulled past exhaustion, type-changing
//! map, reducers over run-time-empty arrays, slices, struct width subtyping, functions falling off the end.
use crate::util::Rng;
use serde_json::{Value, json};

fn t(k: &str) -> Value { json!({"k": k}) }
fn tint() -> Value { t("int") }
fn tfloat() -> Value { t("float") }
fn tbool() -> Value { t("bool") }
fn tstr() -> Value { t("string") }
fn tvoid() -> Value { t("void") }
fn tany() -> Value { t("any") }
fn tarr(e: Value) -> Value { json!({"k": "array", "e": e}) }
fn tmut(e: Value) -> Value { json!({"k": "mut", "e": e}) }
fn ttup(es: Vec<Value>) -> Value { json!({"k": "tuple", "es": es}) }
fn tfn(ps: Vec<Value>, r: Value) -> Value { json!({"k": "fn", "ps": ps, "r": r}) }
fn tmulti(ms: Vec<Value>) -> Value { json!({"k": "multi", "ms": ms}) }
fn titer(e: Value) -> Value { tfn(vec![], ttup(vec![tbool(), e])) }
fn tstruct(fs: Vec<(&str, Value)>) -> Value { json!({"k": "struct", "fs": fs.into_iter().map(|(n, t)| json!([n, t])).collect::<Vec<_>>()}) }

fn none() -> Value { json!({"k": "none"}) }
fn lit(v: Value) -> Value { json!({"k": "lit", "v": v}) }
fn int(n: i64) -> Value { lit(json!({"k": "int", "v": n})) }
fn flt(h: i64) -> Value { lit(json!({"k": "float", "v": h})) }
fn boolean(b: bool) -> Value { lit(json!({"k": "bool", "v": b})) }
fn string(s: &str) -> Value { lit(json!({"k": "string", "cps": s.chars().map(|c| c as u32).collect::<Vec<_>>()})) }
fn unit() -> Value { lit(json!({"k": "void"})) }
fn var(n: &str) -> Value { json!({"k": "var", "n": n}) }
fn set(n: &str, e: Value) -> Value { json!({"k": "set", "n": n, "e": e}) }
fn bin(op: &str, l: Value, r: Value) -> Value { json!({"k": "bin", "op": op, "l": l, "r": r}) }
fn call(f: Value, args: Vec<Value>) -> Value { json!({"k": "call", "f": f, "args": args}) }
fn arr(es: Vec<Value>) -> Value { json!({"k": "arr", "es": es}) }
fn tup(es: Vec<Value>) -> Value { json!({"k": "tup", "es": es}) }
fn ret(e: Value) -> Value { json!({"k": "ret", "e": e}) }
fn block(ss: Vec<Value>) -> Value { json!({"k": "block", "body": ss}) }
fn mark(i: i64) -> Value { json!({"k": "mark", "i": i}) }
fn hide(ty: Value, e: Value) -> Value { json!({"k": "hide", "ty": ty, "e": e}) }
fn p(n: &str, ty: Value) -> Value { json!({"n": n, "ty": ty}) }

pub struct G {
    rng: Rng,
    /// variables in scope: name, static type (wire)
    env: Vec<(String, Value)>,
    next: usize,
    marks: i64,
    in_fn: Option<Value>,
    /// > 0: the next request for an expression of some type is answered with a near-miss type once
    near_miss: u32,
    pub used_near_miss: bool,
}

const ELEM_TYPES: usize = 5;

impl G {
    fn pick(&mut self, xs: &[String]) -> String {
        xs[self.rng.below(xs.len())].clone()
    }
    fn fresh(&mut self, p: &str) -> String {
        self.next += 1;
        format!("{p}{}", self.next)
    }
    fn elem_type(&mut self) -> Value {
        match self.rng.below(ELEM_TYPES) {
            0 | 1 => tint(),
            2 => tfloat(),
            3 => tstr(),
            _ => tmulti(vec![tint(), tfloat()]),
        }
    }
    fn vars_of(&self, ty: &Value) -> Vec<String> {
        self.env.iter().filter(|(_, t)| t == ty).map(|(n, _)| n.clone()).collect()
    }

    /// a literal-ish value expression of exactly this (simple) type, possibly a boundary inhabitant
    fn inhabitant(&mut self, ty: &Value, boundary: bool) -> Value {
        match ty["k"].as_str().unwrap() {
            "int" => int([0, 1, 2, 3, 5, 7, -1, -4, 12][self.rng.below(9)]),
            "float" => flt([0, 1, 3, -5, 8][self.rng.below(5)]),
            "bool" => boolean(self.rng.chance(1, 2)),
            "string" => string(["", "a", "bc", "żó"][self.rng.below(4)]),
            "void" => unit(),
            "any" => {
                let t = [tint(), tstr(), tarr(tint()), tvoid(), tfloat()][self.rng.below(5)].clone();
                self.inhabitant(&t, boundary)
            }
            "array" => {
                let n = if boundary && self.rng.chance(1, 2) { 0 } else { self.rng.below(4) };
                let e = ty["e"].clone();
                arr((0..n).map(|_| self.inhabitant(&e, false)).collect())
            }
            "tuple" => tup(ty["es"].as_array().unwrap().clone().iter().map(|e| self.inhabitant(e, boundary)).collect()),
            "multi" => {
                let ms = ty["ms"].as_array().unwrap().clone();
                let m = ms[self.rng.below(ms.len())].clone();
                self.inhabitant(&m, boundary)
            }
            "struct" => {
                let fs: Vec<Value> = ty["fs"].as_array().unwrap().clone();
                let mut out: Vec<Value> = fs.iter().map(|f| json!([f[0], self.inhabitant(&f[1], boundary)])).collect();
                if self.rng.chance(1, 3) {
                    out.push(json!(["zz", int(9)])); // width subtyping: an extra field
                }
                json!({"k": "struct", "fs": out})
            }
            "fn" => {
                let ps: Vec<Value> = ty["ps"].as_array().unwrap().clone();
                let names: Vec<String> = (0..ps.len()).map(|i| format!("q{i}")).collect();
                let r = ty["r"].clone();
                let body = vec![ret(self.inhabitant(&r, boundary))];
                json!({"k": "fn", "ps": ps.iter().zip(&names).map(|(t, n)| p(n, t.clone())).collect::<Vec<_>>(), "r": r, "body": body})
            }
            other => panic!("no inhabitant for {other}"),
        }
    }

    /// expression of static type exactly int (as far as the generator can tell)
    fn int_expr(&mut self, d: usize) -> Value {
        if self.near_miss > 0 && self.rng.chance(1, 6) {
            self.near_miss = 0;
            self.used_near_miss = true;
            let other = self.near(&tint()).unwrap();
            return hide(other.clone(), self.inhabitant(&other, false));
        }
        let vs = self.vars_of(&tint());
        if d == 0 || self.rng.chance(1, 4) {
            return if !vs.is_empty() && self.rng.chance(2, 3) { var(&self.pick(&vs)) } else { int([0, 1, 2, 3, 5, -2][self.rng.below(6)]) };
        }
        match self.rng.below(12) {
            0..=3 => {
                let op = ["+", "-", "*", "&", "|", "^"][self.rng.below(6)];
                bin(op, self.int_expr(d - 1), self.int_expr(d - 1))
            }
            4 => {
                // divisor / modulus / shift: mostly safe, sometimes failing
                let op = ["/", "%", "<<", ">>", "**"][self.rng.below(5)];
                let r = if self.rng.chance(1, 6) { self.int_expr(d - 1) } else { int([1, 2, 3][self.rng.below(3)]) };
                bin(op, self.int_expr(d - 1), r)
            }
            5 => json!({"k": "neg", "e": self.int_expr(d - 1)}),
            6 => {
                let arrs = self.vars_of(&tarr(tint()));
                if arrs.is_empty() { return self.int_expr(d - 1); }
                let i = if self.rng.chance(1, 5) { self.int_expr(d - 1) } else { int([0, -1, 1][self.rng.below(3)]) };
                json!({"k": "at", "e": var(&self.pick(&arrs)), "i": i})
            }
            7 => {
                let cells = self.vars_of(&tmut(tint()));
                if cells.is_empty() { return self.int_expr(d - 1); }
                let c = self.pick(&cells);
                if self.rng.chance(1, 2) { json!({"k": "deref", "e": var(&c)}) } else {
                    let op = ["=", "+=", "-=", "*=", "&=", "|=", "^="][self.rng.below(7)];
                    json!({"k": "asg", "op": op, "l": var(&c), "r": self.int_expr(d - 1)})
                }
            }
            8 => {
                let fs = self.vars_of(&tfn(vec![tint()], tint()));
                if fs.is_empty() { return self.int_expr(d - 1); }
                call(var(&self.pick(&fs)), vec![self.int_expr(d - 1)])
            }
            9 => {
                let its = self.vars_of(&titer(tint()));
                if its.is_empty() { return self.int_expr(d - 1); }
                let it = var(&self.pick(&its));
                match self.rng.below(4) {
                    0 => json!({"k": "red", "op": "$+", "ek": "int", "it": it}),
                    1 => json!({"k": "red", "op": "$|", "ek": "int", "it": it}),
                    2 => json!({"k": "tupat", "e": call(it, vec![]), "i": 1}), // the element of one pull (maybe past exhaustion)
                    _ => json!({"k": "reduce", "it": it, "init": int(1), "f": json!({"k": "fn",
                            "ps": [p("a", tint()), p("b", tint())], "r": tint(), "body": [ret(bin("+", var("a"), var("b")))]})}),
                }
            }
            10 => {
                let ts = self.vars_of(&ttup(vec![tint(), tstr()]));
                if ts.is_empty() { return self.int_expr(d - 1); }
                json!({"k": "tupat", "e": var(&self.pick(&ts)), "i": 0})
            }
            _ => {
                let ss = self.vars_of(&tstruct(vec![("a", tint()), ("b", tstr())]));
                if ss.is_empty() { return self.int_expr(d - 1); }
                json!({"k": "field", "e": var(&self.pick(&ss)), "n": "a"})
            }
        }
    }

    fn bool_expr(&mut self, d: usize) -> Value {
        if d == 0 { return boolean(self.rng.chance(1, 2)); }
        match self.rng.below(6) {
            0 | 1 => bin(["<", "<=", ">", ">=", "==", "!="][self.rng.below(6)], self.int_expr(d - 1), self.int_expr(d - 1)),
            2 => json!({"k": "and", "l": self.bool_expr(d - 1), "r": self.bool_expr(d - 1)}),
            3 => json!({"k": "or", "l": self.bool_expr(d - 1), "r": self.bool_expr(d - 1)}),
            4 => json!({"k": "not", "e": self.bool_expr(d - 1)}),
            _ => {
                // equality across kinds / containers
                let ty = self.elem_type();
                let (a, b) = (self.expr_of(&tarr(ty.clone()), d - 1), self.expr_of(&tarr(ty), d - 1));
                bin("==", a, b)
            }
        }
    }

    /// a type that is close to `ty` but does not match it (what a weakened checker might let through)
    fn near(&mut self, ty: &Value) -> Option<Value> {
        let k = ty["k"].as_str().unwrap();
        Some(match k {
            "int" => [tfloat(), tmulti(vec![tint(), tfloat()]), tstr(), tvoid()][self.rng.below(4)].clone(),
            "float" => [tint(), tmulti(vec![tint(), tfloat()])][self.rng.below(2)].clone(),
            "string" => [tint(), tarr(tstr())][self.rng.below(2)].clone(),
            "bool" => tint(),
            "array" => {
                let e = &ty["e"];
                if *e == tint() { [tarr(tfloat()), tarr(tmulti(vec![tint(), tfloat()])), tarr(tstr())][self.rng.below(3)].clone() }
                else if *e == tfloat() { tarr(tint()) }
                else if *e == tstr() { tarr(tint()) }
                else { return None }
            }
            _ => return None,
        })
    }

    /// expression whose static type matches `ty`
    fn expr_of(&mut self, ty: &Value, d: usize) -> Value {
        if self.near_miss > 0 && self.rng.chance(1, 3) {
            if let Some(other) = self.near(ty) {
                self.near_miss = 0;
                self.used_near_miss = true;
                return hide(other.clone(), self.inhabitant(&other, false));
            }
        }
        let vs = self.vars_of(ty);
        if !vs.is_empty() && self.rng.chance(1, 2) {
            return var(&self.pick(&vs));
        }
        match ty["k"].as_str().unwrap() {
            "int" => self.int_expr(d),
            "bool" => self.bool_expr(d),
            "float" => {
                if d > 0 && self.rng.chance(1, 2) {
                    bin(["+", "-"][self.rng.below(2)], self.expr_of(ty, d - 1), self.expr_of(ty, d - 1))
                } else { self.inhabitant(ty, false) }
            }
            "string" => {
                if d > 0 && self.rng.chance(1, 2) { bin("+", self.expr_of(ty, d - 1), self.expr_of(ty, d - 1)) }
                else if d > 0 && self.rng.chance(1, 3) {
                    json!({"k": "slice", "e": self.expr_of(ty, d - 1), "a": self.opt_int(), "b": self.opt_int(), "c": none()})
                } else { self.inhabitant(ty, false) }
            }
            "array" => {
                let e = ty["e"].clone();
                if d == 0 { return self.inhabitant(ty, true); }
                match self.rng.below(8) {
                    7 if e["k"] == "multi" => {
                        // a concatenation whose left run-time tag is narrower than the right one (and vice versa)
                        let narrow = hide(tarr(tint()), arr(vec![int(1)]));
                        let wide = hide(ty.clone(), arr(vec![int(2), flt(5)]));
                        if self.rng.chance(1, 2) { bin("+", narrow, wide) } else { bin("+", wide, narrow) }
                    }
                    0 => bin("+", self.expr_of(ty, d - 1), self.expr_of(ty, d - 1)),
                    1 => json!({"k": "slice", "e": self.expr_of(ty, d - 1), "a": self.opt_int(), "b": self.opt_int(), "c": self.opt_step()}),
                    2 => json!({"k": "rep", "v": self.expr_of(&e, d - 1), "len": int([0, 1, 2, 3][self.rng.below(4)])}),
                    3 => {
                        let its = self.vars_of(&titer(e.clone()));
                        if its.is_empty() { return self.inhabitant(ty, true); }
                        json!({"k": "collect", "it": var(&self.pick(&its))})
                    }
                    4 => {
                        let its = self.vars_of(&titer(e.clone()));
                        if its.is_empty() || e != tint() { return self.inhabitant(ty, true); }
                        let pred = json!({"k": "fn", "ps": [p("a", tint())], "r": tbool(), "body": [ret(bin(">", var("a"), int(1)))]});
                        json!({"k": "tupat", "e": json!({"k": "part", "it": var(&self.pick(&its)), "f": pred}), "i": self.rng.below(2)})
                    }
                    5 => arr((0..self.rng.below(3)).map(|_| self.expr_of(&e, d - 1)).collect()),
                    _ => self.inhabitant(ty, true),
                }
            }
            "multi" => {
                let ms = ty["ms"].as_array().unwrap().clone();
                // `it $ sentinel f`: the initial value has a type the reducer never returns; over an iterator
                // that is empty at run time the result IS the sentinel
                let sentinel = ms.iter().find(|m| **m == tvoid() || **m == tstr()).cloned();
                let its = self.vars_of(&titer(tint()));
                if let (Some(st), true, false) = (sentinel, ms.contains(&tint()) && d > 0 && self.rng.chance(1, 3), its.is_empty()) {
                    let init = if st == tvoid() { unit() } else { string("none") };
                    let f = json!({"k": "fn", "ps": [p("a", tmulti(vec![tint(), st])), p("b", tint())], "r": tint(), "body": [
                        json!({"k": "ifset", "n": "n", "ty": tint(), "e": var("a"), "t": block(vec![ret(bin("+", var("n"), var("b")))]), "f": none()}),
                        ret(var("b"))]});
                    return json!({"k": "reduce", "it": var(&self.pick(&its)), "init": init, "f": f});
                }
                let m = ms[self.rng.below(ms.len())].clone();
                self.expr_of(&m, d)
            }
            _ => self.inhabitant(ty, true),
        }
    }

    fn opt_int(&mut self) -> Value {
        if self.rng.chance(1, 3) { none() } else { int([0, 1, 2, -1, -2, 5][self.rng.below(6)]) }
    }
    fn opt_step(&mut self) -> Value {
        if self.rng.chance(1, 2) { none() } else { int([1, 2, -1, -2, 0][self.rng.below(5)]) }
    }

    fn declare(&mut self, name: &str, ty: Value) {
        self.env.push((name.to_string(), ty));
    }

    /// an iterator expression with element type `e` (int only for map/filter stages)
    fn iter_expr(&mut self, e: &Value, d: usize) -> Value {
        let base = json!({"k": "iter", "e": self.expr_of(&tarr(e.clone()), d.saturating_sub(1))});
        if *e != tint() || d == 0 { return base; }
        match self.rng.below(5) {
            0 => json!({"k": "map", "it": base, "f": json!({"k": "fn", "ps": [p("a", tint())], "r": tint(), "body": [ret(bin("*", var("a"), int(2)))]})}),
            1 => json!({"k": "filter", "it": base, "f": json!({"k": "fn", "ps": [p("a", tint())], "r": tbool(), "body": [ret(bin(">", var("a"), int(1)))]})}),
            2 => json!({"k": "tfilter", "it": base, "ty": tint()}),
            _ => base,
        }
    }

    /// one top-level (or body) statement; may declare names
    fn stmt(&mut self, d: usize, top: bool) -> Vec<Value> {
        let choice = self.rng.below(if top { 22 } else { 14 });
        match choice {
            11 | 17 => self.fn_value(d),
            12 | 13 if !top => self.shape(d, false),
            18..=21 => self.shape(d, true),
            0 => { let n = self.fresh("i"); let e = hide(tint(), self.int_expr(d)); self.declare(&n, tint()); vec![set(&n, e)] }
            1 => { let n = self.fresh("b"); let e = self.bool_expr(d); self.declare(&n, tbool()); vec![set(&n, hide(tbool(), e))] }
            2 => {
                let et = self.elem_type();
                let n = self.fresh("a");
                let ty = tarr(et);
                let e = self.expr_of(&ty, d);
                self.declare(&n, ty.clone());
                vec![set(&n, hide(ty, e))]
            }
            3 => { let n = self.fresh("c"); let e = self.int_expr(d); self.declare(&n, tmut(tint())); vec![set(&n, json!({"k": "mut", "ty": tint(), "e": e}))] }
            4 => {
                let cells = self.vars_of(&tmut(tint()));
                if cells.is_empty() { return vec![mark(self.next_mark())]; }
                let op = ["=", "+=", "-=", "*=", "/=", "%=", "<<=", ">>=", "&=", "|=", "^="][self.rng.below(11)];
                vec![json!({"k": "asg", "op": op, "l": var(&self.pick(&cells)), "r": self.int_expr(d)})]
            }
            5 => {
                let c = self.bool_expr(d);
                let (t1, t2) = (self.body(d, 2), self.body(d, 2));
                vec![json!({"k": "if", "c": c, "t": block(t1), "f": if self.rng.chance(1, 2) { block(t2) } else { none() }})]
            }
            6 => {
                // if-set / match over a union value
                let u = tmulti(vec![tint(), tfloat(), tstr()]);
                let x = self.fresh("u");
                let e = hide(u.clone(), self.expr_of(&u, d));
                let y = self.fresh("y");
                let m1 = mark(self.next_mark());
                let m2 = mark(self.next_mark());
                let m3 = mark(self.next_mark());
                let st = if self.rng.chance(1, 2) {
                    json!({"k": "ifset", "n": y, "ty": tint(), "e": var(&x), "t": block(vec![m1]), "f": block(vec![m2])})
                } else {
                    json!({"k": "match", "e": var(&x), "arms": [
                        {"k": "val", "vs": [int(1), string("a")], "b": block(vec![m1])},
                        {"k": "ty", "n": y, "ty": tmulti(vec![tint(), tfloat()]), "b": block(vec![m2])},
                        {"k": "other", "b": block(vec![m3])}]})
                };
                self.declare(&x, u);
                vec![set(&x, e), st]
            }
            7 => {
                // bounded while
                let k = self.fresh("k");
                let body = self.body(d, 2);
                let mut b = vec![json!({"k": "asg", "op": "+=", "l": var(&k), "r": int(1)})];
                b.extend(body);
                vec![set(&k, json!({"k": "mut", "ty": tint(), "e": int(0)})),
                     json!({"k": "while", "c": bin("<", json!({"k": "deref", "e": var(&k)}), int(self.rng.below(3) as i64)), "b": block(b)})]
            }
            8 => {
                let et = self.elem_type();
                let it = self.iter_expr(&et, d);
                let e = self.fresh("e");
                // over a literally empty array the element type is `!`, which the checker does not accept where an
                // int is required (e.g. as an index): such a loop variable is not offered to the expression generators
                let et = if it.to_string().contains("\"es\":[]") { t("never") } else { et };
                self.env.push((e.clone(), et));
                let body = self.body(d, 2);
                self.env.pop();
                vec![json!({"k": "for", "n": e, "e": it, "b": block(body)})]
            }
            9 => {
                let et = self.elem_type();
                let n = self.fresh("it");
                let e = self.iter_expr(&et, d);
                self.declare(&n, titer(et));
                vec![set(&n, e)]
            }
            10 => vec![mark(self.next_mark())],
            12 | 13 => self.fn_decl(d),
            16 => {
                let n = self.fresh("t");
                let ty = ttup(vec![tint(), tstr()]);
                let e = self.inhabitant(&ty, false);
                self.declare(&n, ty.clone());
                vec![set(&n, hide(ty, e))]
            }
            14 => {
                let n = self.fresh("s");
                let ty = tstruct(vec![("a", tint()), ("b", tstr())]);
                let e = self.inhabitant(&ty, false);
                self.declare(&n, ty);
                vec![set(&n, e)]
            }
            _ => {
                // type-changing map over an array, pulled past exhaustion
                let n = self.fresh("m");
                let src = json!({"k": "iter", "e": self.expr_of(&tarr(tint()), d)});
                let f = json!({"k": "fn", "ps": [p("a", tint())], "r": tstr(), "body": [ret(string("s"))]});
                self.declare(&n, titer(tstr()));
                vec![set(&n, json!({"k": "map", "it": src, "f": f}))]
            }
        }
    }

    /// a function literal (int)->int that captures a visible non-constant int (or reads a cell) when there is one
    fn fn_lit(&mut self) -> Value {
        let ints = self.vars_of(&tint());
        let cells = self.vars_of(&tmut(tint()));
        let other = if !cells.is_empty() && self.rng.chance(1, 2) { json!({"k": "deref", "e": var(&self.pick(&cells))}) }
                    else if !ints.is_empty() { var(&self.pick(&ints)) } else { int(3) };
        let op = ["+", "-", "*", "&"][self.rng.below(4)];
        json!({"k": "fn", "ps": [p("q", tint())], "r": tint(), "body": [ret(bin(op, var("q"), other))]})
    }

    /// a name bound to a function VALUE by a route other than `f := (..) -> T {..}`: through a tuple and a
    /// destructuring, a block, an if-expression, an array of functions, a function-returning function
    fn fn_value(&mut self, d: usize) -> Vec<Value> {
        let ft = tfn(vec![tint()], tint());
        let f = self.fresh("g");
        let out = match self.rng.below(7) {
            0 => {
                let n = self.fresh("i");
                let e = tup(vec![hide(tint(), self.int_expr(d.saturating_sub(1))), self.fn_lit()]);
                let st = json!({"k": "destruct", "ns": [n.clone(), f.clone()], "e": e});
                self.declare(&n, tint());
                vec![st]
            }
            1 => vec![set(&f, block(vec![self.fn_lit()]))],
            2 => vec![set(&f, json!({"k": "if", "c": hide(tbool(), self.bool_expr(1)), "t": block(vec![self.fn_lit()]), "f": block(vec![self.fn_lit()])}))],
            3 => {
                let a = self.fresh("fs");
                vec![set(&a, arr(vec![self.fn_lit(), self.fn_lit()])), set(&f, json!({"k": "at", "e": var(&a), "i": int([0, 1, -1][self.rng.below(3)])}))]
            }
            4 => {
                let mk = self.fresh("mk");
                let lit = self.fn_lit();
                vec![json!({"k": "fndecl", "n": mk, "ps": [p("w", tint())], "r": ft.clone(), "body": [
                        ret(json!({"k": "fn", "ps": [p("q", tint())], "r": tint(), "body": [ret(bin("+", call(lit, vec![var("q")]), var("w")))]}))]}),
                     set(&f, call(var(&mk), vec![self.int_expr(1)]))]
            }
            5 => {
                let t = self.fresh("tf");
                vec![set(&t, tup(vec![self.fn_lit(), int(1)])), set(&f, json!({"k": "tupat", "e": var(&t), "i": 0}))]
            }
            _ => {
                let fs = self.vars_of(&ft);
                if fs.is_empty() { vec![set(&f, block(vec![self.fn_lit()]))] }
                else {
                    // composition of an existing function with a literal
                    let g = self.pick(&fs);
                    let lit = self.fn_lit();
                    vec![set(&f, block(vec![json!({"k": "fn", "ps": [p("q", tint())], "r": tint(), "body": [ret(call(var(&g), vec![call(lit, vec![var("q")])]))]})]))]
                }
            }
        };
        self.declare(&f, ft);
        out
    }

    fn deref(c: &str) -> Value { json!({"k": "deref", "e": var(c)}) }
    fn asg(op: &str, l: Value, r: Value) -> Value { json!({"k": "asg", "op": op, "l": l, "r": r}) }
    fn if1(c: Value, t: Vec<Value>) -> Value { json!({"k": "if", "c": c, "t": block(t), "f": none()}) }
    /// `mut e` in one of its two surface forms
    fn mut_int(&mut self, e: Value) -> Value {
        if self.rng.chance(1, 2) { json!({"k": "mut", "ty": tint(), "e": e, "u": true}) } else { json!({"k": "mut", "ty": tint(), "e": e}) }
    }
    /// re-declare `name` with another type: the old entry disappears from the generator's scope
    fn redeclare(&mut self, name: &str, ty: Value) {
        self.env.retain(|(n, _)| n != name);
        self.env.push((name.to_string(), ty));
    }

    /// structural shapes: the same constructs the suites enumerate, here in random surroundings
    fn shape(&mut self, d: usize, top: bool) -> Vec<Value> {
        let ints = self.vars_of(&tint());
        let cells = self.vars_of(&tmut(tint()));
        match self.rng.below(if top { 26 } else { 13 }) {
            // a cell from the untyped / typed form with a literal, named or computed initial value
            0 => { let c = self.fresh("c"); let e = if self.rng.chance(1, 2) { int([0, 1, 10, -1][self.rng.below(4)]) } else { self.int_expr(1) };
                   let m = self.mut_int(e); self.declare(&c, tmut(tint())); vec![set(&c, m)] }
            // a loop whose body ends in `break`, with other exits inside
            1 => {
                let k = self.fresh("k");
                let exit = if self.rng.chance(1, 2) { json!({"k": "break"}) } else { json!({"k": "continue"}) };
                let (m1, m2) = (mark(self.next_mark()), mark(self.next_mark()));
                let c = self.bool_expr(1);
                let mut body = vec![Self::asg("+=", var(&k), int(1)), Self::if1(bin(">", Self::deref(&k), int(2)), vec![json!({"k": "break"})]), m1,
                                    Self::if1(c, vec![exit])];
                body.extend(self.body(d, 1));
                body.push(m2);
                body.push(json!({"k": "break"}));
                vec![set(&k, json!({"k": "mut", "ty": tint(), "e": int(0)})), json!({"k": "loop", "b": block(body)}), mark(self.next_mark())]
            }
            // for with continue / break decided by the element
            2 => {
                let e = self.fresh("e");
                let it = self.iter_expr(&tint(), d);
                if it.to_string().contains("\"es\":[]") { return vec![mark(self.next_mark())]; }
                let (m1, m2) = (mark(self.next_mark()), mark(self.next_mark()));
                let lim = int([0, 1, 2, 3][self.rng.below(4)]);
                vec![json!({"k": "for", "n": e, "e": it, "b": block(vec![
                    Self::if1(bin("<", var(&e), lim.clone()), vec![json!({"k": "continue"})]), m1,
                    Self::if1(bin(">", var(&e), bin("+", lim, int(1))), vec![json!({"k": "break"})]), m2])})]
            }
            // destructuring that permutes existing names / mixes old and new values
            3 if ints.len() >= 2 => {
                let a = self.pick(&ints);
                let b = self.pick(&ints);
                if a == b { return vec![mark(self.next_mark())]; }
                let e = match self.rng.below(3) {
                    0 => tup(vec![var(&b), var(&a)]),
                    1 => tup(vec![bin("+", var(&a), var(&b)), var(&a)]),
                    _ => tup(vec![var(&b), bin("*", var(&a), int(2))]),
                };
                vec![json!({"k": "destruct", "ns": [a, b], "e": e})]
            }
            // struct literal whose initialisers have interacting effects
            4 if !cells.is_empty() => {
                let c = self.pick(&cells);
                let s = self.fresh("s");
                let ops = ["+=", "*=", "-=", "="];
                let f1 = Self::asg(ops[self.rng.below(4)], var(&c), int([1, 2, 3][self.rng.below(3)]));
                let f2 = Self::asg(ops[self.rng.below(4)], var(&c), int([2, 3, 5][self.rng.below(3)]));
                let names = [["a", "b", "z"], ["z", "a", "b"], ["b", "z", "a"]][self.rng.below(3)];
                self.declare(&s, tstruct(vec![(names[0], tint()), (names[1], tint()), (names[2], tint())]));
                vec![set(&s, json!({"k": "struct", "fs": [[names[0], f1], [names[1], f2], [names[2], Self::deref(&c)]]}))]
            }
            // counter factory: every call of mk makes its own cell
            5 => {
                let mk = self.fresh("mk");
                let (f1, f2, i) = (self.fresh("g"), self.fresh("g"), self.fresh("i"));
                let init = if self.rng.chance(1, 2) { int([0, 5][self.rng.below(2)]) } else { self.int_expr(1) };
                let m = self.mut_int(init);
                let inner = json!({"k": "fn", "ps": [], "r": tint(), "body": [Self::asg("+=", var("cnt"), int(1)), ret(Self::deref("cnt"))]});
                let ft = tfn(vec![], tint());
                let out = vec![
                    json!({"k": "fndecl", "n": mk, "ps": [], "r": ft.clone(), "body": [set("cnt", m), ret(inner)]}),
                    set(&f1, call(var(&mk), vec![])), set(&f2, call(var(&mk), vec![])),
                    set(&i, bin("+", call(var(&f1), vec![]), bin("+", bin("*", int(10), call(var(&f1), vec![])), bin("*", int(100), call(var(&f2), vec![])))))];
                self.declare(&i, tint());
                out
            }
            // a type test on a scrutinee whose exact static type the checker knows
            6 => {
                let sa = tstruct(vec![("a", tint())]);
                let sab = tstruct(vec![("a", tint()), ("b", tint())]);
                let saf = tstruct(vec![("a", tmulti(vec![tint(), tfloat()]))]);
                let t2 = ttup(vec![tint(), tint()]);
                let t3 = ttup(vec![tint(), tint(), tint()]);
                let cands: Vec<(Value, Value)> = vec![
                    (sab.clone(), json!({"k": "struct", "fs": [["a", int(1)], ["b", int(2)]]})),
                    (sa.clone(), json!({"k": "struct", "fs": [["a", int(1)]]})),
                    (t2.clone(), tup(vec![int(1), int(2)])), (t3.clone(), tup(vec![int(1), int(2), int(3)])),
                    (tarr(tint()), arr(vec![int(1)])), (tarr(tmulti(vec![tint(), tfloat()])), arr(vec![int(1), flt(3)])),
                    (tmulti(vec![sab.clone(), tint()]), json!({"k": "struct", "fs": [["a", int(1)], ["b", int(2)]]})),
                    (tmulti(vec![t2.clone(), t3.clone()]), tup(vec![int(1), int(2), int(3)]))];
                let tests = [sa, sab, saf, t2, t3, tarr(tint()), tarr(tmulti(vec![tint(), tfloat()])), tarr(tany()), ttup(vec![tint(), tany()]), tint()];
                let (vt, ve) = cands[self.rng.below(cands.len())].clone();
                let test = tests[self.rng.below(tests.len())].clone();
                let v = self.fresh("v");
                let (m1, m2) = (mark(self.next_mark()), mark(self.next_mark()));
                let st = if self.rng.chance(1, 2) {
                    json!({"k": "ifset", "n": "y", "ty": test, "e": var(&v), "t": block(vec![m1]), "f": block(vec![m2])})
                } else {
                    json!({"k": "match", "e": var(&v), "arms": [{"k": "ty", "n": "y", "ty": test, "b": block(vec![m1])}, {"k": "other", "b": block(vec![m2])}]})
                };
                vec![set(&v, hide(vt, ve)), st]
            }
            // match on an int with value arms, a type arm and a default
            7 => {
                let e = self.int_expr(d);
                let (m1, m2, m3) = (mark(self.next_mark()), mark(self.next_mark()), mark(self.next_mark()));
                // (a later candidate of a value arm may never be evaluated: keep it total — making a closure folds its
                // body, and a failing constant there is raised when the closure is made, DESIGN 12.5)
                let e2 = if ints.is_empty() { int(4) } else { var(&self.pick(&ints)) };
                vec![json!({"k": "match", "e": e, "arms": [
                    {"k": "val", "vs": [int(1), e2], "b": block(vec![m1])},
                    {"k": "val", "vs": [int(2), int(3)], "b": block(vec![m2])},
                    {"k": "other", "b": block(vec![m3])}]})]
            }
            // re-declaring an int name with another type, then using the new type
            8 if top && !ints.is_empty() && self.in_fn.is_none() => {
                let a = self.pick(&ints);
                match self.rng.below(3) {
                    0 => { let e = bin("+", string("n"), string("m")); self.redeclare(&a, tstr()); vec![set(&a, e)] }
                    1 => { let e = arr(vec![var(&a), int(2)]); self.redeclare(&a, tarr(tint())); vec![set(&a, hide(tarr(tint()), e))] }
                    _ => { let e = bin("+", var(&a), int(1)); vec![set(&a, e)] }
                }
            }
            // a block expression that shadows an outer name for its own duration
            9 if !ints.is_empty() => {
                let a = self.pick(&ints);
                let i = self.fresh("i");
                let m = mark(self.next_mark());
                self.declare(&i, tint());
                vec![set(&i, block(vec![set(&a, bin("+", var(&a), int(1))), m, bin("*", var(&a), int(2))])),
                     set(&self.fresh("i"), var(&a))]
            }
            // one cell reached through an array holding it twice
            10 if !cells.is_empty() => {
                let c = self.pick(&cells);
                let cs = self.fresh("cs");
                let i = self.fresh("i");
                self.declare(&i, tint());
                vec![set(&cs, arr(vec![var(&c), var(&c)])),
                     Self::asg("+=", json!({"k": "at", "e": var(&cs), "i": int(0)}), int(1)),
                     set(&i, json!({"k": "deref", "e": json!({"k": "at", "e": var(&cs), "i": int(1)})}))]
            }
            // an index every variant of a union of tuples has
            11 => {
                let tu = self.fresh("tu");
                let i = self.fresh("i");
                let ty = tmulti(vec![ttup(vec![tint(), tint()]), ttup(vec![tint(), tint(), tint()])]);
                let e = if self.rng.chance(1, 2) { tup(vec![int(1), int(2)]) } else { tup(vec![int(1), int(2), int(3)]) };
                self.declare(&i, tint());
                vec![set(&tu, hide(ty, e)), set(&i, json!({"k": "tupat", "e": var(&tu), "i": self.rng.below(2)}))]
            }
            // early return out of a loop inside a function
            12 => {
                let f = self.fresh("f");
                let i = self.fresh("i");
                let m = mark(self.next_mark());
                let arg = self.int_expr(1);
                self.declare(&i, tint());
                vec![json!({"k": "fndecl", "n": f, "ps": [p("n", tint())], "r": tint(), "body": [
                        json!({"k": "for", "n": "e", "e": json!({"k": "iter", "e": arr(vec![int(1), int(2), int(3)])}), "b": block(vec![
                            m, Self::if1(bin("==", var("e"), var("n")), vec![ret(bin("*", var("e"), int(10)))])])}),
                        ret(int(-1))]}),
                     set(&i, bin("+", call(var(&f), vec![arg]), call(var(&f), vec![int(2)])))]
            }
            // ---- top level only ----
            // while-set over a function that eventually answers ()
            13 => {
                let (c, nx, s) = (self.fresh("c"), self.fresh("nx"), self.fresh("c"));
                let m = mark(self.next_mark());
                let r = tmulti(vec![tint(), tvoid()]);
                self.declare(&s, tmut(tint()));
                vec![set(&c, json!({"k": "mut", "ty": tint(), "e": int(0)})), set(&s, json!({"k": "mut", "ty": tint(), "e": int(0)})),
                     json!({"k": "fndecl", "n": nx, "ps": [], "r": r, "body": [
                        Self::asg("+=", var(&c), int(1)), Self::if1(bin(">", Self::deref(&c), int(2)), vec![json!({"k": "ret", "e": unit()})]), ret(Self::deref(&c))]}),
                     json!({"k": "whileset", "n": "y", "ty": tint(), "e": call(var(&nx), vec![]), "b": block(vec![m, Self::asg("+=", var(&s), var("y"))])})]
            }
            // a module with a function that uses the module's own name, called through the field
            14 => {
                let (m, i) = (self.fresh("m"), self.fresh("i"));
                let k = self.int_expr(1);
                self.declare(&i, tint());
                vec![set(&m, json!({"k": "mod", "body": [set("k", hide(tint(), k)),
                        json!({"k": "fndecl", "n": "dbl", "ps": [p("v", tint())], "r": tint(), "body": [ret(bin("*", var("v"), var("k")))]})]})),
                     set(&i, call(json!({"k": "field", "e": var(&m), "n": "dbl"}), vec![json!({"k": "field", "e": var(&m), "n": "k"})]))]
            }
            // recursion
            15 => {
                let (f, i) = (self.fresh("f"), self.fresh("i"));
                self.declare(&i, tint());
                vec![json!({"k": "fndecl", "n": f, "ps": [p("n", tint())], "r": tint(), "body": [
                        Self::if1(bin("<", var("n"), int(1)), vec![ret(int(1))]),
                        ret(bin("*", var("n"), call(var(&f), vec![bin("-", var("n"), int(1))])))]}),
                     set(&i, call(var(&f), vec![int([0, 1, 3, 4][self.rng.below(4)])]))]
            }
            // a general reduce with an effectful reducer
            16 if !cells.is_empty() => {
                let c = self.pick(&cells);
                let i = self.fresh("i");
                let it = self.iter_expr(&tint(), 1);
                self.declare(&i, tint());
                vec![set(&i, json!({"k": "reduce", "it": it, "init": Self::asg("+=", var(&c), int(1)), "f": json!({"k": "fn",
                    "ps": [p("a", tint()), p("b", tint())], "r": tint(), "body": [Self::asg("+=", var(&c), var("b")), ret(bin("-", bin("*", var("a"), int(2)), var("b")))]})}))]
            }
            // ---- (top level) closures two levels deep over everything in scope, called twice
            17 | 18 => {
                let (mk, g, i) = (self.fresh("mk"), self.fresh("g"), self.fresh("i"));
                let keep = self.env.len();
                let saved = self.in_fn.replace(tint());
                let e = self.int_expr(d.max(2));
                self.in_fn = saved;
                self.env.truncate(keep);
                let ft = tfn(vec![], tint());
                self.declare(&i, tint());
                vec![json!({"k": "fndecl", "n": mk, "ps": [], "r": tfn(vec![], ft.clone()), "body": [
                        ret(json!({"k": "fn", "ps": [], "r": ft, "body": [ret(json!({"k": "fn", "ps": [], "r": tint(), "body": [ret(e)]}))]}))]}),
                     set(&g, call(call(var(&mk), vec![]), vec![])),
                     set(&i, bin("+", call(var(&g), vec![]), call(var(&g), vec![])))]
            }
            // a block / branch ending in `()` after an effect, observed by a type test
            19 if !cells.is_empty() => {
                let c = self.pick(&cells);
                let b = self.fresh("bv");
                let (m1, m2) = (mark(self.next_mark()), mark(self.next_mark()));
                vec![set(&b, block(vec![Self::asg("+=", var(&c), int(1)), unit()])),
                     json!({"k": "ifset", "n": "q", "ty": tvoid(), "e": var(&b), "t": block(vec![m1]), "f": block(vec![m2])})]
            }
            // one cell repeated in an array: the elements are the cell
            20 if !cells.is_empty() => {
                let c = self.pick(&cells);
                let (rp, i) = (self.fresh("rp"), self.fresh("i"));
                self.declare(&i, tint());
                vec![set(&rp, json!({"k": "rep", "v": var(&c), "len": int(3)})),
                     Self::asg("+=", json!({"k": "at", "e": var(&rp), "i": int(1)}), int(2)),
                     set(&i, bin("+", Self::deref(&c), json!({"k": "deref", "e": json!({"k": "at", "e": var(&rp), "i": int(2)})})))]
            }
            // a struct literal naming a field twice, with effects
            21 if !cells.is_empty() => {
                let c = self.pick(&cells);
                let s = self.fresh("s");
                self.declare(&s, tstruct(vec![("a", tint()), ("b", tint())]));
                vec![set(&s, json!({"k": "struct", "fs": [["a", Self::asg("+=", var(&c), int(1))], ["b", Self::asg("*=", var(&c), int(2))], ["a", Self::asg("-=", var(&c), int(3))]]}))]
            }
            // a user variable named like the helper code's internals next to iterator operators
            22 => {
                let nm = ["default", "iterator", "func", "res", "con", "value", "array", "len", "mapper", "predicate"][self.rng.below(10)];
                let i = self.fresh("i");
                let src = hide(tarr(tmulti(vec![tint(), tstr()])), arr(vec![int(1), string("a"), int(2)]));
                let pr = json!({"k": "fn", "ps": [p("q", tint())], "r": tbool(), "body": [ret(bin(">", var("q"), int(0)))]});
                let mp = json!({"k": "fn", "ps": [p("q", tint())], "r": tint(), "body": [ret(bin("+", var("q"), int(1)))]});
                let it = json!({"k": "map", "it": json!({"k": "filter", "it": json!({"k": "tfilter", "it": json!({"k": "iter", "e": src}), "ty": tint()}), "f": pr}), "f": mp});
                self.declare(nm, tint());
                self.declare(&i, tint());
                vec![set(nm, hide(tint(), int(70))), set(&i, bin("+", json!({"k": "red", "op": "$+", "ek": "int", "it": it}), var(nm)))]
            }
            // for over a mapped iterator whose body reads names the helper code also uses
            23 => {
                let (s, r) = (self.fresh("c"), "res");
                self.declare(&s, tmut(tint()));
                let mp = json!({"k": "fn", "ps": [p("q", tint())], "r": tint(), "body": [ret(bin("*", var("q"), int(2)))]});
                vec![set(r, hide(tint(), int(100))), set(&s, json!({"k": "mut", "ty": tint(), "e": int(0)})),
                     json!({"k": "for", "n": "e", "e": json!({"k": "map", "it": json!({"k": "iter", "e": arr(vec![int(1), int(2)])}), "f": mp}),
                            "b": block(vec![Self::asg("+=", var(&s), bin("+", var("e"), var(r)))])})]
            }
            // match on a constant with value arms that are only known at run time
            24 if !ints.is_empty() => {
                let v = self.pick(&ints);
                let (m1, m2, m3) = (mark(self.next_mark()), mark(self.next_mark()), mark(self.next_mark()));
                let k = int([0, 1, 2, 3][self.rng.below(4)]);
                vec![json!({"k": "match", "e": k, "arms": [
                    {"k": "val", "vs": [var(&v)], "b": block(vec![m1])},
                    {"k": "val", "vs": [int(1), int(2)], "b": block(vec![m2])},
                    {"k": "other", "b": block(vec![m3])}]})]
            }
            // a guard whose excluded branch would fail
            25 if !ints.is_empty() => {
                let v = self.pick(&ints);
                let i = self.fresh("i");
                self.declare(&i, tint());
                let op = ["/", "%"][self.rng.below(2)];
                vec![set(&i, json!({"k": "if", "c": bin("!=", var(&v), int(0)), "t": block(vec![bin(op, int(12), var(&v))]), "f": block(vec![int(-1)])}))]
            }
            _ => vec![mark(self.next_mark())],
        }
    }

    fn next_mark(&mut self) -> i64 {
        self.marks += 1;
        self.marks
    }

    fn body(&mut self, d: usize, n: usize) -> Vec<Value> {
        let keep = self.env.len();
        let mut out = vec![];
        for _ in 0..(1 + self.rng.below(n)) {
            out.extend(self.stmt(d.saturating_sub(1), false));
        }
        self.env.truncate(keep);
        out
    }

    /// a function declaration with typed parameters plus calls with boundary arguments
    fn fn_decl(&mut self, d: usize) -> Vec<Value> {
        let name = self.fresh("f");
        let pool = [tint(), tarr(tint()), tarr(tstr()), tarr(tfloat()), tmulti(vec![tint(), tfloat()]), tany(),
                    tstruct(vec![("a", tint())]), tmulti(vec![tint(), tvoid()]), tarr(tmulti(vec![tint(), tfloat()]))];
        let np = 1 + self.rng.below(2);
        let params: Vec<(String, Value)> = (0..np).map(|i| (format!("{name}p{i}"), pool[self.rng.below(pool.len())].clone())).collect();
        let rets = [tint(), tstr(), tfloat(), tarr(tint()), tmulti(vec![tint(), tvoid()]), tvoid(), tbool()];
        let r = rets[self.rng.below(rets.len())].clone();
        let keep = self.env.len();
        let saved_fn = self.in_fn.replace(r.clone());
        for (n, t) in &params {
            self.env.push((n.clone(), t.clone()));
        }
        let mut body = vec![];
        for _ in 0..self.rng.below(3) {
            body.extend(self.stmt(d.saturating_sub(1), false));
        }
        // the result: computed from the parameters where possible
        let result = self.result_expr(&r, &params, d);
        let falls_off = r["k"] == "multi" && self.rng.chance(1, 2) || r["k"] == "void";
        if falls_off {
            if r["k"] == "multi" {
                body.push(json!({"k": "if", "c": self.bool_expr(1), "t": block(vec![ret(result)]), "f": none()}));
            }
        } else {
            body.push(ret(result));
        }
        self.env.truncate(keep);
        self.in_fn = saved_fn;
        let fty = tfn(params.iter().map(|p| p.1.clone()).collect(), r.clone());
        self.declare(&name, fty);
        let mut out = vec![json!({"k": "fndecl", "n": name, "ps": params.iter().map(|(n, t)| p(n, t.clone())).collect::<Vec<_>>(), "r": r, "body": body})];
        for _ in 0..(1 + self.rng.below(2)) {
            let args: Vec<Value> = params.iter().map(|(_, t)| self.inhabitant(t, true)).collect();
            let res = self.fresh("r");
            out.push(set(&res, call(var(&name), args)));
            self.declare(&res, r.clone());
        }
        out
    }

    fn result_expr(&mut self, r: &Value, params: &[(String, Value)], d: usize) -> Value {
        let arr_of = |t: &Value| params.iter().find(|p| p.1 == tarr(t.clone())).map(|p| p.0.clone());
        match r["k"].as_str().unwrap() {
            "string" => {
                if let Some(a) = arr_of(&tstr()) {
                    return match self.rng.below(3) {
                        0 => json!({"k": "red", "op": "$+", "ek": "string", "it": json!({"k": "iter", "e": var(&a)})}),
                        1 => json!({"k": "tupat", "e": call(json!({"k": "iter", "e": var(&a)}), vec![]), "i": 1}),
                        _ => json!({"k": "at", "e": var(&a), "i": int(0)}),
                    };
                }
                self.expr_of(r, d)
            }
            "float" => {
                if let Some(a) = arr_of(&tfloat()) {
                    return match self.rng.below(2) {
                        0 => json!({"k": "red", "op": "$+", "ek": "float", "it": json!({"k": "iter", "e": var(&a)})}),
                        _ => json!({"k": "red", "op": "$*", "ek": "float", "it": json!({"k": "iter", "e": var(&a)})}),
                    };
                }
                self.expr_of(r, d)
            }
            "int" => {
                if let Some(a) = arr_of(&tint()) {
                    if self.rng.chance(1, 2) {
                        return match self.rng.below(3) {
                            0 => json!({"k": "red", "op": "$*", "ek": "int", "it": json!({"k": "iter", "e": var(&a)})}),
                            1 => json!({"k": "tupat", "e": call(json!({"k": "iter", "e": var(&a)}), vec![]), "i": 1}),
                            _ => json!({"k": "red", "op": "$&", "ek": "int", "it": json!({"k": "iter", "e": var(&a)})}),
                        };
                    }
                }
                self.int_expr(d)
            }
            "array" => {
                if let Some(a) = arr_of(&tint()) {
                    return match self.rng.below(3) {
                        0 => json!({"k": "slice", "e": var(&a), "a": self.opt_int(), "b": self.opt_int(), "c": self.opt_step()}),
                        1 => bin("+", var(&a), arr(vec![int(1)])),
                        _ => json!({"k": "collect", "it": json!({"k": "iter", "e": var(&a)})}),
                    };
                }
                self.expr_of(r, d)
            }
            _ => self.expr_of(r, d),
        }
    }

    /// Programs the documentation's rules refuse (negative cases): if an implementation accepts one, the run is
    /// judged by its events and must not panic. Each returns a complete small program.
    pub fn negative_program(&mut self) -> Vec<Value> {
        let u = tmulti(vec![tint(), tstr()]);
        let brk = json!({"k": "break"});
        let cont = json!({"k": "continue"});
        let arg_s = string("s");
        let calls = |name: &str| vec![set("r1", call(var(name), vec![arg_s.clone()])), set("r2", call(var(name), vec![int(1)])), tup(vec![var("r1"), var("r2")])];
        match self.rng.below(18) {
            // an expression whose static type is a union, holding at run time the NON-int member, used where only
            // an int may be used: rejected today; a checker that forgets a member of some result type accepts it
            12..=17 => {
                let srcs = 9;
                let isint = |acc: &str, x: &str| json!({"k": "fn", "ps": [p(acc, u.clone()), p(x, tint())], "r": tint(), "body": [
                    json!({"k": "ifset", "n": "n", "ty": tint(), "e": var(acc), "t": block(vec![ret(bin("+", var("n"), var(x)))]), "f": none()}), ret(var(x))]});
                let empty_it = json!({"k": "iter", "e": hide(tarr(tint()), arr(vec![]))});
                let hs = hide(u.clone(), string("s"));
                let hb = hide(tbool(), boolean(false));
                let (pre, e): (Vec<Value>, Value) = match self.rng.below(srcs) {
                    0 => (vec![], json!({"k": "reduce", "it": empty_it, "init": string("none"), "f": isint("a", "b")})),
                    1 => (vec![set("w", hs.clone())], var("w")),
                    2 => (vec![], json!({"k": "if", "c": hb, "t": block(vec![int(1)]), "f": block(vec![string("s")])})),
                    3 => (vec![], json!({"k": "match", "e": hs.clone(), "arms": [{"k": "ty", "n": "x", "ty": tint(), "b": block(vec![var("x")])}, {"k": "other", "b": block(vec![string("t")])}]})),
                    4 => (vec![json!({"k": "fndecl", "n": "mk", "ps": [], "r": u.clone(), "body": [ret(string("s"))]})], call(var("mk"), vec![])),
                    5 => (vec![set("ar", hide(tarr(u.clone()), arr(vec![string("s"), int(1)])))], json!({"k": "at", "e": var("ar"), "i": int(0)})),
                    6 => (vec![set("c", json!({"k": "mut", "ty": u.clone(), "e": string("s")}))], json!({"k": "deref", "e": var("c")})),
                    7 => (vec![set("tp", hide(ttup(vec![u.clone(), tint()]), tup(vec![string("s"), int(1)])))], json!({"k": "tupat", "e": var("tp"), "i": 0})),
                    _ => (vec![], json!({"k": "ifset", "n": "x", "ty": tfloat(), "e": hide(tmulti(vec![tint(), tfloat()]), int(1)), "t": block(vec![int(1)]), "f": block(vec![string("s")])})),
                };
                let sink = match self.rng.below(7) {
                    0 => bin("+", e, int(1)),
                    1 => bin("*", int(2), e),
                    2 => json!({"k": "at", "e": arr(vec![int(1), int(2)]), "i": e}),
                    3 => json!({"k": "rep", "v": int(0), "len": e}),
                    4 => bin("<", e, int(3)),
                    5 => bin("&", e, int(3)),
                    _ => json!({"k": "neg", "e": e}),
                };
                let mut prog = pre;
                prog.push(set("r", sink));
                prog.push(var("r"));
                prog
            }
            // a function that can fall off its end: the exit is hidden in a type-test branch / match arm / nested block
            0..=3 => {
                let exit = if self.rng.chance(1, 3) { cont.clone() } else { brk.clone() };
                let breaker = match self.rng.below(4) {
                    0 => json!({"k": "ifset", "n": "x", "ty": tstr(), "e": var("v"), "t": block(vec![brk.clone()]), "f": none()}),
                    1 => json!({"k": "match", "e": var("v"), "arms": [{"k": "ty", "n": "x", "ty": tstr(), "b": block(vec![brk.clone()])}, {"k": "other", "b": block(vec![mark(1)])}]}),
                    2 => block(vec![json!({"k": "ifset", "n": "x", "ty": tstr(), "e": var("v"), "t": block(vec![block(vec![brk.clone()])]), "f": none()})]),
                    _ => json!({"k": "if", "c": bin("==", var("v"), string("s")), "t": block(vec![brk.clone()]), "f": none()}),
                };
                let tail = if exit == cont { vec![mark(2), json!({"k": "ifset", "n": "y", "ty": tint(), "e": var("v"), "t": block(vec![ret(int(1))]), "f": none()}), mark(3), brk.clone()] } else { vec![ret(int(1))] };
                let mut body = vec![breaker];
                body.extend(tail);
                let mut prog = vec![json!({"k": "fndecl", "n": "f", "ps": [p("v", u.clone())], "r": tint(), "body": [json!({"k": "loop", "b": block(body)})]})];
                prog.extend(calls("f"));
                prog
            }
            // break / continue in a function literal written inside a loop body
            4 | 5 => {
                let exit = if self.rng.chance(1, 2) { brk } else { cont };
                let inner = if self.rng.chance(1, 2) { vec![exit] } else { vec![json!({"k": "if", "c": boolean(true), "t": block(vec![exit]), "f": none()})] };
                vec![set("k", json!({"k": "mut", "ty": tint(), "e": int(0)})),
                     json!({"k": "while", "c": bin("<", json!({"k": "deref", "e": var("k")}), int(2)), "b": block(vec![
                         json!({"k": "asg", "op": "+=", "l": var("k"), "r": int(1)}),
                         set("g", json!({"k": "fn", "ps": [], "r": tvoid(), "body": inner})),
                         call(var("g"), vec![])])}),
                     json!({"k": "deref", "e": var("k")})]
            }
            // a match that does not cover its scrutinee
            6 => {
                let mut prog = vec![json!({"k": "fndecl", "n": "f", "ps": [p("v", u.clone())], "r": tint(), "body": [
                    ret(json!({"k": "match", "e": var("v"), "arms": [{"k": "ty", "n": "x", "ty": tint(), "b": block(vec![int(1)])}, {"k": "val", "vs": [string("t")], "b": block(vec![int(2)])}]}))]})];
                prog.extend(calls("f"));
                prog
            }
            // returning / passing a value of the wrong type, wrong arity
            7 => {
                let mut prog = vec![json!({"k": "fndecl", "n": "f", "ps": [p("v", u.clone())], "r": tint(), "body": [ret(var("v"))]})];
                prog.extend(calls("f"));
                prog
            }
            8 => vec![json!({"k": "fndecl", "n": "f", "ps": [p("v", tint())], "r": tint(), "body": [ret(bin("+", var("v"), int(1)))]}),
                      set("r1", call(var("f"), vec![hide(u.clone(), string("s"))])), var("r1")],
            9 => vec![json!({"k": "fndecl", "n": "f", "ps": [p("v", tint())], "r": tint(), "body": [ret(var("v"))]}),
                      set("r1", call(var("f"), vec![int(1), int(2)])), var("r1")],
            // destructuring a tuple of another length; indexing with a non-int
            10 => vec![json!({"k": "destruct", "ns": ["a", "b"], "e": hide(ttup(vec![tint(), tint(), tint()]), tup(vec![int(1), int(2), int(3)]))}), bin("+", var("a"), var("b"))],
            _ => vec![set("a", hide(tarr(tint()), arr(vec![int(1), int(2)]))), json!({"k": "at", "e": var("a"), "i": hide(tmulti(vec![tint(), tfloat()]), int(1))})],
        }
    }

    pub fn program(&mut self, size: usize) -> Vec<Value> {
        self.used_near_miss = false;
        self.env.clear();
        self.next = 0;
        self.marks = 0;
        let mut out = vec![];
        for _ in 0..size {
            out.extend(self.stmt(2, true));
        }
        // final expression: a tuple of some of the declared first-order values
        let mut picks = vec![];
        for (n, t) in self.env.clone().iter().rev() {
            if picks.len() >= 4 { break; }
            let k = t["k"].as_str().unwrap();
            if matches!(k, "int" | "bool" | "array" | "float" | "string" | "multi" | "tuple" | "void" | "struct") {
                picks.push(var(n));
            } else if k == "mut" {
                picks.push(json!({"k": "deref", "e": var(n)}));
            } else if k == "fn" && t["ps"].as_array().unwrap().is_empty() && self.rng.chance(1, 2) {
                // pull an iterator twice more: maybe past exhaustion
                picks.push(json!({"k": "tupat", "e": call(var(n), vec![]), "i": 0}));
                picks.push(call(var(n), vec![]));
            }
        }
        if picks.len() >= 2 { out.push(tup(picks)); } else if picks.len() == 1 { out.push(picks.pop().unwrap()); } else { out.push(int(0)); }
        out
    }
}

pub fn run(args: &[String]) -> Value {
    let n: usize = args[0].parse().unwrap();
    let path = &args[1];
    let mut g = G { rng: Rng::from_env(0x6e6), env: vec![], next: 0, marks: 0, in_fn: None, near_miss: 0, used_near_miss: false };
    let mut w = std::io::BufWriter::new(std::fs::File::create(path).unwrap());
    use std::io::Write;
    for i in 0..n {
        let size = 2 + g.rng.below(5);
        // every 5th program is a near-miss: one sub-expression gets a close but non-matching type; the checker is
        // expected to refuse it, and if it does not, the run is judged by its events (negative case)
        g.near_miss = if i % 5 == 4 { 1 } else { 0 };
        let structured = i % 10 == 9;
        let prog = if structured { g.negative_program() } else { g.program(size) };
        let negative = structured || g.used_near_miss;
        writeln!(w, "{}", json!({"id": format!("gen-{i}"), "suite": "gen", "prog": prog, "negative": negative})).unwrap();
    }
    json!({"generated": n})
}
