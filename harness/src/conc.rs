//! `vh conc ...` — C16: parsed code and values shared between OS threads.
//!
//!   replay <cases.ndjson> <reps>            spec -> impl: every case of MC_Conc's program space is
//!                                           run on real threads; the observed outcome must be one
//!                                           the specification's atomic reference allows
//!   forced <cases.ndjson>                   spec -> impl: every serial order TLC enumerated is
//!                                           forced with gates and must give exactly its outcome
//!   record <dir> <small> <T> <K> <big> <T> <K>
//!                                           impl -> spec: stress histories with schedule
//!                                           perturbation; writes conc_trace.ndjson (calls + the
//!                                           under-lock Write events, for Trace_Conc) and
//!                                           conc_lin.ndjson (calls only, for Trace_ConcLin)
//!   solo <threads> <reps>                   runs that share no cell: one Code, many threads,
//!                                           compared with the sequential run of the same Code
//!   render <millis>                         F17: render a self-containing cell while assigning it
//!
//! Every concurrent run is watched: if the threads do not finish within VERIF_CONC_WATCHDOG_S
//! seconds (default 30) the run is reported as a deadlock and the command returns at once.
use crate::util::{Rng, catch, read_ndjson};
use serde_json::{Map, Value, json};
use simplesl::{
    Code, Interpreter,
    function::Function,
    variable::{Mut, ReturnType, Variable},
    verif::{self, Event},
};
use std::{
    cell::{Cell, RefCell},
    collections::{BTreeMap, HashMap, HashSet},
    io::Write as _,
    rc::Rc,
    sync::{
        Arc, Barrier, Condvar, Mutex,
        atomic::{AtomicBool, AtomicU8, AtomicU64, Ordering},
        mpsc,
    },
    time::{Duration, Instant},
};

// ------------------------------------------------------------------------------------------
// schedule perturbation and gates (the process-wide callback of simplesl::verif::set_perturb)
// ------------------------------------------------------------------------------------------

const TABLE_LEN: usize = 4096;
static TABLE: [AtomicU8; TABLE_LEN] = [const { AtomicU8::new(0) }; TABLE_LEN];
static PERTURB_ON: AtomicBool = AtomicBool::new(false);
static GATES_ON: AtomicBool = AtomicBool::new(false);
static HOOK_HITS: AtomicU64 = AtomicU64::new(0);

thread_local! {
    /// (salt of this thread, number of perturbation points passed)
    static PT: Cell<(u64, u64)> = const { Cell::new((0, 0)) };
    /// thread index used by the gates (0 = not a gated thread)
    static GATE_ID: Cell<usize> = const { Cell::new(0) };
}

fn mix(mut z: u64) -> u64 {
    z = (z ^ (z >> 30)).wrapping_mul(0xBF58476D1CE4E5B9);
    z = (z ^ (z >> 27)).wrapping_mul(0x94D049BB133111EB);
    z ^ (z >> 31)
}

/// Turn order for forced schedules: `order[pos]` is the thread whose step is next.
struct Turns {
    order: Vec<usize>,
    pos: usize,
    abort: bool,
}
static TURNS: Mutex<Turns> = Mutex::new(Turns { order: vec![], pos: 0, abort: false });
static TURN_CV: Condvar = Condvar::new();

/// Blocks until it is `me`'s turn. Returns false when the schedule was aborted (watchdog).
fn wait_turn(me: usize) -> bool {
    let mut g = TURNS.lock().unwrap();
    loop {
        if g.abort {
            return false;
        }
        if g.pos < g.order.len() && g.order[g.pos] == me {
            return true;
        }
        let (ng, _) = TURN_CV.wait_timeout(g, Duration::from_millis(200)).unwrap();
        g = ng;
    }
}

fn end_turn() {
    let mut g = TURNS.lock().unwrap();
    g.pos += 1;
    drop(g);
    TURN_CV.notify_all();
}

thread_local! {
    /// set while the current call of a gated thread still has to wait for its turn at the
    /// "before-write-lock" point (assignments) — reads wait at the call boundary instead
    static WAIT_AT_LOCK: Cell<bool> = const { Cell::new(false) };
}

fn perturb_cb(point: &'static str) {
    HOOK_HITS.fetch_add(1, Ordering::Relaxed);
    if GATES_ON.load(Ordering::Relaxed) {
        let me = GATE_ID.with(Cell::get);
        if me != 0 && point == "before-write-lock" && WAIT_AT_LOCK.with(Cell::get) {
            WAIT_AT_LOCK.with(|w| w.set(false));
            wait_turn(me);
        }
        return;
    }
    if !PERTURB_ON.load(Ordering::Relaxed) {
        return;
    }
    let (salt, n) = PT.with(|c| {
        let (s, n) = c.get();
        c.set((s, n + 1));
        (s, n)
    });
    let p = u64::from(point.as_bytes()[0] == b'w');
    let idx = (mix(salt ^ (n * 2 + p).wrapping_mul(0x9E3779B97F4A7C15)) as usize) % TABLE_LEN;
    match TABLE[idx].load(Ordering::Relaxed) {
        1 => std::thread::yield_now(),
        2 => {
            for _ in 0..300 {
                std::hint::spin_loop();
            }
        }
        3 => std::thread::sleep(Duration::from_micros(20)),
        _ => {}
    }
}

/// Fills the perturbation table: `level` 0 = nothing, 1 = light, 2 = heavy.
fn set_table(rng: &mut Rng, level: u8) {
    for slot in TABLE.iter() {
        let r = rng.below(100);
        let a = match level {
            0 => 0,
            1 => {
                if r < 10 { 1 } else if r < 14 { 2 } else { 0 }
            }
            _ => {
                if r < 30 { 1 } else if r < 42 { 2 } else if r < 44 { 3 } else { 0 }
            }
        };
        slot.store(a, Ordering::Relaxed);
    }
    PERTURB_ON.store(level > 0, Ordering::Relaxed);
}

fn watchdog() -> Duration {
    let s = std::env::var("VERIF_CONC_WATCHDOG_S").ok().and_then(|s| s.parse().ok()).unwrap_or(30u64);
    Duration::from_secs(s.max(20))
}

/// Runs the jobs on OS threads released together by a barrier. `None` = the threads did not all
/// finish before the watchdog fired (they are left behind; the caller must wind up at once).
fn run_threads<R: Send + 'static>(
    jobs: Vec<Box<dyn FnOnce() -> R + Send>>,
    salt: u64,
) -> Option<Vec<R>> {
    let n = jobs.len();
    let barrier = Arc::new(Barrier::new(n));
    let (tx, rx) = mpsc::channel();
    for (i, job) in jobs.into_iter().enumerate() {
        let tx = tx.clone();
        let barrier = barrier.clone();
        std::thread::Builder::new()
            .stack_size(64 << 20)
            .spawn(move || {
                PT.with(|c| c.set((mix(salt.wrapping_add(i as u64 + 1)), 0)));
                GATE_ID.with(|g| g.set(i + 1));
                barrier.wait();
                let r = job();
                let _ = tx.send((i, r));
            })
            .expect("cannot spawn thread");
    }
    drop(tx);
    let deadline = Instant::now() + watchdog();
    let mut res: Vec<Option<R>> = (0..n).map(|_| None).collect();
    for _ in 0..n {
        let left = deadline.saturating_duration_since(Instant::now());
        match rx.recv_timeout(left) {
            Ok((i, r)) => res[i] = Some(r),
            Err(_) => return None,
        }
    }
    Some(res.into_iter().map(Option::unwrap).collect())
}

// ------------------------------------------------------------------------------------------
// values, operations, program text
// ------------------------------------------------------------------------------------------

const DOM: i64 = 1 << 29;

type Names = HashMap<usize, String>;

fn cell_key(m: &Arc<Mut>) -> usize {
    Arc::as_ptr(m) as usize
}

/// The specification's tagged value for an implementation value. Never takes a lock.
fn val_json(v: &Variable, names: &Names) -> Value {
    match v {
        Variable::Int(n) if *n >= -DOM && *n < DOM => json!({"k": "int", "v": n}),
        Variable::Int(n) => json!({"k": "big", "s": n.to_string()}),
        Variable::Mut(m) => json!({"k": "cell", "c": names.get(&cell_key(m)).cloned().unwrap_or_else(|| "?".into())}),
        Variable::String(s) => json!({"k": "str", "s": &**s}),
        Variable::Bool(_) => json!({"k": "other", "s": "bool"}),
        Variable::Float(_) => json!({"k": "other", "s": "float"}),
        Variable::Void => json!({"k": "other", "s": "void"}),
        _ => json!({"k": "other", "s": "compound"}),
    }
}

fn int_text(n: i64) -> String {
    if n < 0 { format!("(0-{})", -n) } else { n.to_string() }
}

fn rhs_text(v: &Value) -> String {
    match v["k"].as_str().unwrap() {
        "int" => int_text(v["v"].as_i64().unwrap()),
        "cell" => v["c"].as_str().unwrap().to_string(),
        other => panic!("rhs kind {other}"),
    }
}

/// One operation of the specification (`Asg`, `Deref`, `Render`) as SimpleSL source text.
fn op_text(op: &Value) -> String {
    let c = op["c"].as_str().unwrap();
    match op["k"].as_str().unwrap() {
        "asg" => {
            let o = op["op"].as_str().unwrap();
            let o = if o == "=" { "=".to_string() } else { format!("{o}=") };
            format!("{c} {o} {}", rhs_text(&op["rhs"]))
        }
        "deref" => format!("*{c}"),
        "render" => format!("std.convert.to_string({c})"),
        other => panic!("op kind {other}"),
    }
}

/// `x = y = n`: the program <<y = n, x = n>> of the specification written as one chained assignment
fn chain_of(ops: &[Value]) -> Option<String> {
    if ops.len() == 2 && ops.iter().all(|o| o["k"] == "asg" && o["op"] == "=") && ops[0]["rhs"] == ops[1]["rhs"] && ops[0]["rhs"]["k"] == "int" {
        return Some(format!("{} = {} = {}", ops[1]["c"].as_str().unwrap(), ops[0]["c"].as_str().unwrap(), rhs_text(&ops[0]["rhs"])));
    }
    None
}

fn prog_text(ops: &[Value]) -> String {
    let parts: Vec<String> = ops.iter().map(op_text).collect();
    if parts.len() == 1 { parts[0].clone() } else { format!("({})", parts.join(", ")) }
}

/// What one operation returned, in the specification's result shape.
fn result_json(op_kind: &str, v: &Variable, names: &Names) -> Value {
    if op_kind == "render" {
        match v {
            Variable::String(s) => json!({"k": "text", "s": &**s}),
            other => json!({"k": "val", "v": val_json(other, names)}),
        }
    } else {
        json!({"k": "val", "v": val_json(v, names)})
    }
}

/// The thread outcome of a whole program (the specification's `ThreadOutcome`).
fn thread_outcome(ops: &[Value], r: &Result<Result<Variable, simplesl::ExecError>, String>, names: &Names) -> Value {
    match r {
        Err(p) => json!([{"k": "panic", "msg": p}]),
        Ok(Err(e)) => json!([{"k": "err", "e": format!("{e:?}")}]),
        Ok(Ok(v)) => {
            if ops.len() == 1 {
                json!([result_json(ops[0]["k"].as_str().unwrap(), v, names)])
            } else {
                match v {
                    Variable::Tuple(es) if es.len() == ops.len() => Value::Array(
                        ops.iter().zip(es.iter()).map(|(o, e)| result_json(o["k"].as_str().unwrap(), e, names)).collect(),
                    ),
                    other => json!([{"k": "shape", "v": val_json(other, names)}]),
                }
            }
        }
    }
}

struct World {
    interp: Interpreter<'static>,
    cells: BTreeMap<String, Arc<Mut>>,
    names: Names,
}

/// Cells are made by the language (`mut <type> <literal>`), then inserted into a host
/// interpreter under their names, so that `Code::parse` embeds them into the parsed code.
fn make_world(types: &Map<String, Value>, stdlib: bool) -> World {
    let mut interp = if stdlib { Interpreter::with_stdlib() } else { Interpreter::without_stdlib() };
    let mut cells = BTreeMap::new();
    let mut names = Names::new();
    for (name, ty) in types {
        let text = format!("mut {} 0", ty.as_str().unwrap());
        let v = Code::parse(&Interpreter::without_stdlib(), &text).expect("mut literal").exec().expect("mut exec");
        let m = v.into_mut().expect("mut value");
        names.insert(cell_key(&m), name.clone());
        interp.insert(Arc::from(name.as_str()), Variable::Mut(m.clone()));
        cells.insert(name.clone(), m);
    }
    World { interp, cells, names }
}

fn value_of(v: &Value, w: &World) -> Variable {
    match v["k"].as_str().unwrap() {
        "int" => Variable::Int(v["v"].as_i64().unwrap()),
        "cell" => Variable::Mut(w.cells[v["c"].as_str().unwrap()].clone()),
        other => panic!("value kind {other}"),
    }
}

/// A lock poisoned by a panic of the code under test while it held the guard is data (counted
/// and reported), not a reason for the harness to fall over.
static POISONED: AtomicU64 = AtomicU64::new(0);

fn host_write(cell: &Arc<Mut>, v: Variable) {
    let mut g = cell.variable.write().unwrap_or_else(|e| {
        POISONED.fetch_add(1, Ordering::Relaxed);
        cell.variable.clear_poison();
        e.into_inner()
    });
    *g = v;
}

fn host_read(cell: &Arc<Mut>) -> Variable {
    cell.variable
        .read()
        .unwrap_or_else(|e| {
            POISONED.fetch_add(1, Ordering::Relaxed);
            cell.variable.clear_poison();
            e.into_inner()
        })
        .clone()
}

fn reset_cells(w: &World, init: &Map<String, Value>) {
    for (name, v) in init {
        host_write(&w.cells[name], value_of(v, w));
    }
}

fn final_vals(w: &World) -> Value {
    let mut m = Map::new();
    for (name, c) in &w.cells {
        let v = host_read(c);
        m.insert(name.clone(), val_json(&v, &w.names));
    }
    Value::Object(m)
}

// ------------------------------------------------------------------------------------------
// replay: spec -> impl
// ------------------------------------------------------------------------------------------

/// How a thread gets at the program: the shared `Code` itself, a shared closure over the
/// cells, or a shared function that receives the cells as arguments.
#[derive(Clone)]
enum Shared {
    Code(Arc<Code>),
    Closure(Arc<Function>),
    Params(Arc<Function>, Vec<Variable>),
}

impl Shared {
    fn run(&self) -> Result<Result<Variable, simplesl::ExecError>, String> {
        catch(|| match self {
            Shared::Code(c) => c.exec(),
            Shared::Closure(f) => f.clone().create_call(vec![]).expect("create_call").exec(),
            Shared::Params(f, args) => f.clone().create_call(args.clone()).expect("create_call").exec(),
        })
    }
}

fn build_shared(w: &World, types: &Map<String, Value>, text: &str, route: usize) -> Result<Shared, String> {
    let plain = Code::parse(&w.interp, text).map_err(|e| format!("parse error: {e} in {text}"))?;
    if route == 0 {
        return Ok(Shared::Code(Arc::new(plain)));
    }
    let ret = plain.return_type().to_string();
    if route == 1 {
        let src = format!("() -> {ret} {{ return {text} }}");
        let f = Code::parse(&w.interp, &src).map_err(|e| format!("parse error: {e} in {src}"))?
            .exec().map_err(|e| format!("exec error {e} in {src}"))?;
        return Ok(Shared::Closure(f.into_function().map_err(|_| "not a function".to_string())?));
    }
    let params: Vec<String> = types.iter().map(|(n, t)| format!("{n}: mut {}", t.as_str().unwrap())).collect();
    let src = format!("({}) -> {ret} {{ return {text} }}", params.join(", "));
    let host = Interpreter::with_stdlib();
    let f = Code::parse(&host, &src).map_err(|e| format!("parse error: {e} in {src}"))?
        .exec().map_err(|e| format!("exec error {e} in {src}"))?;
    let args = types.keys().map(|n| Variable::Mut(w.cells[n].clone())).collect();
    Ok(Shared::Params(f.into_function().map_err(|_| "not a function".to_string())?, args))
}

fn replay(args: &[String]) -> Value {
    let cases = read_ndjson(&args[0]);
    let reps: usize = args.get(1).and_then(|s| s.parse().ok()).unwrap_or(4);
    let mut rng = Rng::from_env(0xC16_0001);
    verif::set_perturb(Some(perturb_cb));
    let mut mismatches = vec![];
    let mut samples = vec![];
    let (mut runs, mut panics, mut multi, mut outcomes_seen, mut outcomes_allowed) = (0u64, 0u64, 0u64, 0u64, 0u64);
    let mut deadlock = Value::Null;
    'cases: for case in &cases {
        let types = case["types"].as_object().unwrap();
        let init = case["init"].as_object().unwrap();
        let progs: Vec<Vec<Value>> = case["progs"].as_array().unwrap().iter().map(|p| p.as_array().unwrap().clone()).collect();
        let allowed: Vec<&Value> = case["outcomes"].as_array().unwrap().iter().collect();
        let w = make_world(types, true);
        let chained = case["chained"].as_bool().unwrap_or(false);
        let texts: Vec<String> = progs.iter().map(|p| if chained { chain_of(p).unwrap_or_else(|| prog_text(p)) } else { prog_text(p) }).collect();
        let mut seen: Vec<Value> = vec![];
        for rep in 0..reps {
            let route = rep % 3;
            // identical programs share one parsed object
            let mut by_text: HashMap<&str, Shared> = HashMap::new();
            let mut shared = vec![];
            for t in &texts {
                if !by_text.contains_key(t.as_str()) {
                    match build_shared(&w, types, t, route) {
                        Ok(s) => {
                            by_text.insert(t, s);
                        }
                        Err(e) => {
                            mismatches.push(json!({"kind": "build", "case": case["id"], "config": case["config"], "route": route, "text": t, "error": e}));
                            continue 'cases;
                        }
                    }
                }
                shared.push(by_text[t.as_str()].clone());
            }
            reset_cells(&w, init);
            set_table(&mut rng, (rep % 3) as u8);
            let jobs: Vec<Box<dyn FnOnce() -> _ + Send>> =
                shared.into_iter().map(|s| Box::new(move || s.run()) as Box<dyn FnOnce() -> _ + Send>).collect();
            runs += 1;
            let Some(results) = run_threads(jobs, rng.next()) else {
                deadlock = json!({"case": case["id"], "config": case["config"], "texts": texts, "init": case["init"], "route": route});
                break 'cases;
            };
            let res: Vec<Value> = results.iter().zip(&progs).map(|(r, p)| {
                if chained && chain_of(p).is_some() {
                    // one value for the chained statement: the value of both assignments of the specification's program
                    if let Ok(Ok(v)) = r {
                        let one = result_json("asg", v, &w.names);
                        return json!([one.clone(), one]);
                    }
                }
                thread_outcome(p, r, &w.names)
            }).collect();
            panics += results.iter().filter(|r| r.is_err()).count() as u64;
            let got = json!({"val": final_vals(&w), "res": res});
            if !allowed.iter().any(|a| **a == got) {
                mismatches.push(json!({"kind": "outcome", "case": case["id"], "config": case["config"], "route": route,
                    "texts": texts, "init": case["init"], "got": got, "allowed": case["outcomes"]}));
            }
            if !seen.contains(&got) {
                seen.push(got);
            }
        }
        outcomes_seen += seen.len() as u64;
        outcomes_allowed += allowed.len() as u64;
        if seen.len() > 1 {
            multi += 1;
            if samples.len() < 3 {
                samples.push(json!({"config": case["config"], "threads": texts, "init": case["init"], "observed_outcomes": seen, "allowed": allowed.len()}));
            }
        }
    }
    set_table(&mut rng, 0);
    let mismatch_count = mismatches.len();
    mismatches.truncate(40);
    json!({"cases": cases.len(), "runs": runs, "panics": panics, "mismatch_count": mismatch_count, "cases_with_several_outcomes_observed": multi,
        "outcomes_observed": outcomes_seen, "outcomes_allowed": outcomes_allowed,
        "deadlock": deadlock, "mismatches": mismatches, "samples": samples,
        "poisoned_locks": POISONED.load(Ordering::Relaxed),
        "perturb_hits": HOOK_HITS.load(Ordering::Relaxed)})
}

// ------------------------------------------------------------------------------------------
// forced schedules: spec -> impl, one serial order at a time
// ------------------------------------------------------------------------------------------

fn forced(args: &[String]) -> Value {
    let cases = read_ndjson(&args[0]);
    let stride: usize = args.get(1).and_then(|s| s.parse().ok()).unwrap_or(1).max(1);
    verif::set_perturb(Some(perturb_cb));
    GATES_ON.store(true, Ordering::Relaxed);
    let mut mismatches = vec![];
    let (mut runs, mut orders_total) = (0u64, 0u64);
    let mut deadlock = Value::Null;
    let mut samples = vec![];
    'cases: for (ci, case) in cases.iter().enumerate() {
        if ci % stride != 0 {
            continue;
        }
        let Some(orders) = case.get("orders").and_then(Value::as_array) else { continue };
        let types = case["types"].as_object().unwrap();
        let init = case["init"].as_object().unwrap();
        let progs: Vec<Vec<Value>> = case["progs"].as_array().unwrap().iter().map(|p| p.as_array().unwrap().clone()).collect();
        let w = make_world(types, true);
        // one parsed Code per distinct operation, shared by every thread that performs it
        let mut codes: HashMap<String, Arc<Code>> = HashMap::new();
        for p in &progs {
            for o in p {
                let t = op_text(o);
                if !codes.contains_key(&t) {
                    match Code::parse(&w.interp, &t) {
                        Ok(c) => {
                            codes.insert(t, Arc::new(c));
                        }
                        Err(e) => {
                            mismatches.push(json!({"kind": "build", "case": case["id"], "text": t, "error": e.to_string()}));
                            continue 'cases;
                        }
                    }
                }
            }
        }
        for ord in orders {
            orders_total += 1;
            let order: Vec<usize> = ord["ord"].as_array().unwrap().iter().map(|x| x.as_u64().unwrap() as usize).collect();
            reset_cells(&w, init);
            {
                let mut g = TURNS.lock().unwrap();
                g.order = order.clone();
                g.pos = 0;
                g.abort = false;
            }
            let jobs: Vec<Box<dyn FnOnce() -> Vec<Result<Result<Variable, simplesl::ExecError>, String>> + Send>> = progs
                .iter()
                .map(|p| {
                    let plan: Vec<(bool, Arc<Code>)> =
                        p.iter().map(|o| (o["k"] == "asg", codes[&op_text(o)].clone())).collect();
                    Box::new(move || {
                        let me = GATE_ID.with(Cell::get);
                        let mut out = vec![];
                        for (is_asg, code) in plan {
                            if is_asg {
                                // the call starts freely (target and value are evaluated
                                // concurrently) and waits for its turn just before the lock
                                WAIT_AT_LOCK.with(|w| w.set(true));
                            } else if !wait_turn(me) {
                                break;
                            }
                            let r = catch(|| code.exec());
                            if WAIT_AT_LOCK.with(Cell::get) {
                                // the hook point was never reached: not an assignment path
                                WAIT_AT_LOCK.with(|w| w.set(false));
                                wait_turn(me);
                            }
                            let failed = !matches!(r, Ok(Ok(_)));
                            out.push(r);
                            end_turn();
                            if failed {
                                break; // a failed operation ends the program (Code::exec semantics)
                            }
                        }
                        out
                    }) as Box<dyn FnOnce() -> _ + Send>
                })
                .collect();
            runs += 1;
            let Some(results) = run_threads(jobs, 0) else {
                TURNS.lock().unwrap().abort = true;
                TURN_CV.notify_all();
                deadlock = json!({"case": case["id"], "config": case["config"], "order": order, "progs": case["progs"]});
                break 'cases;
            };
            let res: Vec<Value> = results
                .iter()
                .zip(&progs)
                .map(|(rs, p)| {
                    if let Some(bad) = rs.iter().find(|r| !matches!(r, Ok(Ok(_)))) {
                        return thread_outcome(&p[..1], bad, &w.names);
                    }
                    Value::Array(rs.iter().zip(p).map(|(r, o)| match r {
                        Ok(Ok(v)) => result_json(o["k"].as_str().unwrap(), v, &w.names),
                        _ => unreachable!(),
                    }).collect())
                })
                .collect();
            let got = json!({"val": final_vals(&w), "res": res});
            if got != ord["out"] {
                mismatches.push(json!({"kind": "forced", "case": case["id"], "config": case["config"], "order": order,
                    "progs": case["progs"], "init": case["init"], "got": got, "expected": ord["out"]}));
            } else if samples.len() < 2 && order.len() >= 3 && order[0] != 1
                && progs.iter().all(|p| p.iter().any(|o| o["k"] == "asg")) {
                samples.push(json!({"threads": progs.iter().map(|p| prog_text(p)).collect::<Vec<_>>(), "forced_order": order, "outcome": got}));
            }
        }
    }
    GATES_ON.store(false, Ordering::Relaxed);
    let mismatch_count = mismatches.len();
    mismatches.truncate(40);
    json!({"cases": cases.len(), "mismatch_count": mismatch_count, "orders": orders_total, "runs": runs, "deadlock": deadlock,
        "poisoned_locks": POISONED.load(Ordering::Relaxed), "mismatches": mismatches, "samples": samples})
}

// ------------------------------------------------------------------------------------------
// record: impl -> spec
// ------------------------------------------------------------------------------------------

#[derive(Clone)]
struct Planned {
    cell: usize,         // index into CELL_NAMES
    kind: &'static str,  // asg | deref | render
    op: &'static str,    // "" for reads
    rhs: i64,
}

const CELL_NAMES: [&str; 2] = ["c", "d"];

/// Order-independent bound on what the content of a cell can become: every growing operation
/// is dominated by b -> m*b + a (m >= 1, a >= 0) or by squaring; any order of the operations
/// stays below (M*A)^(2^S).
struct Budget {
    a: f64,
    m: f64,
    s: u32,
}

impl Budget {
    fn bound(&self) -> f64 {
        (self.m * self.a).powi(1 << self.s)
    }
    fn try_add(&mut self, m: f64, a: f64, s: u32) -> bool {
        let t = Budget { a: self.a + a, m: self.m * m, s: self.s + s };
        if t.s <= 1 && t.bound() < (1u64 << 26) as f64 {
            *self = t;
            true
        } else {
            false
        }
    }
}

fn plan_mixed(rng: &mut Rng, budget: &mut [Budget], ncells: usize) -> Planned {
    let cell = rng.below(ncells);
    let b = &mut budget[cell];
    let r = rng.below(100);
    let small = |rng: &mut Rng, lo: i64, hi: i64| lo + rng.below((hi - lo + 1) as usize) as i64;
    let p = |kind, op, rhs| Planned { cell, kind, op, rhs };
    if r < 8 {
        return p("deref", "", 0);
    }
    if r < 13 {
        return p("render", "", 0);
    }
    if r < 22 {
        // failing operands: the cell must stay as it was and the lock must be released
        return match rng.below(7) {
            0 => p("asg", "/", 0),
            1 => p("asg", "%", 0),
            2 => p("asg", "**", -1),
            3 => p("asg", "<<", 64),
            4 => p("asg", "<<", -1),
            5 => p("asg", ">>", 64),
            _ => p("asg", ">>", -3),
        };
    }
    if r < 40 {
        // never growing
        return match rng.below(4) {
            0 => {
                let v = small(rng, 1, 4);
                p("asg", "/", if rng.chance(1, 3) { -v } else { v })
            }
            1 => {
                let v = small(rng, 2, 9);
                p("asg", "%", if rng.chance(1, 3) { -v } else { v })
            }
            2 => p("asg", ">>", small(rng, 0, 3)),
            _ => p("asg", "**", 1),
        };
    }
    // growing operations, while the budget lasts
    for _ in 0..4 {
        let (op, rhs, m, a, s): (&'static str, i64, f64, f64, u32) = match rng.below(10) {
            0 | 1 => {
                let v = small(rng, -9, 9);
                ("+", v, 1.0, v.abs() as f64, 0)
            }
            2 => {
                let v = small(rng, -9, 9);
                ("-", v, 1.0, v.abs() as f64, 0)
            }
            3 => {
                let v = small(rng, -3, 3);
                ("*", v, (v.abs() as f64).max(1.0), 0.0, 0)
            }
            4 => {
                let k = small(rng, 0, 2);
                ("<<", k, (1 << k) as f64, 0.0, 0)
            }
            5 => {
                let v = small(rng, 0, 15);
                ("|", v, 2.0, 2.0 * v as f64 + 2.0, 0)
            }
            6 => {
                let v = small(rng, -8, 15);
                ("^", v, 2.0, 2.0 * v.abs() as f64 + 2.0, 0)
            }
            7 => {
                let v = small(rng, -8, 15);
                ("&", v, 2.0, 2.0 * v.abs() as f64 + 2.0, 0)
            }
            8 => {
                let v = small(rng, -20, 20);
                ("=", v, 1.0, v.abs() as f64, 0)
            }
            _ => {
                if rng.chance(1, 2) { ("**", 0, 1.0, 1.0, 0) } else { ("**", 2, 1.0, 0.0, 1) }
            }
        };
        if b.try_add(m, a, s) {
            return p("asg", op, rhs);
        }
    }
    p("asg", "%", small(rng, 2, 9))
}

struct CallRec {
    t: usize,
    plan: Planned,
    start: u64,
    end: u64,
    ret: Value,
}

struct WriteRec {
    t: usize,
    cell: String,
    op: String,
    old: Value,
    rhs: Value,
    new: Option<Value>,
    seq: u64,
}

fn norm_op(op: &str) -> String {
    if op == "=" { "=".into() } else { op.trim_end_matches('=').to_string() }
}

fn planned_op_json(p: &Planned) -> Value {
    match p.kind {
        "asg" => json!({"k": "asg", "c": CELL_NAMES[p.cell], "op": p.op, "rhs": {"k": "int", "v": p.rhs}}),
        kind => json!({"k": kind, "c": CELL_NAMES[p.cell]}),
    }
}

/// Shared, process-wide functions for the "function" route: `(x: mut int, v: int) -> int
/// { return x op= v }` etc., parsed once and used by every thread of every history.
fn op_functions() -> HashMap<String, Arc<Function>> {
    let host = Interpreter::with_stdlib();
    let mut m = HashMap::new();
    let mut add = |key: &str, src: String| {
        let f = Code::parse(&host, &src).unwrap_or_else(|e| panic!("{e}: {src}")).exec().unwrap();
        m.insert(key.to_string(), f.into_function().ok().unwrap());
    };
    for op in ["=", "+", "-", "*", "/", "%", "**", "<<", ">>", "&", "|", "^"] {
        let o = if op == "=" { "=".to_string() } else { format!("{op}=") };
        add(op, format!("(x: mut int, v: int) -> int {{ return x {o} v }}"));
    }
    add("deref", "(x: mut int) -> int { return *x }".to_string());
    add("render", "(x: mut int) -> string { return std.convert.to_string(x) }".to_string());
    m
}

struct HistoryOut {
    calls: Vec<CallRec>,
    writes: Vec<WriteRec>,
    init: Value,
    fin: Value,
}

/// Runs one history: `plans[t]` is the sequence of calls of thread t.
fn run_history(
    plans: &[Vec<Planned>],
    init: &[i64],
    route: usize,
    fns: &Arc<HashMap<String, Arc<Function>>>,
    salt: u64,
) -> Option<HistoryOut> {
    let mut types = Map::new();
    for n in CELL_NAMES {
        types.insert(n.to_string(), json!("int"));
    }
    let w = make_world(&types, true);
    for (i, n) in CELL_NAMES.iter().enumerate() {
        host_write(&w.cells[*n], Variable::Int(init[i]));
    }
    let init_json = final_vals(&w);
    // route 0: one parsed Code per distinct operation, shared by all threads
    let mut codes: HashMap<String, Arc<Code>> = HashMap::new();
    if route == 0 {
        for p in plans.iter().flatten() {
            let text = op_text(&planned_op_json(p));
            codes.entry(text.clone()).or_insert_with(|| Arc::new(Code::parse(&w.interp, &text).unwrap_or_else(|e| panic!("{e}: {text}"))));
        }
    }
    let cells: Vec<Arc<Mut>> = CELL_NAMES.iter().map(|n| w.cells[*n].clone()).collect();
    let names = Arc::new(w.names.clone());
    let jobs: Vec<Box<dyn FnOnce() -> (Vec<CallRec>, Vec<WriteRec>) + Send>> = plans
        .iter()
        .enumerate()
        .map(|(t, plan)| {
            let plan = plan.clone();
            let codes: Vec<Option<Arc<Code>>> =
                plan.iter().map(|p| codes.get(&op_text(&planned_op_json(p))).cloned()).collect();
            let cells = cells.clone();
            let names = names.clone();
            let fns = fns.clone();
            Box::new(move || {
                let buf: Rc<RefCell<Vec<WriteRec>>> = Rc::new(RefCell::new(vec![]));
                let sink_buf = buf.clone();
                let sink_names = names.clone();
                verif::set_sink(
                    Some(Box::new(move |ev| {
                        if let Event::Write { cell, op, old, rhs, new, seq } = ev {
                            sink_buf.borrow_mut().push(WriteRec {
                                t: t + 1,
                                cell: sink_names.get(&cell_key(&cell)).cloned().unwrap_or_else(|| "?".into()),
                                op: norm_op(op),
                                old: val_json(&old, &sink_names),
                                rhs: val_json(&rhs, &sink_names),
                                new: new.as_ref().map(|v| val_json(v, &sink_names)),
                                seq,
                            });
                        }
                    })),
                    false,
                );
                let mut calls = vec![];
                for (p, code) in plan.into_iter().zip(codes) {
                    let start = verif::next_seq();
                    let r = catch(|| match &code {
                        Some(c) => c.exec(),
                        None => {
                            let cell = Variable::Mut(cells[p.cell].clone());
                            let (key, args) = match p.kind {
                                "asg" => (p.op, vec![cell, Variable::Int(p.rhs)]),
                                kind => (kind, vec![cell]),
                            };
                            fns[key].clone().create_call(args).expect("create_call").exec()
                        }
                    });
                    let end = verif::next_seq();
                    let ret = match &r {
                        Err(msg) => json!({"k": "panic", "msg": msg}),
                        Ok(Err(e)) => json!({"k": "err", "e": format!("{e:?}")}),
                        Ok(Ok(v)) => result_json(p.kind, v, &names),
                    };
                    calls.push(CallRec { t: t + 1, plan: p, start, end, ret });
                }
                verif::set_sink(None, false);
                let writes = buf.borrow_mut().drain(..).collect();
                (calls, writes)
            }) as Box<dyn FnOnce() -> _ + Send>
        })
        .collect();
    let results = run_threads(jobs, salt)?;
    let mut calls = vec![];
    let mut writes = vec![];
    for (c, wr) in results {
        calls.extend(c);
        writes.extend(wr);
    }
    Some(HistoryOut { calls, writes, init: init_json, fin: final_vals(&w) })
}

fn record(args: &[String]) -> Value {
    let dir = &args[0];
    let num = |i: usize, d: usize| args.get(i).and_then(|s| s.parse().ok()).unwrap_or(d);
    let (n_small, small_t, small_k) = (num(1, 30), num(2, 4), num(3, 5));
    let (n_big, big_t, big_k) = (num(4, 6), num(5, 8), num(6, 100));
    let mut rng = Rng::from_env(0xC16_0002);
    verif::set_perturb(Some(perturb_cb));
    let fns = Arc::new(op_functions());
    let mut trace = std::io::BufWriter::new(std::fs::File::create(format!("{dir}/conc_trace.ndjson")).unwrap());
    let mut lin = std::io::BufWriter::new(std::fs::File::create(format!("{dir}/conc_lin.ndjson")).unwrap());
    let mut line_no = 0usize;
    let (mut n_calls, mut n_writes, mut n_panics, mut n_events) = (0u64, 0u64, 0u64, 0u64);
    let mut deadlock = Value::Null;
    let mut samples = vec![];
    let mut contended_histories = 0u64;
    let mut contended = 0u64; // calls whose [start, end] window overlaps another thread's call on the same cell
    let mut kinds: BTreeMap<String, u64> = BTreeMap::new();
    let total = n_small + n_big;
    let mut h = 0usize;
    while h < total {
        h += 1;
        let big = h > n_small;
        let (t_n, k_n) = if big { (big_t, big_k) } else { (2 + rng.below(small_t.max(2) - 1), 1 + rng.below(small_k.max(1))) };
        let kind = match h % 4 {
            0 => "inc",
            1 => "additive",
            2 => "mixed",
            _ => "mixed2",
        };
        let ncells = if kind == "mixed2" { 2 } else { 1 };
        let init: Vec<i64> = match kind {
            "inc" => vec![if rng.chance(1, 2) { 0 } else { rng.below(50) as i64 - 25 }, 0],
            _ => vec![rng.below(41) as i64 - 20, rng.below(41) as i64 - 20],
        };
        let mut budget: Vec<Budget> = init.iter().map(|v| Budget { a: v.abs() as f64 + 1.0, m: 1.0, s: 0 }).collect();
        let plans: Vec<Vec<Planned>> = (0..t_n)
            .map(|_| {
                (0..k_n)
                    .map(|_| match kind {
                        "inc" => Planned { cell: 0, kind: "asg", op: "+", rhs: 1 },
                        "additive" => {
                            let v = rng.below(19) as i64 - 9;
                            Planned { cell: 0, kind: "asg", op: if rng.chance(1, 2) { "+" } else { "-" }, rhs: v }
                        }
                        _ => plan_mixed(&mut rng, &mut budget, ncells),
                    })
                    .collect()
            })
            .collect();
        let route = (h / 4) % 2;
        set_table(&mut rng, if h % 3 == 0 { 1 } else { 2 });
        let Some(out) = run_history(&plans, &init, route, &fns, rng.next()) else {
            deadlock = json!({"history": h, "kind": kind, "threads": t_n, "calls_per_thread": k_n, "route": route});
            break;
        };
        *kinds.entry(kind.to_string()).or_insert(0) += 1;
        n_calls += out.calls.len() as u64;
        n_writes += out.writes.len() as u64;
        n_panics += out.calls.iter().filter(|c| c.ret["k"] == "panic").count() as u64;
        // overlap statistics (evidence that the histories are really concurrent)
        {
            let mut spans: Vec<(u64, u64, usize, usize)> = out.calls.iter().map(|c| (c.start, c.end, c.t, c.plan.cell)).collect();
            spans.sort();
            let mut active: Vec<(u64, usize, usize)> = vec![];
            let before = contended;
            for (s, e, t, cell) in spans {
                active.retain(|(ae, _, _)| *ae > s);
                if active.iter().any(|(_, at, ac)| *at != t && *ac == cell) {
                    contended += 1;
                }
                active.push((e, t, cell));
            }
            if contended > before {
                contended_histories += 1;
            }
        }
        // --- Trace_Conc input: header, then start/write/end events merged by sequence number
        let mut evs: Vec<(u64, Value)> = vec![];
        for c in &out.calls {
            let o = planned_op_json(&c.plan);
            evs.push((c.start, json!({"ev": "start", "h": h, "t": c.t, "k": c.plan.kind, "c": CELL_NAMES[c.plan.cell],
                "op": c.plan.op, "rhs": {"k": "int", "v": c.plan.rhs}, "seq": c.start})));
            evs.push((c.end, json!({"ev": "end", "h": h, "t": c.t, "ret": c.ret, "seq": c.end})));
            let _ = o;
        }
        for wr in &out.writes {
            evs.push((wr.seq, json!({"ev": "write", "h": h, "t": wr.t, "c": wr.cell, "op": wr.op, "old": wr.old, "rhs": wr.rhs,
                "new": wr.new.clone().unwrap_or(json!({"k": "none"})), "seq": wr.seq})));
        }
        evs.sort_by_key(|(s, _)| *s);
        line_no += 1;
        let header = json!({"ev": "hist", "h": h, "at": line_no, "n": evs.len() + 1, "kind": kind, "route": route,
            "threads": t_n, "init": out.init});
        writeln!(trace, "{header}").unwrap();
        for (_, e) in &evs {
            writeln!(trace, "{e}").unwrap();
            line_no += 1;
        }
        line_no += 1;
        writeln!(trace, "{}", json!({"ev": "fin", "h": h, "final": out.fin, "calls": out.calls.len()})).unwrap();
        n_events += evs.len() as u64 + 2;
        // --- Trace_ConcLin input: the calls only (nothing that comes from the hooks)
        let calls: Vec<Value> = out.calls.iter().map(|c| {
            json!({"t": c.t, "op": planned_op_json(&c.plan), "ret": c.ret, "s": c.start, "e": c.end})
        }).collect();
        writeln!(lin, "{}", json!({"h": h, "kind": kind, "search": out.calls.len() <= 40, "init": out.init, "final": out.fin, "calls": calls})).unwrap();
        if samples.len() < 2 && !big && out.calls.len() >= 4 && out.writes.len() >= 3 {
            samples.push(json!({"history": h, "kind": kind, "route": if route == 0 { "shared Code per operation" } else { "shared Function called with the cell" },
                "threads": t_n, "init": out.init, "final": out.fin,
                "calls": out.calls.iter().take(6).map(|c| json!({"t": c.t, "text": op_text(&planned_op_json(&c.plan)), "ret": c.ret, "window": [c.start, c.end]})).collect::<Vec<_>>()}));
        }
    }
    trace.flush().unwrap();
    lin.flush().unwrap();
    set_table(&mut rng, 0);
    json!({"histories": h, "events": n_events, "calls": n_calls, "writes": n_writes, "panics": n_panics,
        "poisoned_locks": POISONED.load(Ordering::Relaxed),
        "contended_calls": contended, "contended_histories": contended_histories, "kinds": kinds, "deadlock": deadlock, "samples": samples,
        "perturb_hits": HOOK_HITS.load(Ordering::Relaxed)})
}

// ------------------------------------------------------------------------------------------
// solo: one parsed Code, many threads, no shared cell
// ------------------------------------------------------------------------------------------

fn solo_corpus(rng: &mut Rng) -> Vec<String> {
    let mut v: Vec<String> = [
        // iterator machinery backed by process-wide lazily initialised helper functions
        "a := [1, 2, 3, 4, 5, 6]; a~ @ (x: int) -> int { return x * x } $]",
        "a := [1, 2, 3, 4, 5, 6]; a~ ? (x: int) -> bool { return x % 2 == 0 } $]",
        "a := [1, 2, 3, 4]; (a~ $+, a~ $*)",
        "a := [1, 2, 3, 4]; a~ @ (x: int) -> int { return x + 1 } $]",
        "a := [3, 1, 2]; a~ $ 0 (acc: int, x: int) -> int { return acc * 10 + x }",
        "a := [true, false, true]; (a~ $&&, a~ $||)",
        "a := [6, 3, 5]; (a~ $&, a~ $|)",
        "a := [1, 2, 3, 4, 5]; a~ \\ (x: int) -> bool { return x > 2 }",
        "it := [1, 2, 3]~; (it(), it(), it(), it())",
        // private cells, loops, closures
        "x := mut int 0; i := mut int 0; while *i < 50 { x += *i; i += 1; }; *x",
        "x := mut int 1; f := () -> int { return x *= 2 }; (f(), f(), f(), *x)",
        "c := mut [int] []; i := mut int 0; while *i < 5 { c += [*i]; i += 1; }; *c",
        "fib := (n: int) -> int { if n < 2 { return n } return fib(n - 1) + fib(n - 2) }; fib(12)",
        "s := mut string \"\"; i := mut int 0; while *i < 4 { s += \"ab\"; i += 1; }; *s",
        "x := mut any 0; x = x; std.convert.to_string(x)",
        "m := mut int 7; n := mut mut int m; (*n) += 1; (*m, std.convert.to_string(n))",
        "(std.len([1, 2, 3]), std.convert.to_string(12), std.convert.to_int(2.5))",
        "x := mut int 5; (x /= 2, x %= 2, x <<= 3, x >>= 1, x **= 2, x &= 12, x |= 3, x ^= 5, x -= 1, x = 9)",
        "x := mut int 5; (x += 1, x /= 0, x += 1)",
        // mutable state a run creates for itself must be created by THAT run (nothing hoisted into the parsed code):
        // the cell an exhausted `? mut int` filter yields, cells made by `mut` in functions and loops, iterator cursors
        "cs := [mut int 1]; it := cs~ ? mut int; it(); e := it().1; e += 20; *e",
        "cs := [(mut int 1, 2)]; it := cs~ ? (mut int, int); it(); e := it().1; (e.0) += 20; *(e.0)",
        "f := () -> mut int { return mut 0 }; a := f(); b := f(); a += 1; b += 10; (*a, *b)",
        "i := mut int 0; s := mut int 0; while *i < 3 { i += 1; c := mut 10; c += *i; s += *c; }; *s",
        "a := [1, 2, 3]; i := mut int 0; s := mut int 0; while *i < 2 { i += 1; s += a~ $+; }; *s",
        "mk := () -> () -> int { n := mut 0; return () -> int { return n += 1 } }; g := mk(); h := mk(); (g(), g(), h())",
    ]
    .iter()
    .map(|s| s.to_string())
    .collect();
    // seeded arithmetic on a private cell
    for _ in 0..12 {
        let init = rng.below(21) as i64 - 10;
        let mut parts = vec![];
        for _ in 0..(2 + rng.below(6)) {
            let (op, rhs) = match rng.below(8) {
                0 => ("+=", rng.below(19) as i64 - 9),
                1 => ("-=", rng.below(19) as i64 - 9),
                2 => ("*=", rng.below(7) as i64 - 3),
                3 => ("/=", rng.below(5) as i64 + 1),
                4 => ("%=", rng.below(7) as i64 + 2),
                5 => ("&=", rng.below(24) as i64 - 8),
                6 => ("|=", rng.below(16) as i64),
                _ => ("^=", rng.below(24) as i64 - 8),
            };
            parts.push(format!("x {op} {}", int_text(rhs)));
        }
        v.push(format!("x := mut int {}; ({}, *x)", int_text(init), parts.join(", ")));
    }
    v
}

fn show(r: &Result<Result<Variable, simplesl::ExecError>, String>) -> String {
    match r {
        Ok(Ok(v)) => format!("{v:?}"),
        Ok(Err(e)) => format!("ERROR {e:?}"),
        Err(p) => format!("PANIC {p}"),
    }
}

fn solo(args: &[String]) -> Value {
    let threads: usize = args.first().and_then(|s| s.parse().ok()).unwrap_or(8);
    let reps: usize = args.get(1).and_then(|s| s.parse().ok()).unwrap_or(20);
    let mut rng = Rng::from_env(0xC16_0003);
    let corpus = solo_corpus(&mut rng);
    let host = Interpreter::with_stdlib();
    let mut mismatches = vec![];
    let mut runs = 0u64;
    let mut deadlock = Value::Null;
    let mut samples = vec![];
    let mut rejected = 0u64;
    // all programs are parsed once; every thread runs every program `reps` times, starting at a
    // different program so that different programs run side by side, and the very first use of
    // the lazily initialised helpers happens concurrently
    // programs over cells the checker must REFUSE (a handle that may be one of several cells of different types is
    // assigned a value only some of them can hold); one that is accepted is run like the others: it must not panic
    let must_refuse = [
        "hits := mut int 0; ratio := mut float 0.5; for c in [hits, ratio]~ { c = 0 }; ratio += 0.25; *ratio",
        "hits := mut int 0; ratio := mut float 0.5; cs := [hits, ratio]; cs[1] = 0; ratio += 0.25; *ratio",
        "ratio := mut float 0.5; rst := (c: mut int | mut float) { c = 0 }; rst(ratio); ratio += 0.25; *ratio",
        "n := mut int 1; w := (q: mut (int|float)) { q = 2.5 }; w(n); n += 1; *n",
    ];
    let mut accepted_negatives: Vec<String> = vec![];
    for text in must_refuse {
        if let Ok(Ok(_)) = catch(|| Code::parse(&host, text)) {
            accepted_negatives.push(text.to_string());
        }
    }
    let corpus: Vec<String> = corpus.into_iter().chain(accepted_negatives.iter().cloned()).collect();
    let codes: Vec<(String, Arc<Code>)> = corpus
        .iter()
        .filter_map(|text| match catch(|| Code::parse(&host, text)) {
            Ok(Ok(c)) => Some((text.clone(), Arc::new(c))),
            Ok(Err(e)) => {
                rejected += 1;
                mismatches.push(json!({"kind": "solo-parse", "text": text, "error": e.to_string()}));
                None
            }
            Err(p) => {
                rejected += 1;
                mismatches.push(json!({"kind": "solo-parse", "text": text, "panic": p}));
                None
            }
        })
        .collect();
    let shared = Arc::new(codes);
    let jobs: Vec<Box<dyn FnOnce() -> Vec<(usize, String)> + Send>> = (0..threads)
        .map(|t| {
            let shared = shared.clone();
            Box::new(move || {
                let n = shared.len();
                let mut out = vec![];
                for r in 0..reps {
                    for i in 0..n {
                        let idx = (i + t * 3 + r) % n;
                        out.push((idx, show(&catch(|| shared[idx].1.exec()))));
                    }
                }
                out
            }) as Box<dyn FnOnce() -> _ + Send>
        })
        .collect();
    let results = run_threads(jobs, 7);
    match results {
        None => deadlock = json!({"what": "solo corpus", "threads": threads}),
        Some(results) => {
            // the sequential reference: the same parsed Code, run alone, afterwards
            let reference: Vec<String> = shared.iter().map(|(_, c)| show(&catch(|| c.exec()))).collect();
            for (t, rs) in results.iter().enumerate() {
                for (idx, got) in rs {
                    runs += 1;
                    if *got != reference[*idx] {
                        mismatches.push(json!({"kind": "solo", "text": shared[*idx].0, "thread": t + 1,
                            "concurrent": got, "sequential": reference[*idx]}));
                    } else if got.starts_with("PANIC") {
                        // a panic is never an outcome, also when the sequential run panics alike
                        mismatches.push(json!({"kind": "solo-panic", "text": shared[*idx].0, "thread": t + 1,
                            "concurrent": got, "sequential": reference[*idx]}));
                    }
                }
            }
            for (i, (text, _)) in shared.iter().enumerate().take(2) {
                samples.push(json!({"text": text, "sequential": reference[i], "concurrent_runs": threads * reps}));
            }
        }
    }
    mismatches.truncate(50);
    json!({"programs": shared.len(), "threads": threads, "runs": runs, "rejected": rejected, "deadlock": deadlock,
        "mismatches": mismatches, "samples": samples})
}

// ------------------------------------------------------------------------------------------
// render: the F17 scenario and its relatives, under the watchdog
// ------------------------------------------------------------------------------------------

fn render(args: &[String]) -> Value {
    let millis: u64 = args.first().and_then(|s| s.parse().ok()).unwrap_or(1500);
    let mut types = Map::new();
    types.insert("s".to_string(), json!("any"));
    types.insert("c".to_string(), json!("int"));
    let w = make_world(&types, true);
    // s := mut any 0; s = s   (the cell contains itself)
    Code::parse(&w.interp, "s = s").unwrap().exec().unwrap();
    let assign = Arc::new(Code::parse(&w.interp, "s = s").unwrap());
    let to_string = Arc::new(Code::parse(&w.interp, "std.convert.to_string(s)").unwrap());
    let tuple = Arc::new(Code::parse(&w.interp, "std.convert.to_string((s, c, s))").unwrap());
    let incr = Arc::new(Code::parse(&w.interp, "c += 1").unwrap());
    let cell = Variable::Mut(w.cells["s"].clone());
    let expected = "mut any mut any mut any mut any mut any mut any ..".to_string();
    let stop = Arc::new(AtomicBool::new(false));
    let mut jobs: Vec<Box<dyn FnOnce() -> (u64, Vec<String>) + Send>> = vec![];
    // two writers, three renderers (in-language, host Display, host Debug), one mixed
    for which in 0..6usize {
        let stop = stop.clone();
        let (assign, to_string, tuple, incr, cell, expected) =
            (assign.clone(), to_string.clone(), tuple.clone(), incr.clone(), cell.clone(), expected.clone());
        jobs.push(Box::new(move || {
            let mut n = 0u64;
            let mut bad = vec![];
            let t0 = Instant::now();
            while !stop.load(Ordering::Relaxed) && t0.elapsed() < Duration::from_millis(millis) {
                n += 1;
                let r = match which {
                    0 | 1 => catch(|| assign.exec().map(|_| String::new())),
                    2 => catch(|| to_string.exec().map(|v| v.to_string())),
                    3 => catch(|| Ok(format!("{cell}"))),
                    4 => catch(|| Ok(format!("{cell:?}"))),
                    _ => catch(|| {
                        incr.exec()?;
                        tuple.exec().map(|_| String::new())
                    }),
                };
                match r {
                    Ok(Ok(s)) => {
                        if (2..=4).contains(&which) && s != expected && bad.len() < 3 {
                            bad.push(format!("rendered {s:?}"));
                        }
                    }
                    Ok(Err(e)) => {
                        if bad.len() < 3 {
                            bad.push(format!("error {e:?}"));
                        }
                    }
                    Err(p) => {
                        if bad.len() < 3 {
                            bad.push(format!("panic {p}"));
                        }
                    }
                }
            }
            (n, bad)
        }));
    }
    match run_threads(jobs, 11) {
        None => json!({"deadlock": {"scenario": "s := mut any 0; s = s; threads 1-2 loop `s = s`, threads 3-5 render s, thread 6 renders (s, c, s) and increments c"},
            "mismatches": [], "iterations": 0}),
        Some(rs) => {
            let mism: Vec<Value> = rs.iter().enumerate().flat_map(|(t, (_, bad))| bad.iter().map(move |b| json!({"kind": "render", "thread": t + 1, "what": b}))).collect();
            json!({"deadlock": Value::Null, "iterations": rs.iter().map(|(n, _)| *n).sum::<u64>(),
                "per_thread": rs.iter().map(|(n, _)| *n).collect::<Vec<_>>(), "mismatches": mism, "expected": expected})
        }
    }
}

pub fn run(args: &[String]) -> Value {
    let _ = HashSet::<u8>::new();
    match args.first().map(String::as_str) {
        Some("replay") => replay(&args[1..]),
        Some("forced") => forced(&args[1..]),
        Some("record") => record(&args[1..]),
        Some("solo") => solo(&args[1..]),
        Some("render") => render(&args[1..]),
        _ => json!({"error": "usage: vh conc replay|forced|record|solo|render ..."}),
    }
}
