#![allow(dead_code)]
//! `vh` — conformance harness binding the TLA+ specifications in /verif/spec to the
//! implementation in /repo (built from the current working tree with --cfg simplesl_verif).
mod api;
mod arith;
mod codes;
mod conc;
mod eqv;
mod imports;
mod interp;
mod progen;
mod lang;
mod prec;
mod print;
mod probe;
mod render;
mod seqs;
mod statics;
mod stdlibx;
mod total;
mod types;
mod util;
mod wire;

use serde_json::Value;

fn out(v: &Value) {
    println!("{}", serde_json::to_string(v).unwrap());
}

fn main() {
    let args: Vec<String> = std::env::args().collect();
    util::silence_panics();
    let cmd: String = args.get(1).cloned().unwrap_or_default();
    // run on a big stack: the exec hook adds a frame per instruction
    let child = std::thread::Builder::new()
        .stack_size(1 << 30)
        .spawn(move || match cmd.as_str() {
            "types" => out(&types::run(&args[2], args.get(3).and_then(|s| s.parse().ok()).unwrap_or(4))),
            "arith" => out(&arith::run(&args[2..])),
            "seqs" => out(&seqs::run(&args[2..])),
            "eqv" => out(&eqv::run(&args[2..])),
            "prec" => out(&prec::run(&args[2..])),
            "print" => out(&print::run(&args[2..])),
            "conc" => out(&conc::run(&args[2..])),
            "stdlibx" => out(&stdlibx::run(&args[2..])),
            "total" => out(&total::run(&args[2..])),
            "lang" => out(&lang::run(&args[2..])),
            "gen" => out(&progen::run(&args[2..])),
            "api" => out(&api::run(&args[2..])),
            "statics" => statics::run(&args[2..]),
            "interp" => out(&interp::run_file(&args[2..])),
            "imports" => out(&imports::run(&args[2..])),
            "codes" => out(&codes::run(&args[2..])),
            "det" => {
                lang::det(&args[2..]);
            }
            "run" => {
                let text = if args[2] == "-" { std::io::read_to_string(std::io::stdin()).unwrap() } else { args[2].clone() };
                out(&probe::run_text(&text, true))
            }
            other => {
                eprintln!("unknown sub-command {other:?}");
                std::process::exit(2);
            }
        })
        .unwrap();
    if child.join().is_err() {
        eprintln!("harness thread panicked");
        std::process::exit(2);
    }
}
