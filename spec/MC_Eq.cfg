SPECIFICATION Spec
CONSTANTS
  Chunks = 16
  Thorough = FALSE
INVARIANTS
  InvEq
  InvProducers
POSTCONDITION Emit
CHECK_DEADLOCK FALSE
