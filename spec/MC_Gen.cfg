SPECIFICATION Spec
CONSTANTS
  Chunks = 8
INVARIANTS
  CellTypedUnlessStuck
POSTCONDITION Emit
CHECK_DEADLOCK FALSE
