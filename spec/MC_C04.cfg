SPECIFICATION Spec
CONSTANTS
  Chunks = 8
  SampleMod = 2
INVARIANTS
  NoStuck
  TwinsAgree
  AllowSane
POSTCONDITION Emit
CHECK_DEADLOCK FALSE
