---------------------------- MODULE MC_SyntaxWalk ----------------------------
(***************************************************************************)
(* C03, thorough tier: random walks of the grammar to depth 5 (tlc           *)
(* -simulate).  One behaviour = start, a leaf, then up to four constructor   *)
(* applications; each step wraps the AST under construction into a randomly  *)
(* chosen constructor whose other children are random leaves or              *)
(* representatives.  RandomElement makes every step a single successor, so   *)
(* a walk costs nothing to compute; every visited state is emitted.          *)
(***************************************************************************)
EXTENDS MC_Syntax

MaxDepth == 5
WPool(sort) == CASE sort = "E" -> ELeaves \cup ERepsAll
                 [] sort = "S" -> ELeaves \cup SLeaves \cup ERepsAll \cup SRepsAll
                 [] sort = "T" -> TLeaves \cup TReps
AllForms == EForms \cup TypeForms
Hosts(a) == {f \in AllForms : \E i \in 1..Len(f.sorts) : Fits(a.sort, f.sorts[i])}

\* RandomElement is evaluated once per bound variable (a LET would re-evaluate it at every use)
WalkStart ==
  /\ st.k = "start"
  /\ \E l \in {RandomElement(ELeaves \cup SLeaves \cup TLeaves \cup ERepsAll \cup SRepsAll)} :
        st' = [k |-> "ast", a |-> l]
WalkStep ==
  /\ st.k = "ast" /\ Depth(st.a) < MaxDepth /\ Hosts(st.a) # {}
  /\ \E f \in {RandomElement(Hosts(st.a))} :
     \E i \in {RandomElement({j \in 1..Len(f.sorts) : Fits(st.a.sort, f.sorts[j])})} :
     \E c1 \in {RandomElement(WPool(f.sorts[1]))} :
     \E c2 \in {RandomElement(WPool(f.sorts[IF Len(f.sorts) >= 2 THEN 2 ELSE 1]))} :
     \E c3 \in {RandomElement(WPool(f.sorts[IF Len(f.sorts) >= 3 THEN 3 ELSE 1]))} :
        st' = [k |-> "ast", a |-> Node(f, [j \in 1..Len(f.sorts) |->
                  IF j = i THEN st.a ELSE IF j = 1 THEN c1 ELSE IF j = 2 THEN c2 ELSE c3])]
WalkNext == WalkStart \/ WalkStep
WalkSpec == Init /\ [][WalkNext]_st

WalkInv == st.k = "ast" =>
  LET ts == Render(st.a) IN
  /\ WellSorted(st.a)
  /\ Depth(st.a) <= MaxDepth
  /\ Balanced(ts)
  /\ Nesting(ts) <= MaxNesting
  /\ \A i \in 1..Len(ts) : KnownTok(ts[i])
WalkEmitInv == st.k = "ast" =>
  AppendLine("syntax_walk.ndjson",
     [suite |-> "walk", form |-> IF IsLeaf(st.a) THEN "leaf" ELSE st.a.f.name, sort |-> st.a.sort,
      depth |-> Depth(st.a), ts |-> Render(st.a), expect |-> "any"])
=============================================================================
