SPECIFICATION PSpec
CONSTANTS
  Chunks = 16
  Thorough = FALSE
  Depth = 2
INVARIANTS
  PInvRoundTrip
  PInvParens
  PInvContext
  PInvMembership
  PInvCount
  PInvUnambiguous
  PInvUnambiguousPairs
  PInvUnambiguousLookAlikes
  PInvNearMisses
POSTCONDITION PEmit
CHECK_DEADLOCK FALSE
