------------------------------ MODULE MC_Static ------------------------------
(***************************************************************************)
(* Laws of the static semantics (Static.tla) against the dynamic semantics  *)
(* (Lang.tla), checked by TLC on the specification alone, over programs     *)
(* read from VERIF_IN (the cases of the Lang suites, generated programs,    *)
(* and the extra programs below):                                           *)
(*                                                                           *)
(*  (all three for accepted programs whose annotations are honest, see       *)
(*   Static!HonestAnnotations; dishonest ones are reported, tag DISHONEST)    *)
(*  TypeSound     a program accepted with type T never gets stuck, and if it *)
(*                ends with a value v then v (cells by content, arrays by    *)
(*                their hidden tag) is a member of T; every cell holds a     *)
(*                value of its declared type;                                *)
(*  Progress      the outcome of an accepted program is a value, a          *)
(*                documented error or inconclusive (fuel / range / unspec);  *)
(*  SubjectNames  every name an accepted program looks up is bound          *)
(*                (statically: Lang!WellScoped; dynamically: no              *)
(*                stuck:unbound-NAME);                                        *)
(*  NegReport     (report) deliberately ill-typed programs that are accepted *)
(*  PosReport     (report) other programs that are rejected                  *)
(*                                                                           *)
(* One state per program: the verdict is computed once, in the action that   *)
(* reaches the state, and kept in the variable `v'; the laws read it.        *)
(***************************************************************************)
EXTENDS Static, LangAst, Json, IOUtils

CONSTANT Chunks
VARIABLES row, v

Cases == ndJsonDeserialize(IOEnv.VERIF_IN)
N == Len(Cases)
Fuel == 4000

IsUnbound(s) == Len(s) >= 14 /\ SubSeq(s, 1, 14) = "stuck:unbound-"

Nil == [acc |-> FALSE]
\* r: the run of the accepted program c.prog of static type ty
Status(r) == IF r.sig = "ok" THEN "value"
             ELSE IF r.sig = "error" /\ r.v \in DocErrors THEN "error"
             ELSE IF r.sig = "error" /\ r.v \in Inconclusive THEN "inconclusive"
             ELSE "stuck"
Accepted(c, ty, r) ==
  [acc |-> TRUE, id |-> c.id, neg |-> c.negative, ty |-> Wire(ty),
   status |-> Status(r), sig |-> r.sig,
   err |-> IF r.sig = "error" THEN r.v ELSE "",
   member |-> IF r.sig = "ok" THEN MemberS(r.v, ty, r.st) ELSE TRUE,
   cells |-> IF Status(r) = "stuck" THEN TRUE ELSE CellsTyped(r.st),
   scoped |-> WellScoped(c.prog),
   unbound |-> r.sig = "error" /\ IsUnbound(r.v),
   honest |-> HonestAnnotations(c.prog)]
Verdict(c, tp) ==
  IF IsRej(tp) THEN [acc |-> FALSE, id |-> c.id, neg |-> c.negative, why |-> tp.why]
  ELSE Accepted(c, tp.t, Run(c.prog, Fuel))
Judge(i) == Verdict(Cases[i], TypeProg(Cases[i].prog))

Bad(tag) == PrintT(<<tag, ToJson(v)>>) /\ FALSE

TypeSound == (row > 0 /\ v.acc /\ v.honest) => \/ (v.status # "stuck" /\ v.member /\ v.cells)
                                   \/ Bad("TYPESOUND")
Progress == (row > 0 /\ v.acc /\ v.honest) => v.status \in {"value", "error", "inconclusive"} \/ Bad("PROGRESS")
SubjectNames == (row > 0 /\ v.acc) => (v.scoped /\ ~v.unbound) \/ Bad("SUBJECTNAMES")
NegReport == (row > 0 /\ v.acc /\ v.neg) => PrintT(<<"NEGACC", ToJson(v)>>)
PosReport == (row > 0 /\ ~v.acc /\ ~v.neg) => PrintT(<<"POSREJ", ToJson(v)>>)
HonestReport == (row > 0 /\ v.acc /\ ~v.honest) => PrintT(<<"DISHONEST", ToJson(v)>>)

Init == row = 0 /\ v = Nil
Next == \/ row = 0 /\ row' \in {-c : c \in 1..Chunks} /\ v' = Nil
        \/ row < 0 /\ \E i \in {j \in 1..N : j % Chunks = (-row) % Chunks} : row' = i /\ v' = Judge(i)
Spec == Init /\ [][Next]_<<row, v>>

Done == TLCGet("stats").distinct > 0 /\ PrintT(<<"CASES", N>>)

(***************************************************************************)
(* Extra programs owned by this module: one for every arm of TypeOf that    *)
(* the suites and the generator leave dead (coverage run), mostly the       *)
(* rejecting arms.  `MC_Static_extra.cfg' writes them to VERIF_OUT.          *)
(***************************************************************************)
H(n) == Hide(WInt, I(n))
X(name, neg, prog) == [id |-> "static-" \o name, suite |-> "static", negative |-> neg, prog |-> prog]
IdF == FnE(<<P("a", WInt)>>, WInt, <<Ret(V("a"))>>)
It12 == IterE(ArrE(<<H(1), H(2)>>))

Extra == <<
  \* accepted programs for arms nothing else reaches
  X("lit-array", FALSE, <<Lit(ArrV(TInt, <<IntV(1), IntV(2)>>))>>),
  X("lit-tuple", FALSE, <<Lit(TupV(<<IntV(1), StrV(<<97>>)>>))>>),
  X("never-index", FALSE, <<FnDecl("f", <<>>, WInt, <<Ret(At(ArrE(<<>>), H(0)))>>), I(0)>>),
  X("sum-of-union-of-iterators", FALSE,
    <<Set("it", If(Hide(WBool, B(TRUE)), IterE(ArrE(<<H(1)>>)), IterE(ArrE(<<Hide(WFloat, F(3))>>)))), RedE("$+", "int", V("it"))>>),
  X("product-of-union-of-iterators", FALSE,
    <<Set("it", If(Hide(WBool, B(TRUE)), IterE(ArrE(<<H(2)>>)), IterE(ArrE(<<Hide(WFloat, F(3))>>)))), RedE("$*", "int", V("it"))>>),
  X("sum-float", FALSE, <<RedE("$+", "float", IterE(ArrE(<<Hide(WFloat, F(3))>>)))>>),
  X("sum-string", FALSE, <<RedE("$+", "string", IterE(ArrE(<<Hide(WStr, S(<<97>>))>>)))>>),
  X("product-float", FALSE, <<RedE("$*", "float", IterE(ArrE(<<Hide(WFloat, F(3))>>)))>>),
  X("map-never-mapper", FALSE, <<FnDecl("f", <<>>, WVoid, <<Set("m", MapE(It12, At(ArrE(<<>>), H(0))))>>), I(0)>>),
  X("compound-on-array-cell", FALSE, <<Set("c", MutE(WArr(WInt), ArrE(<<I(1)>>))), Asg("+=", V("c"), ArrE(<<H(2)>>)), Deref(V("c"))>>),
  X("union-of-cells", FALSE,
    <<Set("a", MutE(WInt, I(1))), Set("b", MutE(WMulti(<<WInt, WFloat>>), I(2))), Set("c", If(Hide(WBool, B(TRUE)), V("a"), V("b"))),
      Asg("=", V("c"), H(5)), Deref(V("c"))>>),
  X("call-union-of-functions", FALSE,
    <<Set("f", If(Hide(WBool, B(TRUE)), IdF, FnE(<<P("a", WMulti(<<WInt, WFloat>>))>>, WFloat, <<Ret(F(3))>>))), CallE(V("f"), <<H(1)>>)>>),
  X("while-set-break-in-test", FALSE,
    <<WhileSet("x", WInt, Field(ModE(<<Set("q", H(1)), If1(Hide(WBool, B(TRUE)), Break)>>), "q"), Block(<<Break>>)), I(0)>>),
  X("destruct-union-same-length", FALSE,
    <<Destruct(<<"a", "b">>, If(Hide(WBool, B(TRUE)), TupE(<<H(1), H(2)>>), TupE(<<Hide(WFloat, F(3)), Hide(WStr, S(<<97>>))>>))), TupE(<<V("a"), V("b")>>)>>),
  X("struct-duplicate-field", FALSE, <<Field(StructE(<<<<"a", H(1)>>, <<"a", Hide(WStr, S(<<97>>))>>>>), "a")>>),
  X("params-duplicate-name", FALSE,
    <<Set("f", FnE(<<P("a", WInt), P("a", WStr)>>, WStr, <<Ret(V("a"))>>)), CallE(V("f"), <<H(1), Hide(WStr, S(<<97>>))>>)>>),
  X("return-nothing-in-int-or-void-fn", FALSE,
    <<FnDecl("f", <<>>, WMulti(<<WInt, WVoid>>), <<If1(Hide(WBool, B(TRUE)), Ret0)>>), CallE(V("f"), <<>>)>>),
  X("nested-return-types", FALSE,
    <<FnDecl("f", <<>>, WStr, <<Set("g", FnE(<<>>, WInt, <<Ret(I(1))>>)), If1(Bin("==", CallE(V("g"), <<>>), I(2)), Ret(S(<<98>>))), Ret(S(<<97>>))>>), CallE(V("f"), <<>>)>>),
  X("recursion-declared", FALSE,
    <<FnDecl("f", <<P("n", WInt)>>, WInt, <<If1(Bin("<", V("n"), I(1)), Ret(I(0))), Ret(CallE(V("f"), <<Bin("-", V("n"), I(1))>>))>>), CallE(V("f"), <<H(2)>>)>>),
  X("never-typed-call-ends-a-body", FALSE,
    <<FnDecl("f", <<>>, WNever, <<Ret(CallE(V("f"), <<>>))>>), FnDecl("g", <<>>, WInt, <<CallE(V("f"), <<>>)>>), I(0)>>),
  X("rej-return-nothing-in-int-fn", TRUE, <<FnDecl("f", <<>>, WInt, <<Ret0>>), I(0)>>),
  \* named difference D8: the text of both is a function DECLARATION (the body sees f itself)
  X("named-D8-literal-mentions-its-name", TRUE, <<Set("f", FnE(<<>>, WInt, <<Ret(CallE(V("f"), <<>>))>>)), I(0)>>),
  X("named-D8-literal-mentions-outer-name", FALSE, <<Set("f", H(1)), Set("f", FnE(<<>>, WInt, <<Ret(V("f"))>>)), CallE(V("f"), <<>>)>>),
  \* witnesses of the named differences D1, D2, D5 (Static.tla): the implementation is more precise after folding
  X("named-D1-if-folding", FALSE, <<If(B(TRUE), Block(<<I(1)>>), Block(<<S(<<97>>)>>))>>),
  X("named-D2-at-folding", FALSE, <<At(ArrE(<<I(1), S(<<97>>)>>), I(0))>>),
  X("named-D5-post-fold-name", TRUE, <<Set("x", If(B(TRUE), Block(<<I(1)>>), Block(<<S(<<97>>)>>))), Bin("+", V("x"), I(1))>>),
  X("named-D5-constant-name", TRUE, <<Set("x", At(ArrE(<<I(1), S(<<97>>)>>), I(0))), FnDecl("f", <<>>, WInt, <<Ret(Bin("+", V("x"), I(1)))>>), CallE(V("f"), <<>>)>>),
  X("named-D4-folding-error", FALSE, <<Bin("/", I(1), I(0))>>),
  \* rejected programs, one per error class
  X("rej-unbound", TRUE, <<V("nope")>>),
  X("rej-lit-ok-then-destruct-non-tuple", TRUE, <<Destruct(<<"a", "b">>, H(1))>>),
  X("rej-destruct-lengths-differ", TRUE,
    <<Destruct(<<"a", "b">>, If(Hide(WBool, B(TRUE)), TupE(<<H(1), H(2)>>), TupE(<<H(1), H(2), H(3)>>)))>>),
  X("rej-destruct-wrong-length", TRUE, <<Destruct(<<"a", "b">>, TupE(<<H(1), H(2), H(3)>>))>>),
  X("rej-missing-return", TRUE, <<FnDecl("f", <<>>, WInt, <<If1(Hide(WBool, B(TRUE)), Ret(I(1)))>>), I(0)>>),
  X("rej-missing-return-loop", TRUE, <<FnDecl("f", <<>>, WInt, <<Loop(Block(<<Ret(I(1))>>))>>), I(0)>>),
  X("rej-missing-return-literal", TRUE, <<Set("f", FnE(<<>>, WInt, <<H(1)>>)), I(0)>>),
  X("rej-wrong-return", TRUE, <<FnDecl("f", <<>>, WInt, <<Ret(S(<<97>>))>>), I(0)>>),
  X("rej-return-outside", TRUE, <<Ret(I(1))>>),
  X("rej-return-outside-block", TRUE, <<Block(<<Ret0>>)>>),
  X("rej-break-outside", TRUE, <<Break>>),
  X("rej-continue-outside", TRUE, <<If1(Hide(WBool, B(TRUE)), ContinueS)>>),
  X("rej-break-in-function-in-loop", TRUE, <<Loop(Block(<<Set("f", FnE(<<>>, WVoid, <<Break>>)), Break>>))>>),
  X("rej-rep-length", TRUE, <<RepE(I(1), Hide(WFloat, F(2)))>>),
  X("rej-field-of-non-struct", TRUE, <<Field(H(1), "a")>>),
  X("rej-no-field", TRUE, <<Field(StructE(<<<<"a", H(1)>>>>), "b")>>),
  X("rej-tupat-non-tuple", TRUE, <<TupAt(H(1), 0)>>),
  X("rej-tupat-too-big", TRUE, <<TupAt(TupE(<<H(1), H(2)>>), 2)>>),
  X("rej-index-with-float", TRUE, <<At(ArrE(<<H(1)>>), Hide(WFloat, F(2)))>>),
  X("rej-index-into-int", TRUE, <<At(H(1), H(0))>>),
  X("rej-slice-int", TRUE, <<Slice(H(1), H(0), NoneV, NoneV)>>),
  X("rej-slice-bound", TRUE, <<Slice(ArrE(<<H(1)>>), NoneV, Hide(WStr, S(<<97>>)), NoneV)>>),
  X("rej-neg-string", TRUE, <<NegE(Hide(WStr, S(<<97>>)))>>),
  X("rej-not-float", TRUE, <<NotE(Hide(WFloat, F(2)))>>),
  X("rej-deref-int", TRUE, <<Deref(H(1))>>),
  X("rej-add-int-float", TRUE, <<Bin("+", H(1), Hide(WFloat, F(2)))>>),
  X("rej-and-int", TRUE, <<AndE(H(1), Hide(WBool, B(TRUE)))>>),
  X("rej-mut-init", TRUE, <<MutE(WInt, Hide(WFloat, F(2)))>>),
  X("rej-assign-non-cell", TRUE, <<Set("x", H(1)), Asg("=", V("x"), H(2))>>),
  X("rej-assign-wrong-type", TRUE, <<Set("c", MutE(WInt, I(1))), Asg("=", V("c"), Hide(WFloat, F(2)))>>),
  X("rej-compound-wrong-type", TRUE, <<Set("c", MutE(WInt, I(1))), Asg("+=", V("c"), Hide(WFloat, F(2)))>>),
  X("rej-compound-result-not-storable", TRUE,
    <<Set("c", MutE(WArr(WInt), ArrE(<<I(1)>>))), Asg("+=", V("c"), ArrE(<<Hide(WFloat, F(2))>>))>>),
  X("rej-if-condition", TRUE, <<If1(H(1), Block(<<I(0)>>))>>),
  X("rej-while-condition", TRUE, <<While(H(1), Block(<<Break>>))>>),
  X("rej-match-not-covered", TRUE,
    <<Set("s", If(Hide(WBool, B(TRUE)), H(1), Hide(WStr, S(<<97>>)))), Match(V("s"), <<ArmTy("x", WInt, Block(<<I(0)>>))>>)>>),
  X("rej-match-value-arm-only", TRUE, <<Match(H(1), <<ArmVal(<<I(1)>>, Block(<<I(0)>>))>>)>>),
  X("rej-match-arm-value-ill-typed", TRUE, <<Match(H(1), <<ArmVal(<<V("nope")>>, Block(<<I(0)>>)), ArmOther(Block(<<I(0)>>))>>)>>),
  X("rej-for-non-iterator", TRUE, <<For("e", ArrE(<<H(1)>>), Block(<<I(0)>>))>>),
  X("rej-call-non-function", TRUE, <<CallE(H(1), <<>>)>>),
  X("rej-call-arity", TRUE, <<Set("f", IdF), CallE(V("f"), <<H(1), H(2)>>)>>),
  X("rej-call-argument", TRUE, <<Set("f", IdF), CallE(V("f"), <<Hide(WFloat, F(2))>>)>>),
  X("rej-call-params-undetermined", TRUE,
    <<Set("f", If(Hide(WBool, B(TRUE)), IdF, FnE(<<>>, WInt, <<Ret(I(1))>>))), CallE(V("f"), <<H(1)>>)>>),
  X("rej-iter-of-int", TRUE, <<IterE(H(1))>>),
  X("rej-map-non-iterator", TRUE, <<MapE(ArrE(<<H(1)>>), IdF)>>),
  X("rej-map-wrong-function", TRUE, <<MapE(It12, FnE(<<P("a", WStr)>>, WInt, <<Ret(I(1))>>))>>),
  X("rej-filter-not-a-predicate", TRUE, <<FilterE(It12, IdF)>>),
  X("rej-partition-not-a-predicate", TRUE, <<PartE(It12, IdF)>>),
  X("rej-tfilter-non-iterator", TRUE, <<TFilterE(ArrE(<<H(1)>>), WInt)>>),
  X("rej-collect-non-iterator", TRUE, <<CollectE(ArrE(<<H(1)>>))>>),
  X("rej-reduce-non-iterator", TRUE, <<ReduceE(ArrE(<<H(1)>>), I(0), IdF)>>),
  X("rej-reduce-non-function", TRUE, <<ReduceE(It12, I(0), H(5))>>),
  X("rej-reduce-wrong-function", TRUE, <<ReduceE(It12, Hide(WFloat, F(2)), FnE(<<P("a", WInt), P("b", WInt)>>, WInt, <<Ret(V("a"))>>))>>),
  X("rej-sum-of-bools", TRUE, <<RedE("$+", "int", IterE(ArrE(<<Hide(WBool, B(TRUE))>>)))>>),
  X("rej-product-of-strings", TRUE, <<RedE("$*", "int", IterE(ArrE(<<Hide(WStr, S(<<97>>))>>)))>>),
  X("rej-bitand-of-floats", TRUE, <<RedE("$&", "int", IterE(ArrE(<<Hide(WFloat, F(2))>>)))>>),
  X("rej-all-of-ints", TRUE, <<RedE("$&&", "int", It12)>>),
  X("rej-hide-argument", TRUE, <<Hide(WInt, Hide(WFloat, F(2)))>>),
  X("rej-block-inner", TRUE, <<Block(<<Set("x", H(1)), V("y")>>)>>),
  X("rej-module-inner", TRUE, <<Set("m", ModE(<<Set("x", V("y"))>>))>>),
  X("rej-tuple-element", TRUE, <<TupE(<<H(1), V("nope")>>)>>),
  X("rej-name-out-of-scope", TRUE, <<Block(<<Set("x", H(1))>>), V("x")>>),
  X("rej-ifset-name-in-else", TRUE, <<IfSet("x", WInt, H(1), Block(<<V("x")>>), Block(<<V("x")>>))>>),
  X("rej-for-name-after-loop", TRUE, <<For("e", It12, Block(<<I(0)>>)), V("e")>>)
>>

(***************************************************************************)
(* The operator / operand-type grid: every binary operator, assignment      *)
(* operator, prefix / postfix operator, reducer and typed construct applied  *)
(* to operands of a universe of static types (each operand is a hidden,      *)
(* i.e. non-constant, value of exactly that type).  The grid makes the      *)
(* conformance step compare the checker's can_be_used / return_type tables  *)
(* with BinOk / BinType / AsgType / RedType / the queries exhaustively.      *)
(* `negative' is what this specification says (no prior label).             *)
(***************************************************************************)
CONSTANT GridLevel        \* 0: none, 1: reduced operand universe (quick), 2: full
WIF == WMulti(<<WInt, WFloat>>)
TupIS == WTup(<<WInt, WStr>>)
StA == WStruct(<<<<"a", WInt>>>>)
StAB == WStruct(<<<<"a", WFloat>>, <<"b", WInt>>>>)
A1 == ArrE(<<I(1)>>)
Universe == <<
  Hide(WInt, I(2)),                                        \*  1 int
  Hide(WFloat, F(3)),                                      \*  2 float
  Hide(WBool, B(TRUE)),                                    \*  3 bool
  Hide(WStr, S(<<97>>)),                                   \*  4 string
  Hide(WArr(WInt), A1),                                    \*  5 [int]
  Hide(WIF, I(2)),                                         \*  6 int|float
  At(ArrE(<<>>), H(0)),                                    \*  7 !
  Hide(WMut(WInt), MutE(WInt, I(1))),                      \*  8 mut int
  Hide(WIter(WInt), IterE(A1)),                            \*  9 () -> (bool, int)
  Hide(WAny, I(2)),                                        \* 10 any
  Hide(WArr(WNever), ArrE(<<>>)),                          \* 11 []
  Hide(WTup(<<WInt, WStr>>), TupE(<<I(1), S(<<97>>)>>)),   \* 12 (int, string)
  \* ---- full universe only
  Hide(WVoid, Unit),                                       \* 13 ()
  Hide(WArr(WFloat), ArrE(<<F(3)>>)),                      \* 14 [float]
  Hide(WArr(WIF), A1),                                     \* 15 [int|float]
  Hide(WMulti(<<TupIS, WTup(<<WFloat, WStr, WInt>>)>>), TupE(<<I(1), S(<<97>>)>>)),   \* 16 union of tuples
  Hide(StA, StructE(<<<<"a", I(1)>>>>)),                   \* 17 struct{a: int}
  Hide(WMulti(<<StA, StAB>>), StructE(<<<<"a", I(1)>>>>)), \* 18 union of structs
  Hide(WMut(WIF), MutE(WIF, I(1))),                        \* 19 mut (int|float)
  Hide(WMut(WArr(WInt)), MutE(WArr(WInt), A1)),            \* 20 mut [int]
  Hide(WMulti(<<WMut(WInt), WMut(WIF)>>), MutE(WInt, I(1))),   \* 21 mut int | mut (int|float)
  Hide(WFn(<<WInt>>, WInt), IdF),                          \* 22 (int) -> int
  Hide(WIter(WFloat), IterE(ArrE(<<F(3)>>))),              \* 23 () -> (bool, float)
  Hide(WIter(WBool), IterE(ArrE(<<B(TRUE)>>))),            \* 24 () -> (bool, bool)
  Hide(WIter(WStr), IterE(ArrE(<<S(<<97>>)>>))),           \* 25 () -> (bool, string)
  Hide(WMulti(<<WIter(WInt), WIter(WFloat)>>), IterE(A1)), \* 26 union of iterators
  Hide(WMulti(<<WArr(WInt), WStr>>), A1),                  \* 27 [int]|string
  Hide(WMulti(<<WFn(<<WInt>>, WInt), WFn(<<WIF>>, WFloat)>>), IdF)   \* 28 union of functions
>>
NU == IF GridLevel = 2 THEN Len(Universe) ELSE 12
Un(i) == Universe[i]

BinOpSeq == <<"+", "-", "*", "/", "**", "%", "<<", ">>", "<", "<=", ">", ">=", "==", "!=", "&", "|", "^", "&&", "||">>
AsgOpSeq == <<"=", "+=", "-=", "*=", "/=", "%=", "**=", "<<=", ">>=", "&=", "|=", "^=">>
AsgTargets == IF GridLevel = 2 THEN <<8, 19, 20, 21, 1, 5>> ELSE <<8, 1>>
G(name, prog) == [id |-> "grid-" \o name, suite |-> "grid", negative |-> ~Accepts(prog), prog |-> prog]

BinNode(op, a, b) == IF op = "&&" THEN AndE(a, b) ELSE IF op = "||" THEN OrE(a, b) ELSE Bin(op, a, b)
GridBin == [n \in 1..(Len(BinOpSeq) * NU * NU) |->
              LET o == (n - 1) \div (NU * NU) + 1
                  a == (((n - 1) \div NU) % NU) + 1
                  b == ((n - 1) % NU) + 1
              IN G("bin" \o BinOpSeq[o] \o ToString(a) \o "," \o ToString(b), <<BinNode(BinOpSeq[o], Un(a), Un(b))>>)]
GridAsg == [n \in 1..(Len(AsgOpSeq) * Len(AsgTargets) * NU) |->
              LET o == (n - 1) \div (Len(AsgTargets) * NU) + 1
                  a == AsgTargets[(((n - 1) \div NU) % Len(AsgTargets)) + 1]
                  b == ((n - 1) % NU) + 1
              IN G("asg" \o AsgOpSeq[o] \o ToString(a) \o "," \o ToString(b), <<Asg(AsgOpSeq[o], Un(a), Un(b))>>)]

\* one-operand forms.  Two AST fields restate static facts for the evaluator (Lang.tla) and must be honest:
\* the cell type of the untyped `mut a' and the element kind of `$+' / `$*' (which zero the fold starts from)
Flt == Hide(WFloat, F(3))
TyOf(a) == LET t == TypeProg(<<a>>) IN IF IsRej(t) THEN WAny ELSE Wire(t.t)
EkOf(op, a) == LET t == TypeProg(<<RedE(op, "int", a)>>) IN
               IF IsRej(t) THEN "int" ELSE IF t.t = TString THEN "string" ELSE IF t.t = TFloat THEN "float" ELSE "int"
Forms(a) == <<
  <<"neg", <<NegE(a)>>>>, <<"not", <<NotE(a)>>>>, <<"deref", <<Deref(a)>>>>, <<"iter", <<IterE(a)>>>>,
  <<"collect", <<CollectE(a)>>>>, <<"sum", <<RedE("$+", EkOf("$+", a), a)>>>>, <<"product", <<RedE("$*", EkOf("$*", a), a)>>>>,
  <<"bitand", <<RedE("$&", "int", a)>>>>, <<"bitor", <<RedE("$|", "int", a)>>>>,
  <<"all", <<RedE("$&&", "int", a)>>>>, <<"anyof", <<RedE("$||", "int", a)>>>>,
  <<"tfilter", <<TFilterE(a, WInt)>>>>, <<"tupat0", <<TupAt(a, 0)>>>>, <<"tupat1", <<TupAt(a, 1)>>>>, <<"tupat2", <<TupAt(a, 2)>>>>,
  <<"field-a", <<Field(a, "a")>>>>, <<"field-b", <<Field(a, "b")>>>>,
  <<"at", <<At(a, H(0))>>>>, <<"index-of", <<At(A1, a)>>>>,
  <<"slice-from", <<Slice(a, H(0), NoneV, NoneV)>>>>, <<"slice-all", <<Slice(a, NoneV, NoneV, NoneV)>>>>,
  <<"slice-bound", <<Slice(A1, NoneV, a, NoneV)>>>>, <<"slice-step", <<Slice(A1, NoneV, NoneV, a)>>>>,
  <<"call0", <<CallE(a, <<>>)>>>>, <<"call-int", <<CallE(a, <<H(1)>>)>>>>, <<"call-float", <<CallE(a, <<Flt>>)>>>>,
  <<"arg-of-int-fn", <<CallE(IdF, <<a>>)>>>>,
  <<"rep-value", <<RepE(a, H(1))>>>>, <<"rep-length", <<RepE(H(1), a)>>>>,
  <<"destruct2", <<Destruct(<<"p", "q">>, a), V("p")>>>>,
  <<"for", <<For("x", a, Block(<<V("x")>>))>>>>,
  <<"for-elem-plus-1", <<For("x", a, Block(<<Bin("+", V("x"), I(1))>>))>>>>,
  <<"ifset-int", <<IfSet("x", WInt, a, Block(<<Bin("+", V("x"), I(1))>>), NoneV)>>>>,
  <<"match-int-float-string", <<Match(a, <<ArmTy("x", WInt, Block(<<I(0)>>)), ArmTy("y", WMulti(<<WFloat, WStr>>), Block(<<S(<<98>>)>>))>>)>>>>,
  <<"match-array-other", <<Match(a, <<ArmTy("x", WArr(WAny), Block(<<V("x")>>)), ArmVal(<<I(2), a>>, Block(<<Unit>>)), ArmOther(Block(<<I(0)>>))>>)>>>>,
  <<"if", <<If1(a, Block(<<I(0)>>))>>>>, <<"if-else-value", <<If(Hide(WBool, B(TRUE)), Block(<<a>>), Block(<<I(0)>>))>>>>,
  <<"while", <<While(a, Block(<<Break>>))>>>>,
  <<"whileset", <<WhileSet("x", WInt, a, Block(<<Break>>))>>>>,
  <<"mut-int", <<MutE(WInt, a)>>>>, <<"mut-int-float", <<MutE(WIF, a)>>>>, <<"mut-any", <<MutE(WAny, a)>>>>, <<"mut-untyped", <<MutU(TyOf(a), a)>>>>,
  <<"return-int", <<Set("f", FnE(<<>>, WInt, <<Ret(a)>>)), I(0)>>>>,
  <<"return-int-float", <<Set("f", FnE(<<>>, WIF, <<Ret(a)>>)), I(0)>>>>,
  <<"return-void", <<Set("f", FnE(<<>>, WVoid, <<Ret(a)>>)), I(0)>>>>,
  <<"last-statement-of-int-fn", <<Set("f", FnE(<<>>, WInt, <<a>>)), I(0)>>>>,
  <<"hide-as-int-float", <<Hide(WIF, a)>>>>, <<"hide-as-any", <<Hide(WAny, a)>>>>,
  <<"array-with-int", <<ArrE(<<a, H(1)>>)>>>>, <<"tuple-with-int", <<TupE(<<a, H(1)>>)>>>>,
  <<"struct-field", <<Field(StructE(<<<<"a", a>>>>), "a")>>>>,
  <<"map-with", <<MapE(IterE(A1), a)>>>>, <<"filter-with", <<FilterE(IterE(A1), a)>>>>,
  <<"map-over", <<MapE(a, IdF)>>>>,
  <<"filter-over", <<FilterE(a, FnE(<<P("q", WInt)>>, WBool, <<Ret(B(TRUE))>>))>>>>,
  <<"part-over-any-pred", <<PartE(a, FnE(<<P("q", WAny)>>, WBool, <<Ret(B(TRUE))>>))>>>>,
  <<"reduce-over", <<ReduceE(a, I(0), FnE(<<P("p", WInt), P("q", WInt)>>, WInt, <<Ret(V("p"))>>))>>>>,
  <<"reduce-init", <<ReduceE(IterE(A1), a, FnE(<<P("p", WAny), P("q", WInt)>>, WInt, <<Ret(V("q"))>>))>>>>,
  <<"reduce-with", <<ReduceE(IterE(A1), I(0), a)>>>>
>>
NForms == Len(Forms(I(0)))
NUnary == Len(Universe)          \* one-operand forms always use the full universe (cheap)
GridForms == [n \in 1..(NForms * NUnary) |->
                LET f == (n - 1) \div NUnary + 1
                    a == ((n - 1) % NUnary) + 1
                    fm == Forms(Un(a))[f]
                IN G(fm[1] \o "/" \o ToString(a), fm[2])]

Grid == IF GridLevel = 0 THEN <<>> ELSE GridBin \o GridAsg \o GridForms

EmitExtra ==
  /\ TLCGet("stats").distinct > 0
  /\ ndJsonSerialize(IOEnv.VERIF_OUT \o "/static_extra.ndjson", Extra)
  /\ ndJsonSerialize(IOEnv.VERIF_OUT \o "/static_grid.ndjson", Grid)
  /\ PrintT(<<"EXTRA", Len(Extra), "GRID", Len(Grid)>>)
InitE == row = 0 /\ v = Nil
NextE == FALSE /\ UNCHANGED <<row, v>>
SpecE == InitE /\ [][NextE]_<<row, v>>
=============================================================================
