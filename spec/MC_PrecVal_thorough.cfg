SPECIFICATION Spec
CONSTANTS
  Chunks = 8
  TriplePermille = 60
  MaxTried = 1500
INVARIANTS
  InvShape
  InvDiscriminates
  InvIdioms
  InvRejected
  InvEvalAgrees
POSTCONDITION Emit
CHECK_DEADLOCK FALSE
