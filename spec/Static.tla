------------------------------- MODULE Static -------------------------------
(***************************************************************************)
(* The static semantics of SimpleSL: a typing judgement over the AST wire   *)
(* format of Lang.tla / LangAst.tla.                                        *)
(*                                                                           *)
(*   TypeOf(e, cx)     a type of Types.tla, or [k |-> "reject", why |-> c]   *)
(*   TypeStmts(ss, cx) statement lists thread the environment:               *)
(*                     [k |-> "ok", t, env, nev] or a reject record          *)
(*   TypeProg(prog)    a whole program (the log cell `log' pre-bound)        *)
(*                                                                           *)
(*   cx = [env  |-> sequence of [n |-> name, t |-> type], last binding wins, *)
(*         ret  |-> declared result type of the enclosing function / NoneV,  *)
(*         loop |-> inside a loop of the same function]                      *)
(*                                                                           *)
(* The rules transcribe what the implementation's checker does when an      *)
(* instruction is CREATED (create_instruction / create of every instruction  *)
(* kind, and its return_type): the queries on unions are those of Types.tla *)
(* (QElementType ... = Type::element_type ..., law FoldsAgree of C10/C05).   *)
(*                                                                           *)
(* RELATION to the implementation.  The implementation types a statement    *)
(* once when it creates it and, at the top level of a program, a second     *)
(* time after constant folding (Code::parse: create, then recreate); names  *)
(* are registered with what is known after folding.  This judgement has no  *)
(* folding pass.  The relation is                                            *)
(*                                                                           *)
(*     accepted by both  =>  Matches(type of the implementation, TypeOf)    *)
(*                                                                           *)
(* (the implementation is at least as precise), equality whenever none of   *)
(* the named differences below is involved, and                              *)
(*                                                                           *)
(*     accepted by the implementation  <=>  accepted here                    *)
(*                                                                           *)
(* for programs whose acceptance does not hinge on a named difference.      *)
(*                                                                           *)
(* NAMED DIFFERENCES (the judgement is wider, never narrower):               *)
(*  D1 if-folding      `if <constant condition>' keeps one branch after     *)
(*                     folding (IfElse::recreate); here: Join of both.       *)
(*  D2 at-folding      indexing a constant array with a constant index      *)
(*                     yields the element's exact type; here: the element    *)
(*                     type of the array (a union for `[1, "a"][0]').        *)
(*  D3 and/or-folding  `true && e', `false || e' become e (same type bool;   *)
(*                     listed for completeness).                             *)
(*  D4 folding errors  a constant sub-expression that fails while being     *)
(*                     folded (1/0, [1][5], 1 << 64, [0; -1]) is reported by *)
(*                     the checker with the class of the run-time error;    *)
(*                     here such a program is well typed (the conformance   *)
(*                     step counts these apart, class "fold-error").         *)
(*  D5 post-fold names a top-level name bound to an expression that folds   *)
(*                     to a constant has the constant's exact type for the  *)
(*                     statements that follow (D1/D2 propagate through it); *)
(*                     here: the unfolded type.                              *)
(*  D6 `mut e'         the cell type of the untyped form is the static type *)
(*                     of e; here TypeOf(e) (wider under D1/D2); the AST's   *)
(*                     stated `ty' is not consulted.                         *)
(*  D7 while-set scope the implementation checks the tested expression of   *)
(*                     `while x: T = e' with the loop flag already set      *)
(*                     (a `break' nested in e is accepted); transcribed.     *)
(*  D8 dropped constants  a bare constant in non-last statement position is *)
(*                     dropped by the parser; no effect on typing.           *)
(***************************************************************************)
EXTENDS Lang

Rej(why) == [k |-> "reject", why |-> why]
IsRej(x) == x.k = "reject"
IsNever(t) == t.k = "never"

Cx(env, ret, loop) == [env |-> env, ret |-> ret, loop |-> loop]
BindT(env, name, t) == Append(env, [n |-> name, t |-> t])
LookupT(env, name) ==
  LET is == {i \in 1..Len(env) : env[i].n = name} IN
  IF is = {} THEN NoneV ELSE env[Max(is)].t

LogType == MutT(Arr(TInt))
InitTEnv == <<[n |-> "log", t |-> LogType]>>

(***************************************************************************)
(* Operator tables (bin_op.rs: can_be_used / return_type)                    *)
(***************************************************************************)
Pair(a, b) == Tup(<<a, b>>)
IntPairs == Pair(TInt, TInt)
NumPairs == Multi({Pair(TInt, TInt), Pair(TFloat, TFloat)})
AddPairs == Multi({Pair(TInt, TInt), Pair(TFloat, TFloat), Pair(TString, TString), Pair(Arr(TAny), Arr(TAny))})
BitPairs == Multi({Pair(TInt, TInt), Pair(TBool, TBool)})

ArithOps == {"-", "*", "/", "**"}
OrdOps == {"<", "<=", ">", ">="}
IntOps == {"%", "<<", ">>"}
EqOps == {"==", "!="}
BitOps == {"&", "|", "^"}

BinOk(op, l, r) ==
  CASE op = "+"         -> Matches(Pair(l, r), AddPairs)
    [] op \in ArithOps  -> Matches(Pair(l, r), NumPairs)
    [] op \in OrdOps    -> Matches(Pair(l, r), NumPairs)
    [] op \in IntOps    -> Matches(Pair(l, r), IntPairs)
    [] op \in EqOps     -> TRUE
    [] op \in BitOps    -> Matches(Pair(l, r), BitPairs)
    [] OTHER            -> FALSE

\* add::return_type
AddType(l, r) ==
  LET le == QElementType(l) IN
  IF IsNone(le) THEN l
  ELSE LET re == QElementType(r) IN Arr(Join(le, IF IsNone(re) THEN TNever ELSE re))

BinType(op, l, r) ==
  CASE op = "+"         -> AddType(l, r)
    [] op \in ArithOps  -> l
    [] op \in OrdOps    -> TBool
    [] op \in IntOps    -> TInt
    [] op \in EqOps     -> TBool
    [] op \in BitOps    -> l
    [] OTHER            -> TNever

\* assign.rs: the cell's content type, the operator applied to it, and whether every cell the target may be can
\* store the result
CanStore(lt, res) == \A m \in Members(lt) : m.k = "mut" /\ Matches(res, m.e)
AsgOps == {"=", "+=", "-=", "*=", "/=", "%=", "**=", "<<=", ">>=", "&=", "|=", "^="}
AsgType(op, lt, rt) ==
  LET ve == QMutElementType(lt) IN
  IF op \notin AsgOps THEN Rej("unknown-operator")
  ELSE IF IsNone(ve) THEN Rej("CannotDo2")
  ELSE IF op = "=" THEN (IF CanStore(lt, rt) THEN rt ELSE Rej("CannotDo2"))
  ELSE LET bop == SubSeq(op, 1, Len(op) - 1)
           res == IF bop = "+" THEN AddType(ve, rt)
                  ELSE IF Matches(Arr(TNever), ve) THEN ve ELSE rt
       IN IF BinOk(bop, ve, rt) /\ CanStore(lt, res) THEN ve ELSE Rej("CannotDo2")

\* reducers `$+ $* $& $| $&& $||' (reduce/sum.rs, product.rs, bit.rs, bool_reduce.rs)
SumAccepted == Multi({IterSig(TInt), IterSig(TFloat), IterSig(TString)})
ProductAccepted == Multi({IterSig(TInt), IterSig(TFloat)})
ElemOrNever(t) == LET e == QIterElement(t) IN IF IsNone(e) THEN TNever ELSE e
RedType(op, t) ==
  CASE op = "$+" -> IF ~Matches(t, SumAccepted) THEN Rej("IncorectUnaryOperatorOperand")
                    ELSE IF Matches(t, IterSig(TInt)) THEN TInt
                    ELSE IF Matches(t, IterSig(TFloat)) THEN TFloat
                    ELSE IF Matches(t, IterSig(TString)) THEN TString
                    ELSE ElemOrNever(t)
    [] op = "$*" -> IF ~Matches(t, ProductAccepted) THEN Rej("IncorectUnaryOperatorOperand")
                    ELSE IF Matches(t, IterSig(TInt)) THEN TInt
                    ELSE IF Matches(t, IterSig(TFloat)) THEN TFloat
                    ELSE ElemOrNever(t)
    [] op \in {"$&", "$|"}   -> IF Matches(t, IterSig(TInt)) THEN TInt ELSE Rej("IncorectUnaryOperatorOperand")
    [] op \in {"$&&", "$||"} -> IF Matches(t, IterSig(TBool)) THEN TBool ELSE Rej("IncorectUnaryOperatorOperand")
    [] OTHER -> Rej("unknown-operator")

\* type of a literal value (the renderer writes arrays and tuples of literals as array / tuple expressions)
RECURSIVE LitType(_)
LitType(v) ==
  CASE v.k \in {"bool", "int", "float", "string", "void"} -> Base(v.k)
    [] v.k = "array" -> Arr(JoinSeq([i \in 1..Len(v.es) |-> LitType(v.es[i])]))
    [] v.k = "tuple" -> Tup([i \in 1..Len(v.es) |-> LitType(v.es[i])])
    [] OTHER -> Rej("unknown-literal")

\* a call: every member a function, parameter types intersected (Type::params), arguments checked one by one
CallType(ft, ats) ==
  IF ~QIsFunction(ft) THEN Rej("NotAFunction")
  ELSE LET ps == FoldParams(SetToSeq(Members(ft))) IN
       IF IsNone(ps) THEN Rej("CannotDetermineParams")
       ELSE IF Len(ps.ps) # Len(ats) THEN Rej("WrongNumberOfArguments")
       ELSE IF \E i \in 1..Len(ats) : ~Matches(ats[i], ps.ps[i]) THEN Rej("WrongArgument")
       ELSE QReturnType(ft)

ParamTs(ps) == [i \in 1..Len(ps) |-> Unwire(ps[i].ty)]
RECURSIVE BindParams(_, _, _)
BindParams(env, ps, i) == IF i > Len(ps) THEN env ELSE BindParams(BindT(env, ps[i].n, Unwire(ps[i].ty)), ps, i + 1)
RECURSIVE BindNames(_, _, _, _)
BindNames(env, ns, ts, i) == IF i > Len(ns) THEN env ELSE BindNames(BindT(env, ns[i], ts[i]), ns, ts, i + 1)

\* Match::is_covering_type
Covered(st, arms) ==
  \A m \in Members(st) :
     \E i \in 1..Len(arms) : arms[i].k = "other" \/ (arms[i].k = "ty" /\ Matches(m, Unwire(arms[i].ty)))

(***************************************************************************)
(* The judgement                                                            *)
(***************************************************************************)
RECURSIVE TypeOf(_, _), TypeStmts(_, _), TypeList(_, _), TypeOpt(_, _), FnCheck(_, _, _, _), TypeArms(_, _, _)

OkS(t, env, nev) == [k |-> "ok", t |-> t, env |-> env, nev |-> nev]

\* types of a list of expressions in one environment; the first rejection wins
TypeList(es, cx) ==
  LET ts == [i \in 1..Len(es) |-> TypeOf(es[i], cx)]
      bad == {i \in 1..Len(es) : IsRej(ts[i])}
  IN IF bad = {} THEN [k |-> "ok", ts |-> ts] ELSE ts[Min(bad)]

\* an optional operand (slice bounds): absent is fine
TypeOpt(e, cx) == IF e = NoneV THEN NoneV ELSE TypeOf(e, cx)

\* body of a function literal / declaration checked against the declared result type; `env' already holds
\* the function's own name (declarations); a function that may fall off the end must admit ()
FnCheck(ps, r, body, env) ==
  LET rt == Unwire(r)
      b == TypeStmts(body, Cx(BindParams(env, ps, 1), rt, FALSE))
  IN IF IsRej(b) THEN b
     ELSE IF ~Matches(TVoid, rt) /\ ~b.nev THEN Rej("MissingReturn")
     ELSE Fn(ParamTs(ps), rt)

\* arm bodies, in order; result [k |-> "ok", ts |-> <<types>>] or the first rejection
TypeArms(arms, cx, i) ==
  IF i > Len(arms) THEN [k |-> "ok", ts |-> <<>>]
  ELSE
    LET a == arms[i]
        vs == IF a.k = "val" THEN TypeList(a.vs, cx) ELSE [k |-> "ok", ts |-> <<>>]
        bt == IF a.k = "ty" THEN TypeOf(a.b, [cx EXCEPT !.env = BindT(@, a.n, Unwire(a.ty))])
              ELSE TypeOf(a.b, cx)
    IN IF a.k \notin {"val", "ty", "other"} THEN Rej("unknown-arm")
       ELSE IF IsRej(vs) THEN vs
       ELSE IF IsRej(bt) THEN bt
       ELSE LET rest == TypeArms(arms, cx, i + 1) IN
            IF IsRej(rest) THEN rest ELSE [k |-> "ok", ts |-> <<bt>> \o rest.ts]

TypeStmts(ss, cx) ==
  IF ss = <<>> THEN OkS(TVoid, cx.env, FALSE)
  ELSE
    LET s == Head(ss)
        h == CASE s.k = "set" ->
                    LET t == TypeOf(s.e, cx) IN
                    IF IsRej(t) THEN t ELSE OkS(t, BindT(cx.env, s.n, t), FALSE)
               [] s.k = "destruct" ->
                    LET t == TypeOf(s.e, cx) IN
                    IF IsRej(t) THEN t
                    ELSE IF ~QIsTuple(t) THEN Rej("NotATuple")
                    ELSE IF QTupleLen(t) = -1 THEN Rej("CannotDetermineLength")
                    ELSE IF QTupleLen(t) # Len(s.ns) THEN Rej("WrongLength")
                    ELSE OkS(t, BindNames(cx.env, s.ns, QFlattenTuple(t).es, 1), FALSE)
               [] s.k = "fndecl" ->
                    LET sig == Fn(ParamTs(s.ps), Unwire(s.r))
                        env1 == BindT(cx.env, s.n, sig)
                        f == FnCheck(s.ps, s.r, s.body, env1)
                    IN IF IsRej(f) THEN f ELSE OkS(sig, env1, FALSE)
               [] OTHER ->
                    LET t == TypeOf(s, cx) IN IF IsRej(t) THEN t ELSE OkS(t, cx.env, FALSE)
    IN IF IsRej(h) THEN h
       ELSE IF Len(ss) = 1 THEN OkS(h.t, h.env, IsNever(h.t))
       ELSE LET r == TypeStmts(Tail(ss), [cx EXCEPT !.env = h.env]) IN
            IF IsRej(r) THEN r ELSE OkS(r.t, r.env, r.nev \/ IsNever(h.t))

TypeOf(e, cx) ==
  CASE e.k = "lit" -> LitType(e.v)
    [] e.k = "var" ->
         LET t == LookupT(cx.env, e.n) IN IF t = NoneV THEN Rej("VariableDoesntExist") ELSE t
    [] e.k = "block" ->
         LET r == TypeStmts(e.body, cx) IN IF IsRej(r) THEN r ELSE r.t
    [] e.k \in {"mod", "import"} ->      \* a struct of the names the module's own layer declares
         LET r == TypeStmts(e.body, cx) IN
         IF IsRej(r) THEN r
         ELSE LET own == SubSeq(r.env, Len(cx.env) + 1, Len(r.env))
                  names == {own[i].n : i \in 1..Len(own)} IN
              Struct([n \in names |-> LookupT(own, n)])
    [] e.k = "tup" ->
         LET r == TypeList(e.es, cx) IN IF IsRej(r) THEN r ELSE Tup(r.ts)
    [] e.k = "arr" ->
         LET r == TypeList(e.es, cx) IN IF IsRej(r) THEN r ELSE Arr(JoinSeq(r.ts))
    [] e.k = "rep" ->
         LET r == TypeList(<<e.v, e.len>>, cx) IN
         IF IsRej(r) THEN r
         ELSE IF ~Matches(r.ts[2], TInt) THEN Rej("WrongLengthType")
         ELSE Arr(r.ts[1])
    [] e.k = "struct" ->
         LET r == TypeList([i \in 1..Len(e.fs) |-> e.fs[i][2]], cx) IN
         IF IsRej(r) THEN r
         ELSE LET names == {e.fs[i][1] : i \in 1..Len(e.fs)} IN
              Struct([n \in names |-> r.ts[Max({i \in 1..Len(e.fs) : e.fs[i][1] = n})]])
    [] e.k = "field" ->
         LET t == TypeOf(e.e, cx) IN
         IF IsRej(t) THEN t
         ELSE IF ~QIsStruct(t) THEN Rej("CannotFieldAccess")
         ELSE IF ~QHasField(t, e.n) THEN Rej("NoField")
         ELSE QFieldType(t, e.n)
    [] e.k = "tupat" ->
         LET t == TypeOf(e.e, cx) IN
         IF IsRej(t) THEN t
         ELSE IF ~QIsTuple(t) THEN Rej("CannotTupleAccess")
         ELSE IF e.i >= QMinTupleLen(t) THEN Rej("TupleIndexTooBig")
         ELSE QTupleAt(t, e.i + 1)
    [] e.k = "at" ->
         LET r == TypeList(<<e.e, e.i>>, cx) IN
         IF IsRej(r) THEN r
         ELSE IF r.ts[2] # TInt THEN Rej("CannotIndexWith")
         ELSE IF ~QCanBeIndexed(r.ts[1]) THEN Rej("CannotIndexInto")
         ELSE LET x == QIndexResult(r.ts[1]) IN IF IsNone(x) THEN TNever ELSE x
    [] e.k = "slice" ->
         LET t == TypeOf(e.e, cx)
             a == TypeOpt(e.a, cx)  b == TypeOpt(e.b, cx)  c == TypeOpt(e.c, cx) IN
         IF IsRej(t) THEN t
         ELSE IF ~QCanBeIndexed(t) THEN Rej("CannotSlice")
         ELSE IF IsRej(a) THEN a ELSE IF IsRej(b) THEN b ELSE IF IsRej(c) THEN c
         ELSE IF \E x \in {a, b, c} : x # NoneV /\ x # TInt THEN Rej("CannotIndexWith")
         ELSE t
    [] e.k = "neg" ->
         LET t == TypeOf(e.e, cx) IN
         IF IsRej(t) THEN t
         ELSE IF Matches(t, Multi({TInt, TFloat})) THEN t ELSE Rej("IncorectUnaryOperatorOperand")
    [] e.k = "not" ->
         LET t == TypeOf(e.e, cx) IN
         IF IsRej(t) THEN t
         ELSE IF Matches(t, Multi({TInt, TBool})) THEN t ELSE Rej("IncorectUnaryOperatorOperand")
    [] e.k = "deref" ->
         LET t == TypeOf(e.e, cx) IN
         IF IsRej(t) THEN t
         ELSE IF ~QIsMut(t) THEN Rej("IncorectUnaryOperatorOperand")
         ELSE QMutElementType(t)
    [] e.k = "bin" ->
         LET r == TypeList(<<e.l, e.r>>, cx) IN
         IF IsRej(r) THEN r
         ELSE IF BinOk(e.op, r.ts[1], r.ts[2]) THEN BinType(e.op, r.ts[1], r.ts[2]) ELSE Rej("CannotDo2")
    [] e.k \in {"and", "or"} ->
         LET r == TypeList(<<e.l, e.r>>, cx) IN
         IF IsRej(r) THEN r
         ELSE IF r.ts[1] = TBool /\ r.ts[2] = TBool THEN TBool ELSE Rej("CannotDo2")
    [] e.k = "mut" ->
         LET t == TypeOf(e.e, cx) IN
         IF IsRej(t) THEN t
         ELSE IF "u" \in DOMAIN e THEN MutT(t)
         ELSE IF Matches(t, Unwire(e.ty)) THEN MutT(Unwire(e.ty)) ELSE Rej("WrongInitialization")
    [] e.k = "asg" ->
         LET r == TypeList(<<e.l, e.r>>, cx) IN
         IF IsRej(r) THEN r ELSE AsgType(e.op, r.ts[1], r.ts[2])
    [] e.k = "if" ->
         LET c == TypeOf(e.c, cx) IN
         IF IsRej(c) THEN c
         ELSE IF c # TBool THEN Rej("WrongCondition")
         ELSE LET t == TypeOf(e.t, cx)
                  f == IF e.f = NoneV THEN TVoid ELSE TypeOf(e.f, cx) IN
              IF IsRej(t) THEN t ELSE IF IsRej(f) THEN f ELSE Join(t, f)
    [] e.k = "ifset" ->
         LET x == TypeOf(e.e, cx) IN
         IF IsRej(x) THEN x
         ELSE LET t == TypeOf(e.t, [cx EXCEPT !.env = BindT(@, e.n, Unwire(e.ty))])
                  f == IF e.f = NoneV THEN TVoid ELSE TypeOf(e.f, cx) IN
              IF IsRej(t) THEN t ELSE IF IsRej(f) THEN f ELSE Join(t, f)
    [] e.k = "match" ->
         LET x == TypeOf(e.e, cx) IN
         IF IsRej(x) THEN x
         ELSE IF Len(e.arms) = 0 THEN Rej("match-without-arms")
         ELSE LET as == TypeArms(e.arms, cx, 1) IN
              IF IsRej(as) THEN as
              ELSE IF ~Covered(x, e.arms) THEN Rej("MatchNotCovered")
              ELSE JoinSeq(as.ts)
    [] e.k = "loop" ->
         LET b == TypeOf(e.b, [cx EXCEPT !.loop = TRUE]) IN IF IsRej(b) THEN b ELSE TVoid
    [] e.k = "while" ->
         LET c == TypeOf(e.c, cx) IN
         IF IsRej(c) THEN c
         ELSE IF c # TBool THEN Rej("WrongCondition")
         ELSE LET b == TypeOf(e.b, [cx EXCEPT !.loop = TRUE]) IN IF IsRej(b) THEN b ELSE TVoid
    [] e.k = "whileset" ->       \* D7: the tested expression is checked with the loop flag set
         LET x == TypeOf(e.e, [cx EXCEPT !.loop = TRUE]) IN
         IF IsRej(x) THEN x
         ELSE LET b == TypeOf(e.b, [cx EXCEPT !.env = BindT(@, e.n, Unwire(e.ty)), !.loop = TRUE]) IN
              IF IsRej(b) THEN b ELSE TVoid
    [] e.k = "for" ->
         LET it == TypeOf(e.e, cx) IN
         IF IsRej(it) THEN it
         ELSE LET el == QIterElement(it) IN
              IF IsNone(el) THEN Rej("WrongType")
              ELSE LET b == TypeOf(e.b, [cx EXCEPT !.env = BindT(@, e.n, el), !.loop = TRUE]) IN
                   IF IsRej(b) THEN b ELSE TVoid
    [] e.k = "break" -> IF cx.loop THEN TNever ELSE Rej("BreakOutsideLoop")
    [] e.k = "continue" -> IF cx.loop THEN TNever ELSE Rej("ContinueOutsideLoop")
    [] e.k = "ret" ->
         IF cx.ret = NoneV THEN Rej("ReturnOutsideFunction")
         ELSE LET t == IF e.e = NoneV THEN TVoid ELSE TypeOf(e.e, cx) IN
              IF IsRej(t) THEN t
              ELSE IF Matches(t, cx.ret) THEN TNever ELSE Rej("WrongReturn")
    [] e.k = "fn" -> FnCheck(e.ps, e.r, e.body, cx.env)
    [] e.k = "call" ->
         LET f == TypeOf(e.f, cx) IN
         IF IsRej(f) THEN f
         ELSE LET a == TypeList(e.args, cx) IN
              IF IsRej(a) THEN a ELSE CallType(f, a.ts)
    [] e.k = "iter" ->
         LET t == TypeOf(e.e, cx) IN
         IF IsRej(t) THEN t
         ELSE IF ~Matches(t, Arr(TAny)) THEN Rej("IncorectUnaryOperatorOperand")
         ELSE LET el == QElementType(t) IN IterSig(IF IsNone(el) THEN TNever ELSE el)
    [] e.k \in {"map", "filter", "part"} ->
         LET r == TypeList(<<e.it, e.f>>, cx) IN
         IF IsRej(r) THEN r
         ELSE LET el == QIterElement(r.ts[1]) IN
              IF IsNone(el) THEN Rej("CannotDo2")
              ELSE IF e.k = "map" THEN
                     IF ~Matches(r.ts[2], Fn(<<el>>, TAny)) THEN Rej("CannotDo2")
                     ELSE LET rr == QReturnType(r.ts[2]) IN IterSig(IF IsNone(rr) THEN TNever ELSE rr)
              ELSE IF ~Matches(r.ts[2], Fn(<<el>>, TBool)) THEN Rej("CannotDo2")
              ELSE IF e.k = "filter" THEN r.ts[1]
              ELSE Tup(<<Arr(el), Arr(el)>>)
    [] e.k = "tfilter" ->
         LET t == TypeOf(e.it, cx) IN
         IF IsRej(t) THEN t
         ELSE IF ~QIsIterator(t) THEN Rej("CannotDo2") ELSE IterSig(Unwire(e.ty))
    [] e.k = "collect" ->
         LET t == TypeOf(e.it, cx) IN
         IF IsRej(t) THEN t
         ELSE IF ~QIsIterator(t) THEN Rej("IncorectUnaryOperatorOperand") ELSE Arr(ElemOrNever(t))
    [] e.k = "reduce" ->
         LET r == TypeList(<<e.it, e.init, e.f>>, cx) IN
         IF IsRej(r) THEN r
         ELSE LET el == QIterElement(r.ts[1])
                  rr == QReturnType(r.ts[3]) IN
              IF IsNone(el) THEN Rej("CannotReduce")
              ELSE IF IsNone(rr) THEN Rej("WrongType")
              ELSE LET acc == Join(Join(r.ts[2], el), rr) IN
                   IF ~Matches(r.ts[3], Fn(<<acc, el>>, rr)) THEN Rej("WrongType")
                   ELSE Join(rr, r.ts[2])
    [] e.k = "red" ->
         LET t == TypeOf(e.it, cx) IN IF IsRej(t) THEN t ELSE RedType(e.op, t)
    [] e.k \in {"hide", "tick"} ->       \* call of a helper (v: ty) -> ty  /  (i: int, v: ty) -> ty
         LET t == TypeOf(e.e, cx) IN
         IF IsRej(t) THEN t
         ELSE IF e.k = "tick" /\ LookupT(cx.env, "log") # LogType THEN Rej("log-shadowed")
         ELSE IF Matches(t, Unwire(e.ty)) THEN Unwire(e.ty) ELSE Rej("WrongArgument")
    [] e.k = "mark" ->                   \* log += [i]
         LET lt == LookupT(cx.env, "log") IN
         IF lt = NoneV THEN Rej("VariableDoesntExist") ELSE AsgType("+=", lt, Arr(TInt))
    [] OTHER -> Rej("unknown-node")

TypeProg(prog) == TypeStmts(prog, Cx(InitTEnv, NoneV, FALSE))
Accepts(prog) == ~IsRej(TypeProg(prog))

\* type in Types.tla form -> wire form (unions as sequences, structs as sorted pair lists), for reports
RECURSIVE Wire(_)
Wire(t) ==
  CASE t.k \in {"array", "mut"} -> [k |-> t.k, e |-> Wire(t.e)]
    [] t.k = "tuple"  -> [k |-> "tuple", es |-> [i \in 1..Len(t.es) |-> Wire(t.es[i])]]
    [] t.k = "fn"     -> [k |-> "fn", ps |-> [i \in 1..Len(t.ps) |-> Wire(t.ps[i])], r |-> Wire(t.r)]
    [] t.k = "struct" -> [k |-> "struct", fs |-> LET ns == SetToSeq(DOMAIN t.fs) IN
                                               [i \in 1..Len(ns) |-> <<ns[i], Wire(t.fs[ns[i]])>>]]
    [] t.k = "multi"  -> [k |-> "multi", ms |-> LET ms == SetToSeq(t.ms) IN [i \in 1..Len(ms) |-> Wire(ms[i])]]
    [] OTHER -> [k |-> t.k]
=============================================================================
