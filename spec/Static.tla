------------------------------- MODULE Static -------------------------------
(***************************************************************************)
(* The static semantics of SimpleSL: a typing judgement over the AST wire   *)
(* format of Lang.tla / LangAst.tla.                                        *)
(*                                                                           *)
(*   TypeOf(e, cx)     a type of Types.tla, or [k |-> "reject", why |-> c]   *)
(*   TypeStmts(ss, cx) statement lists thread the environment:               *)
(*                     [k |-> "ok", t, env, nev] or a reject record          *)
(*   TypeProg(prog)    a whole program (the log cell `log' pre-bound)        *)
(*                                                                           *)
(*   cx = [env  |-> sequence of [n |-> name, t |-> type], last binding wins, *)
(*         ret  |-> declared result type of the enclosing function / NoneV,  *)
(*         loop |-> inside a loop of the same function]                      *)
(*                                                                           *)
(* The rules transcribe what the implementation's checker does when an      *)
(* instruction is CREATED (create_instruction / create of every instruction  *)
(* kind, and its return_type): the queries on unions are those of Types.tla *)
(* (QElementType ... = Type::element_type ..., law FoldsAgree of C10/C05).   *)
(*                                                                           *)
(* RELATION to the implementation.  The implementation types a statement    *)
(* once when it creates it and, at the top level of a program, a second     *)
(* time after constant folding (Code::parse: create, then recreate); names  *)
(* are registered with what is known after folding.  This judgement has no  *)
(* folding pass.  The relation (decided by Trace_Static.tla) is              *)
(*                                                                           *)
(*   program not FoldSensitive:  same verdict, and if accepted EQUAL types;  *)
(*   program FoldSensitive:      accepted here => accepted by the            *)
(*                               implementation (or a folding error, D4),    *)
(*                               accepted by both => Matches(type of the     *)
(*                               implementation, TypeOf): the implementation *)
(*                               is at least as precise, never wider.        *)
(*                                                                           *)
(* NAMED DIFFERENCES (the judgement is wider, never narrower):               *)
(*  D1 if-folding      `if <constant condition>' keeps one branch after     *)
(*                     folding (IfElse::recreate); here: Join of both.       *)
(*  D2 at-folding      indexing a constant array with a constant index      *)
(*                     yields the element's exact type; here: the element    *)
(*                     type of the array (a union for `[1, "a"][0]').        *)
(*  D3 and/or-folding  `true && e', `false || e' become e (same type bool;   *)
(*                     listed for completeness).                             *)
(*  D4 folding errors  a constant sub-expression that fails while being     *)
(*                     folded (1/0, [1][5], 1 << 64, [0; -1]) is reported by *)
(*                     the checker with the class of the run-time error;    *)
(*                     here such a program is well typed (the conformance   *)
(*                     step counts these apart, class "fold").               *)
(*  D5 post-fold names a top-level name bound to an expression that folds   *)
(*                     has the folded expression's type for the statements  *)
(*                     that follow (D1/D2 propagate through it), so the     *)
(*                     implementation accepts `x := if true {1} else {"a"};  *)
(*                     x + 1'; here: the unfolded type, and a rejection.     *)
(*  D6 while-set scope the implementation checks the tested expression of   *)
(*                     `while x: T = e' with the loop flag already set      *)
(*                     (a `break' nested in e is accepted); transcribed.     *)
(*  D7 dropped constants  a bare constant in non-last statement position is *)
(*                     dropped by the parser; no effect on typing.           *)
(*  D8 `f := <function literal>'  in the concrete syntax this IS a function *)
(*                     declaration: the text of Set(f, FnE(..)) and of       *)
(*                     FnDecl(f, ..) is the same, so the implementation lets *)
(*                     the body refer to f (recursion).  The AST keeps the   *)
(*                     two apart and Lang.tla evaluates the former as an     *)
(*                     anonymous closure bound afterwards; this judgement    *)
(*                     follows Lang.tla.  The verdicts can differ only when  *)
(*                     the literal's body mentions the name being bound      *)
(*                     (SelfNamedLiteral(prog) below): counted apart.        *)
(* D1, D2 and D5 are the only ones that make the two types (or verdicts)    *)
(* differ.  FoldSensitive(prog) below over-approximates the programs in     *)
(* which they can occur (an `if' whose condition, or an index expression    *)
(* whose operands, may fold to a constant outside function bodies).  For    *)
(* every other program the conformance step demands EQUAL static types and  *)
(* equal verdicts.  (The untyped `mut e' takes the type e has when the      *)
(* instruction is created, before folding: no difference.)                  *)
(***************************************************************************)
EXTENDS Lang

Rej(why) == [k |-> "reject", why |-> why]
IsRej(x) == x.k = "reject"
IsNever(t) == t.k = "never"

Cx(env, ret, loop) == [env |-> env, ret |-> ret, loop |-> loop]
BindT(env, name, t) == Append(env, [n |-> name, t |-> t])
LookupT(env, name) ==
  LET is == {i \in 1..Len(env) : env[i].n = name} IN
  IF is = {} THEN NoneV ELSE env[Max(is)].t

LogType == MutT(Arr(TInt))
InitTEnv == <<[n |-> "log", t |-> LogType]>>

(***************************************************************************)
(* Operator tables (bin_op.rs: can_be_used / return_type)                    *)
(***************************************************************************)
Pair(a, b) == Tup(<<a, b>>)
IntPairs == Pair(TInt, TInt)
NumPairs == Multi({Pair(TInt, TInt), Pair(TFloat, TFloat)})
AddPairs == Multi({Pair(TInt, TInt), Pair(TFloat, TFloat), Pair(TString, TString), Pair(Arr(TAny), Arr(TAny))})
BitPairs == Multi({Pair(TInt, TInt), Pair(TBool, TBool)})

ArithOps == {"-", "*", "/", "**"}
OrdOps == {"<", "<=", ">", ">="}
IntOps == {"%", "<<", ">>"}
EqOps == {"==", "!="}
BitOps == {"&", "|", "^"}

BinOk(op, l, r) ==
  CASE op = "+"         -> Matches(Pair(l, r), AddPairs)
    [] op \in ArithOps  -> Matches(Pair(l, r), NumPairs)
    [] op \in OrdOps    -> Matches(Pair(l, r), NumPairs)
    [] op \in IntOps    -> Matches(Pair(l, r), IntPairs)
    [] op \in EqOps     -> TRUE
    [] op \in BitOps    -> Matches(Pair(l, r), BitPairs)
    [] OTHER            -> FALSE

\* add::return_type
AddType(l, r) ==
  LET le == QElementType(l) IN
  IF IsNone(le) THEN l
  ELSE LET re == QElementType(r) IN Arr(Join(le, IF IsNone(re) THEN TNever ELSE re))

BinType(op, l, r) ==
  CASE op = "+"         -> AddType(l, r)
    [] op \in ArithOps  -> l
    [] op \in OrdOps    -> TBool
    [] op \in IntOps    -> TInt
    [] op \in EqOps     -> TBool
    [] op \in BitOps    -> l
    [] OTHER            -> TNever

\* assign.rs: the cell's content type, the operator applied to it, and whether every cell the target may be can
\* store the result
CanStore(lt, res) == \A m \in Members(lt) : m.k = "mut" /\ Matches(res, m.e)
AsgOps == {"=", "+=", "-=", "*=", "/=", "%=", "**=", "<<=", ">>=", "&=", "|=", "^="}
AsgType(op, lt, rt) ==
  LET ve == QMutElementType(lt) IN
  IF op \notin AsgOps THEN Rej("unknown-operator")
  ELSE IF IsNone(ve) THEN Rej("CannotDo2")
  ELSE IF op = "=" THEN (IF CanStore(lt, rt) THEN rt ELSE Rej("CannotDo2"))
  ELSE LET bop == SubSeq(op, 1, Len(op) - 1)
           \* (bin_op.rs `return_type': the array branch cannot be reached, no array passes BinOk of - * / ...)
           res == IF bop = "+" THEN AddType(ve, rt)
                  ELSE IF Matches(Arr(TNever), ve) THEN ve ELSE rt
       IN IF BinOk(bop, ve, rt) /\ CanStore(lt, res) THEN ve ELSE Rej("CannotDo2")

\* reducers `$+ $* $& $| $&& $||' (reduce/sum.rs, product.rs, bit.rs, bool_reduce.rs)
SumAccepted == Multi({IterSig(TInt), IterSig(TFloat), IterSig(TString)})
ProductAccepted == Multi({IterSig(TInt), IterSig(TFloat)})
ElemOrNever(t) == LET e == QIterElement(t) IN IF IsNone(e) THEN TNever ELSE e
RedType(op, t) ==
  CASE op = "$+" -> IF ~Matches(t, SumAccepted) THEN Rej("IncorectUnaryOperatorOperand")
                    ELSE IF Matches(t, IterSig(TInt)) THEN TInt
                    ELSE IF Matches(t, IterSig(TFloat)) THEN TFloat
                    ELSE IF Matches(t, IterSig(TString)) THEN TString
                    ELSE ElemOrNever(t)
    [] op = "$*" -> IF ~Matches(t, ProductAccepted) THEN Rej("IncorectUnaryOperatorOperand")
                    ELSE IF Matches(t, IterSig(TInt)) THEN TInt
                    ELSE IF Matches(t, IterSig(TFloat)) THEN TFloat
                    ELSE ElemOrNever(t)
    [] op \in {"$&", "$|"}   -> IF Matches(t, IterSig(TInt)) THEN TInt ELSE Rej("IncorectUnaryOperatorOperand")
    [] op \in {"$&&", "$||"} -> IF Matches(t, IterSig(TBool)) THEN TBool ELSE Rej("IncorectUnaryOperatorOperand")
    [] OTHER -> Rej("unknown-operator")

\* type of a literal value (the renderer writes arrays and tuples of literals as array / tuple expressions)
RECURSIVE LitType(_)
LitType(v) ==
  CASE v.k \in {"bool", "int", "float", "string", "void"} -> Base(v.k)
    [] v.k = "array" -> Arr(JoinSeq([i \in 1..Len(v.es) |-> LitType(v.es[i])]))
    [] v.k = "tuple" -> Tup([i \in 1..Len(v.es) |-> LitType(v.es[i])])
    [] OTHER -> Rej("unknown-literal")

\* a call: every member a function, parameter types intersected (Type::params), arguments checked one by one
CallType(ft, ats) ==
  IF ~QIsFunction(ft) THEN Rej("NotAFunction")
  ELSE LET ps == FoldParams(SetToSeq(Members(ft))) IN
       IF IsNone(ps) THEN Rej("CannotDetermineParams")
       ELSE IF Len(ps.ps) # Len(ats) THEN Rej("WrongNumberOfArguments")
       ELSE IF \E i \in 1..Len(ats) : ~Matches(ats[i], ps.ps[i]) THEN Rej("WrongArgument")
       ELSE QReturnType(ft)

ParamTs(ps) == [i \in 1..Len(ps) |-> Unwire(ps[i].ty)]
RECURSIVE BindParams(_, _, _)
BindParams(env, ps, i) == IF i > Len(ps) THEN env ELSE BindParams(BindT(env, ps[i].n, Unwire(ps[i].ty)), ps, i + 1)
RECURSIVE BindNames(_, _, _, _)
BindNames(env, ns, ts, i) == IF i > Len(ns) THEN env ELSE BindNames(BindT(env, ns[i], ts[i]), ns, ts, i + 1)

\* Match::is_covering_type
Covered(st, arms) ==
  \A m \in Members(st) :
     \E i \in 1..Len(arms) : arms[i].k = "other" \/ (arms[i].k = "ty" /\ Matches(m, Unwire(arms[i].ty)))

(***************************************************************************)
(* The judgement.  Shape: the sub-expressions of a node are typed first,    *)
(* each in its own context (Kids: binding constructs extend the environment *)
(* of the sub-expression they scope over, loops set the loop flag); a       *)
(* statement list that the node owns (block, module, imported file, function *)
(* body) is typed by TypeStmts; the first rejection wins; then the node's    *)
(* own rule (Rule: one arm per node kind, not recursive) checks the operand  *)
(* types and gives the node's type.                                         *)
(***************************************************************************)
Kid(e, cx) == [e |-> e, cx |-> cx]
KidsIn(es, cx) == [i \in 1..Len(es) |-> Kid(es[i], cx)]
WithName(cx, n, t) == [cx EXCEPT !.env = BindT(@, n, t)]
InLoop(cx) == [cx EXCEPT !.loop = TRUE]
Present(x) == IF x = NoneV THEN <<>> ELSE <<x>>

\* match: the scrutinee, then per arm its values (value arms) and its body
ArmKids(a, cx) ==
  CASE a.k = "val" -> KidsIn(a.vs, cx) \o <<Kid(a.b, cx)>>
    [] a.k = "ty"  -> <<Kid(a.b, WithName(cx, a.n, Unwire(a.ty)))>>
    [] OTHER       -> <<Kid(a.b, cx)>>
RECURSIVE ArmsKids(_, _, _)
ArmsKids(arms, cx, i) == IF i > Len(arms) THEN <<>> ELSE ArmKids(arms[i], cx) \o ArmsKids(arms, cx, i + 1)
\* position (among the kids of a match) of the body of arm i
RECURSIVE ArmBodyAt(_, _)
ArmBodyAt(arms, i) == IF i = 0 THEN 1 ELSE ArmBodyAt(arms, i - 1) + Len(ArmKids(arms[i], Cx(<<>>, NoneV, FALSE)))

Kids(e, cx) ==
  CASE e.k \in {"tup", "arr"} -> KidsIn(e.es, cx)
    [] e.k = "rep"    -> KidsIn(<<e.v, e.len>>, cx)
    [] e.k = "struct" -> KidsIn([i \in 1..Len(e.fs) |-> e.fs[i][2]], cx)
    [] e.k \in {"field", "tupat", "neg", "not", "deref", "mut", "iter", "hide", "tick"} -> <<Kid(e.e, cx)>>
    [] e.k = "at"     -> KidsIn(<<e.e, e.i>>, cx)
    [] e.k = "slice"  -> KidsIn(<<e.e>> \o Present(e.a) \o Present(e.b) \o Present(e.c), cx)
    [] e.k \in {"bin", "and", "or", "asg"} -> KidsIn(<<e.l, e.r>>, cx)
    [] e.k = "if"     -> KidsIn(<<e.c, e.t>> \o Present(e.f), cx)
    [] e.k = "ifset"  -> <<Kid(e.e, cx), Kid(e.t, WithName(cx, e.n, Unwire(e.ty)))>> \o KidsIn(Present(e.f), cx)
    [] e.k = "match"  -> <<Kid(e.e, cx)>> \o ArmsKids(e.arms, cx, 1)
    [] e.k = "loop"   -> <<Kid(e.b, InLoop(cx))>>
    [] e.k = "while"  -> <<Kid(e.c, cx), Kid(e.b, InLoop(cx))>>
    \* D6: the tested expression is checked with the loop flag already set
    [] e.k = "whileset" -> <<Kid(e.e, InLoop(cx)), Kid(e.b, InLoop(WithName(cx, e.n, Unwire(e.ty))))>>
    [] e.k = "for"    -> <<Kid(e.e, cx)>>         \* the body depends on the iterator's type: Kids2
    [] e.k = "ret"    -> KidsIn(Present(e.e), cx)
    [] e.k = "call"   -> KidsIn(<<e.f>> \o e.args, cx)
    [] e.k \in {"map", "filter", "part"} -> KidsIn(<<e.it, e.f>>, cx)
    [] e.k \in {"tfilter", "collect", "red"} -> <<Kid(e.it, cx)>>
    [] e.k = "reduce" -> KidsIn(<<e.it, e.init, e.f>>, cx)
    [] OTHER -> <<>>       \* lit var break continue mark; block mod import fn own a statement list instead

\* `for n in e body': the body sees n with the element type of e
Kids2(e, cx, ts) ==
  IF e.k = "for" /\ ~IsRej(ts[1]) /\ ~IsNone(QIterElement(ts[1]))
  THEN <<Kid(e.b, InLoop(WithName(cx, e.n, QIterElement(ts[1]))))>>
  ELSE <<>>

\* the statement list a node owns, and the context it is typed in: a function body sees the parameters,
\* is checked against the declared result type and is outside any loop of its creator
OwnsBody(e) == e.k \in {"block", "mod", "import", "fn"}
BodyCx(e, cx) == IF e.k = "fn" THEN Cx(BindParams(cx.env, e.ps, 1), Unwire(e.r), FALSE) ELSE cx

FirstRej(ts) == LET bad == {i \in 1..Len(ts) : IsRej(ts[i])} IN IF bad = {} THEN NoneV ELSE ts[Min(bad)]

OkS(t, env, nev) == [k |-> "ok", t |-> t, env |-> env, nev |-> nev]
NoBody == OkS(TVoid, <<>>, FALSE)

(* The node's own rule.  ts: the types of Kids \o Kids2 (none rejected); bs: the result of the owned statement
   list (not rejected).  Transcribes create_instruction / return_type of each instruction kind. *)
Rule(e, cx, ts, bs) ==
  CASE e.k = "lit" -> LitType(e.v)
    [] e.k = "var" ->
         LET t == LookupT(cx.env, e.n) IN IF t = NoneV THEN Rej("VariableDoesntExist") ELSE t
    [] e.k = "block" -> bs.t
    [] e.k \in {"mod", "import"} ->      \* a struct of the names the module's own layer declares
         LET own == SubSeq(bs.env, Len(cx.env) + 1, Len(bs.env))
             names == {own[i].n : i \in 1..Len(own)} IN
         Struct([n \in names |-> LookupT(own, n)])
    [] e.k = "fn" ->       \* a function that may fall off the end must admit ()
         IF ~Matches(TVoid, Unwire(e.r)) /\ ~bs.nev THEN Rej("MissingReturn")
         ELSE Fn(ParamTs(e.ps), Unwire(e.r))
    [] e.k = "tup" -> Tup(ts)
    [] e.k = "arr" -> Arr(JoinSeq(ts))
    [] e.k = "rep" -> IF ~Matches(ts[2], TInt) THEN Rej("WrongLengthType") ELSE Arr(ts[1])
    [] e.k = "struct" ->
         LET names == {e.fs[i][1] : i \in 1..Len(e.fs)} IN
         Struct([n \in names |-> ts[Max({i \in 1..Len(e.fs) : e.fs[i][1] = n})]])
    [] e.k = "field" ->
         IF ~QIsStruct(ts[1]) THEN Rej("CannotFieldAccess")
         ELSE IF ~QHasField(ts[1], e.n) THEN Rej("NoField")
         ELSE QFieldType(ts[1], e.n)
    [] e.k = "tupat" ->
         IF ~QIsTuple(ts[1]) THEN Rej("CannotTupleAccess")
         ELSE IF e.i >= QMinTupleLen(ts[1]) THEN Rej("TupleIndexTooBig")
         ELSE QTupleAt(ts[1], e.i + 1)
    [] e.k = "at" ->
         IF ts[2] # TInt THEN Rej("CannotIndexWith")
         ELSE IF ~QCanBeIndexed(ts[1]) THEN Rej("CannotIndexInto")
         ELSE LET x == QIndexResult(ts[1]) IN IF IsNone(x) THEN TNever ELSE x
    [] e.k = "slice" ->       \* `s[:]' is s itself; otherwise every bound that is present is an int
         IF ~QCanBeIndexed(ts[1]) THEN Rej("CannotSlice")
         ELSE IF \E i \in 2..Len(ts) : ts[i] # TInt THEN Rej("CannotIndexWith")
         ELSE ts[1]
    [] e.k = "neg" -> IF Matches(ts[1], Multi({TInt, TFloat})) THEN ts[1] ELSE Rej("IncorectUnaryOperatorOperand")
    [] e.k = "not" -> IF Matches(ts[1], Multi({TInt, TBool})) THEN ts[1] ELSE Rej("IncorectUnaryOperatorOperand")
    [] e.k = "deref" -> IF ~QIsMut(ts[1]) THEN Rej("IncorectUnaryOperatorOperand") ELSE QMutElementType(ts[1])
    [] e.k = "bin" -> IF BinOk(e.op, ts[1], ts[2]) THEN BinType(e.op, ts[1], ts[2]) ELSE Rej("CannotDo2")
    [] e.k \in {"and", "or"} -> IF ts[1] = TBool /\ ts[2] = TBool THEN TBool ELSE Rej("CannotDo2")
    [] e.k = "mut" ->         \* the untyped form takes the static type of its initial value
         IF "u" \in DOMAIN e THEN MutT(ts[1])
         ELSE IF Matches(ts[1], Unwire(e.ty)) THEN MutT(Unwire(e.ty)) ELSE Rej("WrongInitialization")
    [] e.k = "asg" -> AsgType(e.op, ts[1], ts[2])
    [] e.k = "if" ->          \* D1: both branches, also under a constant condition
         IF ts[1] # TBool THEN Rej("WrongCondition")
         ELSE Join(ts[2], IF e.f = NoneV THEN TVoid ELSE ts[3])
    [] e.k = "ifset" -> Join(ts[2], IF e.f = NoneV THEN TVoid ELSE ts[3])
    [] e.k = "match" ->
         IF Len(e.arms) = 0 THEN Rej("match-without-arms")
         ELSE IF \E i \in 1..Len(e.arms) : e.arms[i].k \notin {"val", "ty", "other"} THEN Rej("unknown-arm")
         ELSE IF ~Covered(ts[1], e.arms) THEN Rej("MatchNotCovered")
         ELSE JoinSeq([i \in 1..Len(e.arms) |-> ts[ArmBodyAt(e.arms, i)]])
    [] e.k = "loop" -> TVoid
    [] e.k = "while" -> IF ts[1] # TBool THEN Rej("WrongCondition") ELSE TVoid
    [] e.k = "whileset" -> TVoid
    [] e.k = "for" -> IF IsNone(QIterElement(ts[1])) THEN Rej("WrongType") ELSE TVoid
    [] e.k = "break" -> IF cx.loop THEN TNever ELSE Rej("BreakOutsideLoop")
    [] e.k = "continue" -> IF cx.loop THEN TNever ELSE Rej("ContinueOutsideLoop")
    [] e.k = "ret" ->
         IF cx.ret = NoneV THEN Rej("ReturnOutsideFunction")
         ELSE IF Matches(IF e.e = NoneV THEN TVoid ELSE ts[1], cx.ret) THEN TNever ELSE Rej("WrongReturn")
    [] e.k = "call" -> CallType(ts[1], Tail(ts))
    [] e.k = "iter" ->
         IF ~Matches(ts[1], Arr(TAny)) THEN Rej("IncorectUnaryOperatorOperand")
         ELSE LET el == QElementType(ts[1]) IN IterSig(IF IsNone(el) THEN TNever ELSE el)
    [] e.k = "map" ->
         LET el == QIterElement(ts[1]) IN
         IF IsNone(el) THEN Rej("CannotDo2")
         ELSE IF ~Matches(ts[2], Fn(<<el>>, TAny)) THEN Rej("CannotDo2")
         ELSE LET rr == QReturnType(ts[2]) IN IterSig(IF IsNone(rr) THEN TNever ELSE rr)
    [] e.k \in {"filter", "part"} ->
         LET el == QIterElement(ts[1]) IN
         IF IsNone(el) THEN Rej("CannotDo2")
         ELSE IF ~Matches(ts[2], Fn(<<el>>, TBool)) THEN Rej("CannotDo2")
         ELSE IF e.k = "filter" THEN ts[1] ELSE Tup(<<Arr(el), Arr(el)>>)
    [] e.k = "tfilter" -> IF ~QIsIterator(ts[1]) THEN Rej("CannotDo2") ELSE IterSig(Unwire(e.ty))
    [] e.k = "collect" -> IF ~QIsIterator(ts[1]) THEN Rej("IncorectUnaryOperatorOperand") ELSE Arr(ElemOrNever(ts[1]))
    [] e.k = "reduce" ->
         LET el == QIterElement(ts[1])
             rr == QReturnType(ts[3]) IN
         IF IsNone(el) THEN Rej("CannotReduce")
         ELSE IF IsNone(rr) THEN Rej("WrongType")
         ELSE IF ~Matches(ts[3], Fn(<<Join(Join(ts[2], el), rr), el>>, rr)) THEN Rej("WrongType")
         ELSE Join(rr, ts[2])
    [] e.k = "red" -> RedType(e.op, ts[1])
    [] e.k \in {"hide", "tick"} ->       \* call of a helper (v: ty) -> ty  /  (i: int, v: ty) -> ty
         IF e.k = "tick" /\ LookupT(cx.env, "log") # LogType THEN Rej("log-shadowed")
         ELSE IF Matches(ts[1], Unwire(e.ty)) THEN Unwire(e.ty) ELSE Rej("WrongArgument")
    [] e.k = "mark" ->                   \* log += [i]
         LET lt == LookupT(cx.env, "log") IN
         IF lt = NoneV THEN Rej("VariableDoesntExist") ELSE AsgType("+=", lt, Arr(TInt))
    [] OTHER -> Rej("unknown-node")

RECURSIVE TypeOf(_, _), TypeKids(_), TypeStmts(_, _), AfterHead(_, _, _)

\* the types of a list of sub-expressions, each in its context
TypeKids(ks) == [i \in 1..Len(ks) |-> TypeOf(ks[i].e, ks[i].cx)]

\* ts: types of all sub-expressions; bs: result of the owned statement list.  The first rejection wins.
Conclude(e, cx, ts, bs) ==
  IF FirstRej(ts) # NoneV THEN FirstRej(ts)
  ELSE IF IsRej(bs) THEN bs
  ELSE Rule(e, cx, ts, bs)
WithKids2(e, cx, t1) ==
  Conclude(e, cx, t1 \o TypeKids(Kids2(e, cx, t1)),
           IF OwnsBody(e) THEN TypeStmts(e.body, BodyCx(e, cx)) ELSE NoBody)
TypeOf(e, cx) == WithKids2(e, cx, TypeKids(Kids(e, cx)))

(* Statement lists: `x := e', `(a, b) := e' and `f := (..) -> r {..}' extend the environment of the statements
   that follow; a declared function sees its own name (its parameters shadow it).  Result: the type of the last
   statement (() for an empty list), the environment at the end, and whether some statement has type ! (which is
   what "cannot fall off the end" means to the checker). *)
DeclSig(s) == Fn(ParamTs(s.ps), Unwire(s.r))
\* what is typed for a statement, and in which context
Target(s) == CASE s.k \in {"set", "destruct"} -> s.e
               [] s.k = "fndecl" -> [k |-> "fn", ps |-> s.ps, r |-> s.r, body |-> s.body]
               [] OTHER -> s
StmtCx(s, cx) == IF s.k = "fndecl" THEN WithName(cx, s.n, DeclSig(s)) ELSE cx
\* a destructuring needs a tuple type of one known length (unions: the same length in every member)
DestructBad(s, t) ==
  IF s.k # "destruct" THEN NoneV
  ELSE IF ~QIsTuple(t) THEN Rej("NotATuple")
  ELSE IF QTupleLen(t) = -1 THEN Rej("CannotDetermineLength")
  ELSE IF QTupleLen(t) # Len(s.ns) THEN Rej("WrongLength")
  ELSE NoneV
\* the environment after the statement, t its type
EnvAfter(s, cx, t) ==
  CASE s.k = "set" -> BindT(cx.env, s.n, t)
    [] s.k = "destruct" -> BindNames(cx.env, s.ns, QFlattenTuple(t).es, 1)
    [] s.k = "fndecl" -> BindT(cx.env, s.n, DeclSig(s))
    [] OTHER -> cx.env
ThenRest(t, r) == IF IsRej(r) THEN r ELSE OkS(r.t, r.env, r.nev \/ IsNever(t))

\* t: the type of the head statement
AfterHead(ss, cx, t) ==
  IF IsRej(t) THEN t
  ELSE IF DestructBad(Head(ss), t) # NoneV THEN DestructBad(Head(ss), t)
  ELSE IF Len(ss) = 1 THEN OkS(t, EnvAfter(Head(ss), cx, t), IsNever(t))
  ELSE ThenRest(t, TypeStmts(Tail(ss), [cx EXCEPT !.env = EnvAfter(Head(ss), cx, t)]))
TypeStmts(ss, cx) ==
  IF ss = <<>> THEN OkS(TVoid, cx.env, FALSE)
  ELSE AfterHead(ss, cx, TypeOf(Target(Head(ss)), StmtCx(Head(ss), cx)))

TypeProg(prog) == TypeStmts(prog, Cx(InitTEnv, NoneV, FALSE))
Accepts(prog) == ~IsRej(TypeProg(prog))

(***************************************************************************)
(* All expression nodes of an accepted program with the context each is     *)
(* typed in (for laws that speak about every node), and the honesty of the  *)
(* two AST fields that restate static facts for the evaluator of Lang.tla:   *)
(* the cell type of the untyped `mut e' (must be TypeOf(e)) and the element  *)
(* kind of `$+' / `$*' (which zero the fold starts from).  The generator's  *)
(* near-miss programs keep the annotations of the well-typed original, so   *)
(* the dynamic laws are stated for honest programs only.                     *)
(***************************************************************************)
RECURSIVE NodesOf(_, _), NodesOfKids(_, _), NodesOfStmts(_, _)
NodesOfKids(ks, i) == IF i > Len(ks) THEN <<>> ELSE NodesOf(ks[i].e, ks[i].cx) \o NodesOfKids(ks, i + 1)
NodesOf(e, cx) ==
  <<Kid(e, cx)>>
  \o NodesOfKids(Kids(e, cx), 1)
  \o NodesOfKids(Kids2(e, cx, TypeKids(Kids(e, cx))), 1)
  \o (IF OwnsBody(e) THEN NodesOfStmts(e.body, BodyCx(e, cx)) ELSE <<>>)
NodesOfStmts(ss, cx) ==
  IF ss = <<>> THEN <<>>
  ELSE NodesOf(Target(Head(ss)), StmtCx(Head(ss), cx))
       \o (IF IsRej(TypeStmts(<<Head(ss)>>, cx)) THEN <<>>
           ELSE NodesOfStmts(Tail(ss), [cx EXCEPT !.env = TypeStmts(<<Head(ss)>>, cx).env]))
NodesOfProg(prog) == NodesOfStmts(prog, Cx(InitTEnv, NoneV, FALSE))

HonestNode(n) ==
  CASE n.e.k = "mut" /\ "u" \in DOMAIN n.e -> Unwire(n.e.ty) = TypeOf(n.e.e, n.cx)
    [] n.e.k = "red" /\ n.e.op \in {"$+", "$*"} ->
         LET t == TypeOf(n.e, n.cx) IN
         (t = TInt => n.e.ek = "int") /\ (t = TFloat => n.e.ek = "float") /\ (t = TString => n.e.ek = "string")
    [] OTHER -> TRUE
HonestAnnotations(prog) == LET ns == NodesOfProg(prog) IN \A i \in 1..Len(ns) : HonestNode(ns[i])

(***************************************************************************)
(* Sensitivity to constant folding (named differences D1, D2, D5).          *)
(* ConstE(e, K): e may fold to a constant when the names in K are bound to   *)
(* constants (what recreate / create_from_instructions fold: literals,       *)
(* arrays, tuples and repetitions of constants, scalar operators, indexing;  *)
(* blocks, structs, calls, cells never fold).  FoldSensitive(prog): outside  *)
(* function bodies (which are not folded when a program is checked) some     *)
(* `if' has a condition, or some index expression has operands, that may     *)
(* fold.  An over-approximation: names bound by constructs are not           *)
(* constants, a name re-bound to a non-constant leaves K.                    *)
(***************************************************************************)
RECURSIVE ConstE(_, _), SensE(_, _), SensStmts(_, _)
ConstE(e, K) ==
  CASE e.k = "lit" -> TRUE
    [] e.k = "var" -> e.n \in K
    [] e.k \in {"arr", "tup"} -> \A i \in 1..Len(e.es) : ConstE(e.es[i], K)
    [] e.k = "rep" -> ConstE(e.v, K) /\ ConstE(e.len, K)
    [] e.k \in {"bin", "and", "or"} -> ConstE(e.l, K) /\ ConstE(e.r, K)
    [] e.k \in {"neg", "not"} -> ConstE(e.e, K)
    [] e.k = "at" -> ConstE(e.e, K) /\ ConstE(e.i, K)
    [] e.k = "if" -> ConstE(e.c, K)
    [] OTHER -> FALSE
BoundIn(kid) == {kid.cx.env[j].n : j \in 1..Len(kid.cx.env)}
SensE(e, K) ==
  LET ks == Kids(e, Cx(<<>>, NoneV, FALSE))       \* the sub-expressions; their contexts hold just the names bound for them
      sub == \E i \in 1..Len(ks) : SensE(ks[i].e, K \ BoundIn(ks[i]))
  IN CASE e.k = "if" -> ConstE(e.c, K) \/ sub
       [] e.k = "at" -> (ConstE(e.e, K) /\ ConstE(e.i, K)) \/ sub
       [] e.k = "for" -> sub \/ SensE(e.b, K \ {e.n})
       [] e.k \in {"block", "mod", "import"} -> SensStmts(e.body, K)
       [] e.k = "fn" -> FALSE
       [] OTHER -> sub
SensStmts(ss, K) ==
  IF ss = <<>> THEN FALSE
  ELSE LET s == Head(ss) IN
       CASE s.k = "set" ->
              SensE(s.e, K) \/ SensStmts(Tail(ss), IF ConstE(s.e, K) THEN K \cup {s.n} ELSE K \ {s.n})
         [] s.k = "destruct" ->
              SensE(s.e, K) \/
              SensStmts(Tail(ss), (K \ {s.ns[i] : i \in 1..Len(s.ns)}) \cup
                                  {s.ns[i] : i \in {j \in 1..Len(s.ns) :
                                      IF s.e.k = "tup" /\ j <= Len(s.e.es) THEN ConstE(s.e.es[j], K) ELSE ConstE(s.e, K)}})
         [] s.k = "fndecl" -> SensStmts(Tail(ss), K \ {s.n})
         [] OTHER -> SensE(s, K) \/ SensStmts(Tail(ss), K)
FoldSensitive(prog) == SensStmts(prog, {})

(***************************************************************************)
(* Named difference D8: a `set' of a function literal whose body mentions    *)
(* the name being bound (syntactic, shadowing ignored: an over-approximation). *)
(***************************************************************************)
NoCx == Cx(<<>>, NoneV, FALSE)
RECURSIVE Mentions(_, _), MentionsStmts(_, _), SelfNamedE(_), SelfNamedStmts(_)
Mentions(e, n) ==
  \/ e.k = "var" /\ e.n = n
  \/ \E i \in 1..Len(Kids(e, NoCx)) : Mentions(Kids(e, NoCx)[i].e, n)
  \/ e.k = "for" /\ Mentions(e.b, n)
  \/ OwnsBody(e) /\ MentionsStmts(e.body, n)
MentionsStmts(ss, n) == \E i \in 1..Len(ss) : Mentions(Target(ss[i]), n)
SelfNamedE(e) ==
  \/ \E i \in 1..Len(Kids(e, NoCx)) : SelfNamedE(Kids(e, NoCx)[i].e)
  \/ e.k = "for" /\ SelfNamedE(e.b)
  \/ OwnsBody(e) /\ SelfNamedStmts(e.body)
SelfNamedStmts(ss) ==
  \E i \in 1..Len(ss) :
     \/ ss[i].k = "set" /\ ss[i].e.k = "fn" /\ MentionsStmts(ss[i].e.body, ss[i].n)
     \/ SelfNamedE(Target(ss[i]))
SelfNamedLiteral(prog) == SelfNamedStmts(prog)

\* type in Types.tla form -> wire form (unions as sequences, structs as sorted pair lists), for reports
RECURSIVE Wire(_)
Wire(t) ==
  CASE t.k \in {"array", "mut"} -> [k |-> t.k, e |-> Wire(t.e)]
    [] t.k = "tuple"  -> [k |-> "tuple", es |-> [i \in 1..Len(t.es) |-> Wire(t.es[i])]]
    [] t.k = "fn"     -> [k |-> "fn", ps |-> [i \in 1..Len(t.ps) |-> Wire(t.ps[i])], r |-> Wire(t.r)]
    [] t.k = "struct" -> [k |-> "struct", fs |-> LET ns == SetToSeq(DOMAIN t.fs) IN
                                               [i \in 1..Len(ns) |-> <<ns[i], Wire(t.fs[ns[i]])>>]]
    [] t.k = "multi"  -> [k |-> "multi", ms |-> LET ms == SetToSeq(t.ms) IN [i \in 1..Len(ms) |-> Wire(ms[i])]]
    [] OTHER -> [k |-> t.k]
=============================================================================
