------------------------------ MODULE MC_C07 ------------------------------
(***************************************************************************)
(* C07 — evaluation order: left to right, exactly once, short-circuit.      *)
(* Every construct with two or more sub-expressions, each operand either a  *)
(* tick t(i, v) (appends i to the log cell, yields v) or a literal (so that *)
(* the folding pass has something to fold around the ticks), at top level   *)
(* and inside a function body.  Ticks are numbered in textual order, so the *)
(* law LeftToRightOnce is: the log equals the increasing list of the ticks  *)
(* that the documentation says are evaluated (`must`).                      *)
(***************************************************************************)
EXTENDS LangAst, Json, IOUtils

CONSTANT Chunks
VARIABLE row

T(i, n) == Tick(i, WInt, I(n))
TB(i, b) == Tick(i, WBool, B(b))
L(n) == I(n)

IntOps == {"+", "-", "*", "/", "%", "**", "<<", ">>", "&", "|", "^", "==", "!=", "<", "<=", ">", ">="}
AsgOps == {"=", "+=", "-=", "*=", "/=", "%=", "**=", "<<=", ">>=", "&=", "|=", "^="}

\* a case: [name, pre (statements before), e (the expression under test), rty (its type), must (ticks evaluated)]
Case(name, pre, e, rty, must) == [name |-> name, pre |-> pre, e |-> e, rty |-> rty, must |-> must]

IsCmp(op) == op \in {"==", "!=", "<", "<=", ">", ">="}
BinCases ==
  {Case("bin" \o op \o "-TT", <<>>, Bin(op, T(1, 12), T(2, 2)), IF IsCmp(op) THEN WBool ELSE WInt, <<1, 2>>) : op \in IntOps}
  \cup {Case("bin" \o op \o "-TL", <<>>, Bin(op, T(1, 12), L(2)), IF IsCmp(op) THEN WBool ELSE WInt, <<1>>) : op \in IntOps}
  \cup {Case("bin" \o op \o "-LT", <<>>, Bin(op, L(12), T(1, 2)), IF IsCmp(op) THEN WBool ELSE WInt, <<1>>) : op \in IntOps}
  \cup {Case("nest" \o op, <<>>, Bin("+", Bin(op, T(1, 12), T(2, 2)), Bin("-", T(3, 1), Bin("*", L(2), T(4, 3)))), WInt, <<1, 2, 3, 4>>)
          : op \in {"+", "*", "-", "<<"}}

LogicCases ==
  {Case("and-" \o ToString(a) \o ToString(b), <<>>, AndE(TB(1, a), TB(2, b)), WBool, IF a THEN <<1, 2>> ELSE <<1>>) : a \in BOOLEAN, b \in BOOLEAN}
  \cup {Case("or-" \o ToString(a) \o ToString(b), <<>>, OrE(TB(1, a), TB(2, b)), WBool, IF a THEN <<1>> ELSE <<1, 2>>) : a \in BOOLEAN, b \in BOOLEAN}
  \cup {Case("and-lit-" \o ToString(a), <<>>, AndE(B(a), TB(1, TRUE)), WBool, IF a THEN <<1>> ELSE <<>>) : a \in BOOLEAN}
  \* a literal RIGHT operand never excuses the left one
  \cup {Case("and-rlit-" \o ToString(a) \o ToString(b), <<>>, AndE(TB(1, a), B(b)), WBool, <<1>>) : a \in BOOLEAN, b \in BOOLEAN}
  \cup {Case("or-rlit-" \o ToString(a) \o ToString(b), <<>>, OrE(TB(1, a), B(b)), WBool, <<1>>) : a \in BOOLEAN, b \in BOOLEAN}
  \cup {Case("or-lit-" \o ToString(a), <<>>, OrE(B(a), TB(1, TRUE)), WBool, IF a THEN <<>> ELSE <<1>>) : a \in BOOLEAN}
  \cup {Case("and-or-" \o ToString(a) \o ToString(b), <<>>, OrE(AndE(TB(1, a), TB(2, b)), TB(3, TRUE)), WBool,
             IF a THEN (IF b THEN <<1, 2>> ELSE <<1, 2, 3>>) ELSE <<1, 3>>) : a \in BOOLEAN, b \in BOOLEAN}

F2 == FnDecl("f2", <<P("a", WInt), P("b", WInt)>>, WInt, <<Ret(Bin("-", V("a"), V("b")))>>)
FnTy2 == WFn(<<WInt, WInt>>, WInt)
Add2 == FnE(<<P("a", WInt), P("b", WInt)>>, WInt, <<Ret(Bin("+", V("a"), V("b")))>>)
IsBig == FnE(<<P("a", WInt)>>, WBool, <<Ret(Bin(">", V("a"), I(1)))>>)
Dbl == FnE(<<P("a", WInt)>>, WInt, <<Ret(Bin("*", V("a"), I(2)))>>)
Arr123 == ArrE(<<I(1), I(2), I(3)>>)

DataCases == {
  Case("call", <<F2>>, CallE(Tick(1, FnTy2, V("f2")), <<T(2, 9), T(3, 4)>>), WInt, <<1, 2, 3>>),
  Case("call-lit", <<F2>>, CallE(V("f2"), <<T(1, 9), L(4)>>), WInt, <<1>>),
  Case("array", <<>>, ArrE(<<T(1, 5), T(2, 6), T(3, 7)>>), WArr(WInt), <<1, 2, 3>>),
  Case("array-lit", <<>>, ArrE(<<L(5), T(1, 6), L(7), T(2, 8)>>), WArr(WInt), <<1, 2>>),
  Case("tuple", <<>>, TupE(<<T(1, 5), T(2, 6), T(3, 7)>>), WTup(<<WInt, WInt, WInt>>), <<1, 2, 3>>),
  Case("struct", <<>>, StructE(<< <<"b", T(1, 5)>>, <<"a", T(2, 6)>>, <<"c", T(3, 7)>> >>),
       WStruct(<< <<"a", WInt>>, <<"b", WInt>>, <<"c", WInt>> >>), <<1, 2, 3>>),
  \* a field named twice: both initialisers run, in source order, the later value is kept
  Case("struct-repeated-field", <<>>, StructE(<< <<"a", T(1, 5)>>, <<"b", T(2, 6)>>, <<"a", T(3, 7)>> >>),
       WStruct(<< <<"a", WInt>>, <<"b", WInt>> >>), <<1, 2, 3>>),
  Case("struct-repeated-field-adjacent", <<>>, StructE(<< <<"a", T(1, 5)>>, <<"a", T(2, 6)>>, <<"b", T(3, 7)>> >>),
       WStruct(<< <<"a", WInt>>, <<"b", WInt>> >>), <<1, 2, 3>>),
  Case("repeat", <<>>, RepE(T(1, 5), T(2, 2)), WArr(WInt), <<1, 2>>),
  Case("index", <<>>, At(Tick(1, WArr(WInt), Arr123), T(2, 1)), WInt, <<1, 2>>),
  Case("index-lit", <<>>, At(Arr123, T(1, 1)), WInt, <<1>>),
  \* a constant index into an array LITERAL: every element is still evaluated, once, in order
  Case("index-const-into-effectful-literal-0", <<>>, At(ArrE(<<T(1, 5), T(2, 6), T(3, 7)>>), I(0)), WInt, <<1, 2, 3>>),
  Case("index-const-into-effectful-literal-1", <<>>, At(ArrE(<<T(1, 5), T(2, 6), T(3, 7)>>), I(1)), WInt, <<1, 2, 3>>),
  Case("index-const-into-effectful-literal-neg", <<>>, At(ArrE(<<T(1, 5), T(2, 6), T(3, 7)>>), I(-1)), WInt, <<1, 2, 3>>),
  Case("tuple-access-effectful-literal", <<>>, TupAt(TupE(<<T(1, 5), T(2, 6), T(3, 7)>>), 1), WInt, <<1, 2, 3>>),
  Case("field-of-effectful-struct-literal", <<>>, Field(StructE(<< <<"a", T(1, 5)>>, <<"b", T(2, 6)>> >>), "a"), WInt, <<1, 2>>),
  Case("repeat-value-then-length", <<>>, At(RepE(T(1, 5), T(2, 2)), I(0)), WInt, <<1, 2>>),
  Case("slice4", <<>>, Slice(Tick(1, WArr(WInt), Arr123), T(2, 0), T(3, 3), T(4, 2)), WArr(WInt), <<1, 2, 3, 4>>),
  Case("slice-ab", <<>>, Slice(Tick(1, WArr(WInt), Arr123), T(2, 0), T(3, 2), NoneV), WArr(WInt), <<1, 2, 3>>),
  Case("slice-ac", <<>>, Slice(Tick(1, WArr(WInt), Arr123), T(2, 0), NoneV, T(3, 2)), WArr(WInt), <<1, 2, 3>>),
  Case("slice-bc", <<>>, Slice(Arr123, NoneV, T(1, 2), T(2, 1)), WArr(WInt), <<1, 2>>),
  Case("reduce", <<>>, ReduceE(Tick(1, WIter(WInt), IterE(Arr123)), T(2, 10), Tick(3, FnTy2, Add2)), WInt, <<1, 2, 3>>),
  Case("map", <<>>, CollectE(MapE(Tick(1, WIter(WInt), IterE(Arr123)), Tick(2, WFn(<<WInt>>, WInt), Dbl))), WArr(WInt), <<1, 2>>),
  Case("filter", <<>>, CollectE(FilterE(Tick(1, WIter(WInt), IterE(Arr123)), Tick(2, WFn(<<WInt>>, WBool), IsBig))), WArr(WInt), <<1, 2>>),
  Case("partition", <<>>, PartE(Tick(1, WIter(WInt), IterE(Arr123)), Tick(2, WFn(<<WInt>>, WBool), IsBig)), WTup(<<WArr(WInt), WArr(WInt)>>), <<1, 2>>),
  Case("index-of-call", <<F2>>, At(ArrE(<<T(1, 1), CallE(V("f2"), <<T(2, 5), T(3, 1)>>)>>), T(4, 1)), WInt, <<1, 2, 3, 4>>)
}

AsgCases ==
  {Case("asg" \o op, <<Set("c", MutE(WInt, I(12)))>>, Asg(op, Tick(1, WMut(WInt), V("c")), T(2, 2)), WInt, <<1, 2>>) : op \in AsgOps}
  \cup {Case("asg-lit" \o op, <<Set("c", MutE(WInt, I(12)))>>, Asg(op, V("c"), T(1, 2)), WInt, <<1>>) : op \in {"=", "+=", "<<="}}
  \* the value is computed from the content at the moment of the update: the rhs writes the cell first
  \cup {Case("asg-rhs-writes" \o op, <<Set("c", MutE(WInt, I(12)))>>,
             Asg(op, Tick(1, WMut(WInt), V("c")), Bin("+", Asg("=", V("c"), T(2, 3)), T(3, 1))), WInt, <<1, 2, 3>>) : op \in {"+=", "*=", "-="}}

\* a plain READ of a cell is an operand like any other: `*c op f()' reads c before f runs (and writes c), `f() op *c' after
Bump == FnDecl("bump", <<>>, WInt, <<Mark(2), Asg("=", V("c"), I(3)), Ret(I(2))>>)
DerefCases ==
  {Case("deref-left" \o op, <<Set("c", MutE(WInt, I(12))), Bump>>, Bin(op, Deref(V("c")), CallE(V("bump"), <<>>)), IF IsCmp(op) THEN WBool ELSE WInt, <<2>>) : op \in IntOps}
  \cup {Case("deref-right" \o op, <<Set("c", MutE(WInt, I(12))), Bump>>, Bin(op, CallE(V("bump"), <<>>), Deref(V("c"))), IF IsCmp(op) THEN WBool ELSE WInt, <<2>>) : op \in IntOps}
  \cup {Case("deref-left-eq-same", <<Set("c", MutE(WInt, I(12))), FnDecl("bump", <<>>, WInt, <<Mark(2), Asg("=", V("c"), I(5)), Ret(I(5))>>)>>,
             TupE(<<Bin("==", Deref(V("c")), CallE(V("bump"), <<>>)), Bin("!=", Deref(V("c")), CallE(V("bump"), <<>>))>>), WTup(<<WBool, WBool>>), <<2, 2>>)}
  \cup {Case("deref-in-array", <<Set("c", MutE(WInt, I(12))), Bump>>, ArrE(<<Deref(V("c")), CallE(V("bump"), <<>>), Deref(V("c"))>>), WArr(WInt), <<2>>),
        Case("deref-in-call", <<Set("c", MutE(WInt, I(12))), Bump, F2>>, CallE(V("f2"), <<Deref(V("c")), CallE(V("bump"), <<>>)>>), WInt, <<2>>),
        Case("index-left", <<Set("c", MutE(WInt, I(0))), Set("arr", ArrE(<<I(10), I(20)>>)), FnDecl("bump", <<>>, WInt, <<Mark(2), Asg("=", V("c"), I(1)), Ret(I(2))>>)>>,
             Bin("-", At(V("arr"), Deref(V("c"))), CallE(V("bump"), <<>>)), WInt, <<2>>)}

\* the arguments of a call are evaluated whatever the callee does with them (an empty body, a constant result, a hook that is
\* switched off), and an effectful operand next to an absorbing LITERAL (0 * e, e & 0, e ** 0 ..) is still evaluated
Seven == FnDecl("seven", <<P("x", WInt)>>, WInt, <<Ret(I(7))>>)
Noop2 == FnDecl("noop", <<P("x", WInt), P("y", WInt)>>, WVoid, <<>>)
Hook == FnDecl("trace", <<P("x", WInt)>>, WVoid, <<If1(V("verbose"), Block(<<Mark(9)>>))>>)
ConstCalleeCases ==
  {Case("call-constant-body", <<Seven>>, CallE(V("seven"), <<T(1, 5)>>), WInt, <<1>>),
   Case("call-constant-body-twice", <<Seven>>, Bin("+", CallE(V("seven"), <<T(1, 5)>>), CallE(V("seven"), <<T(2, 6)>>)), WInt, <<1, 2>>),
   Case("call-empty-body", <<Noop2>>, TupE(<<CallE(V("noop"), <<T(1, 5), T(2, 6)>>), T(3, 1)>>), WTup(<<WVoid, WInt>>), <<1, 2, 3>>),
   Case("call-switched-off-hook", <<Set("verbose", B(FALSE)), Hook>>, TupE(<<CallE(V("trace"), <<T(1, 5)>>), T(2, 1)>>), WTup(<<WVoid, WInt>>), <<1, 2>>),
   Case("call-switched-on-hook", <<Set("verbose", B(TRUE)), Hook>>, TupE(<<CallE(V("trace"), <<T(1, 5)>>), T(2, 1)>>), WTup(<<WVoid, WInt>>), <<1, 9, 2>>)}
  \cup {Case("absorb-lit-r" \o p[1] \o ToString(p[2]), <<>>, Bin(p[1], T(1, 5), L(p[2])), WInt, <<1>>)
          : p \in {q \in {"*", "&", "**", "|", "%", "<<", ">>", "-", "+"} \X {0, 1, -1} : ~(q[1] \in {"%", "**", "<<", ">>"} /\ q[2] \in {0, -1}) \/ (q[1] = "**" /\ q[2] = 0) \/ (q[1] \in {"<<", ">>"} /\ q[2] = 0)}}
  \cup {Case("absorb-lit-l" \o p[1] \o ToString(p[2]), <<>>, Bin(p[1], L(p[2]), T(1, 5)), WInt, <<1>>)
          : p \in {q \in {"*", "&", "**", "|", "%", "/", "<<", ">>", "-"} \X {0, 1, -1} : ~(q[1] \in {"<<", ">>"} /\ q[2] = -1)}}
  \cup {Case("absorb-lit-asg" \o op, <<Set("c", MutE(WInt, I(10)))>>, TupE(<<Bin(op, Asg("+=", V("c"), I(1)), L(0)), Deref(V("c"))>>), WTup(<<WInt, WInt>>), <<>>) : op \in {"*", "&"}}

BoolAsgCases ==
  \* a bool cell that already holds the deciding value excuses nothing: &= |= ^= evaluate their value operand, once
  {Case("asg-bool" \o op \o ToString(c) \o ToString(v), <<Set("c", MutE(WBool, B(c)))>>, Asg(op, Tick(1, WMut(WBool), V("c")), TB(2, v)), WBool, <<1, 2>>)
     : op \in {"&=", "|=", "^=", "="}, c \in BOOLEAN, v \in BOOLEAN}
  \cup {Case("asg-bool-twice" \o op \o ToString(c), <<Set("c", MutE(WBool, B(c))), Asg(op, V("c"), TB(1, c))>>, Asg(op, V("c"), TB(2, ~c)), WBool, <<1, 2>>)
     : op \in {"&=", "|="}, c \in BOOLEAN}
  \cup {Case("asg-int-absorbed" \o op, <<Set("c", MutE(WInt, I(IF op = "&=" THEN 0 ELSE -1)))>>, Asg(op, Tick(1, WMut(WInt), V("c")), T(2, 6)), WInt, <<1, 2>>)
     : op \in {"&=", "|="}}

\* control constructs are statements: the value goes through `r := <stm>`
\* boundary values of an EARLIER operand never excuse a later one (empty sequences, 0, 1, absorbing elements)
EmptyA == ArrE(<<>>)
TA(i, e) == Tick(i, WArr(WInt), e)
TS(i, cps) == Tick(i, WStr, S(cps))
ZeroCases ==
  {Case("slice-empty-arr", <<>>, Slice(TA(1, EmptyA), T(2, 0), T(3, 2), T(4, 1)), WArr(WInt), <<1, 2, 3, 4>>),
   Case("slice-empty-rep", <<>>, Slice(TA(1, RepE(I(7), I(0))), T(2, 1), T(3, 2), NoneV), WArr(WInt), <<1, 2, 3>>),
   Case("slice-empty-str", <<>>, Slice(TS(1, <<>>), T(2, 0), T(3, 2), T(4, 1)), WStr, <<1, 2, 3, 4>>),
   Case("slice-step0", <<>>, Slice(TA(1, Arr123), T(2, 0), T(3, 2), T(4, 0)), WArr(WInt), <<1, 2, 3, 4>>),
   Case("concat-empty-l", <<>>, Bin("+", TA(1, EmptyA), TA(2, Arr123)), WArr(WInt), <<1, 2>>),
   Case("concat-empty-r", <<>>, Bin("+", TA(1, Arr123), TA(2, EmptyA)), WArr(WInt), <<1, 2>>),
   Case("concat-empty-str", <<>>, Bin("+", TS(1, <<>>), TS(2, <<97>>)), WStr, <<1, 2>>),
   Case("repeat-zero", <<>>, RepE(T(1, 5), T(2, 0)), WArr(WInt), <<1, 2>>),
   Case("eq-empty", <<>>, Bin("==", TA(1, EmptyA), ArrE(<<T(2, 1)>>)), WBool, <<1, 2>>),
   Case("reduce-empty", <<>>, ReduceE(Tick(1, WIter(WInt), IterE(TA(2, EmptyA))), T(3, 10), Tick(4, FnTy2, Add2)), WInt, <<2, 1, 3, 4>>),
   Case("map-empty", <<>>, CollectE(MapE(Tick(1, WIter(WInt), IterE(TA(2, EmptyA))), Tick(3, WFn(<<WInt>>, WInt), Dbl))), WArr(WInt), <<2, 1, 3>>),
   Case("partition-empty", <<>>, PartE(Tick(1, WIter(WInt), IterE(TA(2, EmptyA))), Tick(3, WFn(<<WInt>>, WBool), IsBig)), WTup(<<WArr(WInt), WArr(WInt)>>), <<2, 1, 3>>),
   Case("eq-different-kinds", <<>>, Bin("==", Tick(1, WAny, I(1)), Tick(2, WAny, S(<<97>>))), WBool, <<1, 2>>)}
  \cup {Case("absorb" \o op \o ToString(a), <<>>, Bin(op, T(1, a), T(2, 5)), WInt, <<1, 2>>)
          : op \in {"*", "&", "**", "<<", ">>", "/", "%", "|", "-"}, a \in {0, 1}}
  \cup {Case("absorb-r" \o op \o ToString(b), <<>>, Bin(op, T(1, 5), T(2, b)), WInt, <<1, 2>>)
          : op \in {"*", "&", "**", "<<", ">>", "|", "+"}, b \in {0, 1}}
  \cup {Case("asg-absorb" \o op, <<Set("c", MutE(WInt, I(0)))>>, Asg(op, Tick(1, WMut(WInt), V("c")), T(2, 3)), WInt, <<1, 2>>)
          : op \in {"*=", "&=", "<<=", "**="}}

\* consumers applied DIRECTLY to the iterator of an array literal whose elements have effects: every element is
\* evaluated, once, in order, when the literal is (a deciding element excuses pulls, not the evaluation of the literal)
Bools3 == {<<a, b, c>> : a \in BOOLEAN, b \in BOOLEAN, c \in BOOLEAN}
BArr(t) == ArrE(<<TB(1, t[1]), TB(2, t[2]), TB(3, t[3])>>)
BStr(t) == ToString(t[1]) \o ToString(t[2]) \o ToString(t[3])
IArr(x, y, z) == ArrE(<<T(1, x), T(2, y), T(3, z)>>)
LitIterCases ==
  {Case("litarr-and-" \o BStr(t), <<>>, RedE("$&&", "bool", IterE(BArr(t))), WBool, <<1, 2, 3>>) : t \in Bools3}
  \cup {Case("litarr-or-" \o BStr(t), <<>>, RedE("$||", "bool", IterE(BArr(t))), WBool, <<1, 2, 3>>) : t \in Bools3}
  \cup {Case("litarr-and-mixed-" \o BStr(t), <<>>, RedE("$&&", "bool", IterE(ArrE(<<B(t[1]), TB(1, t[2]), B(t[3]), TB(2, TRUE)>>))), WBool, <<1, 2>>) : t \in Bools3}
  \cup {Case("litarr-or-mixed-" \o BStr(t), <<>>, RedE("$||", "bool", IterE(ArrE(<<B(t[1]), TB(1, t[2]), B(t[3]), TB(2, FALSE)>>))), WBool, <<1, 2>>) : t \in Bools3}
  \cup {Case("litarr" \o op \o "-" \o ToString(x), <<>>, RedE(op, "int", IterE(IArr(x, 0, 7))), WInt, <<1, 2, 3>>)
          : op \in {"$+", "$*", "$&", "$|"}, x \in {0, 1, -1, 6}}
  \cup {Case("litarr-collect", <<>>, CollectE(IterE(IArr(4, 5, 6))), WArr(WInt), <<1, 2, 3>>),
        Case("litarr-map", <<>>, CollectE(MapE(IterE(IArr(4, 5, 6)), Dbl)), WArr(WInt), <<1, 2, 3>>),
        Case("litarr-filter", <<>>, CollectE(FilterE(IterE(IArr(0, 5, 1)), IsBig)), WArr(WInt), <<1, 2, 3>>),
        Case("litarr-partition", <<>>, PartE(IterE(IArr(0, 5, 1)), IsBig), WTup(<<WArr(WInt), WArr(WInt)>>), <<1, 2, 3>>),
        Case("litarr-reduce", <<>>, ReduceE(IterE(IArr(4, 5, 6)), T(4, 10), Add2), WInt, <<1, 2, 3, 4>>),
        Case("litarr-tfilter", <<>>, CollectE(TFilterE(IterE(IArr(4, 5, 6)), WInt)), WArr(WInt), <<1, 2, 3>>),
        Case("litarr-first-pull", <<>>, TupAt(CallE(IterE(IArr(4, 5, 6)), <<>>), 1), WInt, <<1, 2, 3>>)}

\* [value; length]: the value expression is evaluated once, then the length, whatever the value's type and the length
MkCell == FnDecl("mk", <<P("v", WInt)>>, WMut(WInt), <<Ret(MutE(WInt, V("v")))>>)
RepVals == {
  [n |-> "cell", pre |-> <<>>, e |-> MutE(WInt, T(1, 5)), ty |-> WMut(WInt)],
  [n |-> "cellcall", pre |-> <<MkCell>>, e |-> CallE(V("mk"), <<T(1, 5)>>), ty |-> WMut(WInt)],
  [n |-> "arr", pre |-> <<>>, e |-> ArrE(<<T(1, 5)>>), ty |-> WArr(WInt)],
  [n |-> "tupcell", pre |-> <<>>, e |-> TupE(<<T(1, 5), MutE(WInt, I(0))>>), ty |-> WTup(<<WInt, WMut(WInt)>>)],
  [n |-> "celloftuple", pre |-> <<>>, e |-> MutE(WTup(<<WInt, WInt>>), TupE(<<T(1, 5), I(6)>>)), ty |-> WMut(WTup(<<WInt, WInt>>))],
  [n |-> "str", pre |-> <<>>, e |-> TS(1, <<97>>), ty |-> WStr]}
RepCases ==
  {Case("repeat-" \o v.n \o "-t" \o ToString(n), v.pre, RepE(v.e, T(2, n)), WArr(v.ty), <<1, 2>>) : v \in RepVals, n \in {0, 1, 2, 3}}
  \cup {Case("repeat-" \o v.n \o "-l" \o ToString(n), v.pre, RepE(v.e, I(n)), WArr(v.ty), <<1>>) : v \in RepVals, n \in {0, 1, 2, 3}}

CtlCase(name, pre, stm, rty, must) == [name |-> name, pre |-> pre, stm |-> stm, rty |-> rty, must |-> must]
\* a guard inside a closure over captured values: the branch the guard excludes is not evaluated — also not when the
\* closure is made (its operation would fail on the guarded value)
Guarded(name, d, op, bad) ==
  CtlCase(name,
          <<FnDecl("gd", <<P("d", WInt)>>, WFn(<<WInt>>, WInt),
                   <<Ret(FnE(<<P("n", WInt)>>, WInt, <<If1(Bin("!=", V("d"), I(bad)), Ret(Bin(op, V("n"), V("d")))), Ret(I(-1))>>))>>)>>,
          CallE(CallE(V("gd"), <<T(1, d)>>), <<T(2, 12)>>), WInt, <<1, 2>>)
CtlCases ==
  {Guarded("guard-closure-div-" \o ToString(d), d, "/", 0) : d \in {0, 3}}
  \cup {Guarded("guard-closure-mod-" \o ToString(d), d, "%", 0) : d \in {0, 5}}
  \cup {Guarded("guard-closure-shift-" \o ToString(d), d, "<<", 64) : d \in {64, 2}}
  \cup {CtlCase("if-" \o ToString(c), <<>>, If(TB(1, c), T(2, 10), T(3, 20)), WInt, IF c THEN <<1, 2>> ELSE <<1, 3>>) : c \in BOOLEAN}
  \cup {CtlCase("if-lit-" \o ToString(c), <<>>, If(B(c), T(1, 10), T(2, 20)), WInt, IF c THEN <<1>> ELSE <<2>>) : c \in BOOLEAN}
  \cup {CtlCase("ifset-" \o ToString(n), <<>>,
               IfSet("x", WInt, Tick(1, WMulti(<<WInt, WFloat>>), IF n THEN I(1) ELSE F(3)), T(2, 10), T(3, 20)), WInt,
               IF n THEN <<1, 2>> ELSE <<1, 3>>) : n \in BOOLEAN}
  \* a type test that cannot succeed (the static type of the tested expression has nothing in common with the pattern)
  \* still evaluates the tested expression, once, and then takes the other branch
  \cup {CtlCase("ifset-never", <<>>, IfSet("x", WInt, Tick(1, WStr, S(<<97>>)), T(2, 10), T(3, 20)), WInt, <<1, 3>>),
        CtlCase("ifset-never-noelse", <<Set("c", MutE(WInt, I(0)))>>,
                Block(<<IfSet("x", WStr, Asg("=", V("c"), T(1, 5)), Block(<<Mark(9)>>), NoneV), IfSet("y", WStr, Asg("+=", V("c"), T(2, 1)), Block(<<Mark(9)>>), NoneV), Deref(V("c"))>>),
                WInt, <<1, 2>>) ,
        CtlCase("ifset-never-call", <<FnDecl("nm", <<>>, WStr, <<Mark(1), Ret(S(<<97>>))>>)>>, IfSet("x", WInt, CallE(V("nm"), <<>>), T(2, 10), T(3, 20)), WInt, <<1, 3>>),
        CtlCase("whileset-never", <<>>, Block(<<WhileSet("x", WInt, Tick(1, WStr, S(<<97>>)), Block(<<Mark(9)>>)), T(2, 7)>>), WInt, <<1, 2>>),
        CtlCase("match-ty-never", <<>>, Match(Tick(1, WStr, S(<<97>>)), <<ArmTy("y", WInt, T(2, 100)), ArmTy("y", WArr(WInt), T(3, 100)), ArmOther(T(4, 300))>>), WInt, <<1, 4>>),
        CtlCase("match-val-never", <<>>, Match(Tick(1, WStr, S(<<97>>)), <<ArmVal(<<T(2, 5)>>, T(3, 100)), ArmOther(T(4, 300))>>), WInt, <<1, 2, 4>>)}
  \* ... also when the static type is only known to exclude the pattern after a closure captured the value
  \cup {CtlCase("ifset-never-captured-" \o ToString(n),
                <<Set("last", MutE(WMulti(<<WInt, WStr>>), I(0))),
                  FnDecl("mk", <<P("v", WMulti(<<WInt, WStr>>))>>, WFn(<<>>, WInt),
                         <<Ret(FnE(<<>>, WInt, <<IfSet("x", WInt, Asg("=", V("last"), V("v")), Block(<<Mark(2), Ret(V("x"))>>), NoneV), Mark(3), Ret(I(-1))>>))>>)>>,
                Block(<<Set("r", CallE(CallE(V("mk"), <<Tick(1, WMulti(<<WInt, WStr>>), IF n THEN I(4) ELSE S(<<115>>))>>), <<>>)),
                        IfSet("q", WStr, Deref(V("last")), Bin("-", V("r"), I(100)), V("r"))>>),
                WInt, IF n THEN <<1, 2>> ELSE <<1, 3>>) : n \in BOOLEAN}
  \cup {CtlCase("match-" \o ToString(s), <<>>,
               Match(T(1, s), <<ArmVal(<<T(2, 5), T(3, 6)>>, T(4, 100)), ArmVal(<<T(5, 7)>>, T(6, 200)), ArmOther(T(7, 300))>>), WInt,
               CASE s = 5 -> <<1, 2, 4>> [] s = 6 -> <<1, 2, 3, 4>> [] s = 7 -> <<1, 2, 3, 5, 6>> [] OTHER -> <<1, 2, 3, 5, 7>>)
          : s \in {5, 6, 7, 8}}
  \cup {CtlCase("match-ty-" \o ToString(n), <<>>,
               Match(Tick(1, WMulti(<<WInt, WFloat>>), IF n THEN I(1) ELSE F(3)),
                     <<ArmVal(<<T(2, 9)>>, T(3, 100)), ArmTy("y", WFloat, T(4, 200)), ArmTy("y", WInt, T(5, 300))>>), WInt,
               IF n THEN <<1, 2, 5>> ELSE <<1, 2, 4>>) : n \in BOOLEAN}

ExprProg(c, ctx) ==
  IF ctx = "top" THEN c.pre \o <<Set("r", c.e), V("r")>>
  ELSE c.pre \o <<FnDecl("g", <<>>, c.rty, <<Set("r", c.e), Ret(V("r"))>>), CallE(V("g"), <<>>)>>
CtlProg(c, ctx) ==
  IF ctx = "top" THEN c.pre \o <<Set("r", c.stm), V("r")>>
  ELSE c.pre \o <<FnDecl("g", <<>>, c.rty, <<Set("r", c.stm), Ret(V("r"))>>), CallE(V("g"), <<>>)>>

Contexts == {"top", "fn"}
AllCases ==
  {[id |-> c.name \o "/" \o ctx, suite |-> "c07", prog |-> ExprProg(c, ctx), must |-> c.must]
      : c \in BinCases \cup LogicCases \cup DataCases \cup AsgCases \cup ZeroCases \cup LitIterCases \cup RepCases \cup BoolAsgCases \cup DerefCases \cup ConstCalleeCases, ctx \in Contexts}
  \cup {[id |-> c.name \o "/" \o ctx, suite |-> "c07", prog |-> CtlProg(c, ctx), must |-> c.must]
      : c \in CtlCases, ctx \in Contexts}

CaseSeq == SetToSeq(AllCases)
N == Len(CaseSeq)
Fuel == 2000

Out(i) == Outcome(Run(CaseSeq[i].prog, Fuel))

\* the law, checked by TLC on the specification
LeftToRightOnce == row > 0 => LET o == Out(row) IN o.status = "value" /\ o.log = CaseSeq[row].must
NoStuck == row > 0 => Out(row).status \in {"value", "error"}

Init == row = 0
Next == \/ row = 0 /\ row' \in {-c : c \in 1..Chunks}
        \/ row < 0 /\ row' \in {i \in 1..N : i % Chunks = (-row) % Chunks}
Spec == Init /\ [][Next]_row

Emit ==
  /\ TLCGet("stats").distinct > 0
  /\ ndJsonSerialize(IOEnv.VERIF_OUT \o "/c07_cases.ndjson",
        [i \in 1..N |-> [id |-> CaseSeq[i].id, suite |-> "c07", prog |-> CaseSeq[i].prog, exp |-> Out(i)]])
  /\ PrintT(<<"CASES", N>>)
=============================================================================
