---------------------------- MODULE Trace_Static ----------------------------
(***************************************************************************)
(* Conformance of the static semantics (Static.tla) with the checker of the *)
(* implementation.  VERIF_IN: the cases (programs as ASTs); VERIF_REC: one   *)
(* record per case, in the same order, written by `vh statics' -- what       *)
(* Code::parse said about the rendered program:                              *)
(*   [i, id, accepted, class, st]   st = static type of the last statement   *)
(* Every record is consumed by one step (one state per record; the verdict  *)
(* is computed in the action and kept in `v'), which decides:                *)
(*   a   both accept: the relation of Static.tla must hold: EQUAL types, or  *)
(*       for a program that is FoldSensitive (named differences D1, D2, D5)  *)
(*       Matches(implementation's type, TypeOf).  Otherwise a-dev (not even  *)
(*       Matches) or a-narrow (Matches, not equal, not fold-sensitive)       *)
(*   b   the specification accepts, the implementation rejects  (DEVIATION)  *)
(*   c   the specification rejects, the implementation accepts  (DEVIATION,  *)
(*       the dangerous kind); c-fold when the program is FoldSensitive       *)
(*       (named difference D5: not a deviation, counted)                     *)
(*   b-decl / c-decl  verdicts differ on a program in which a function       *)
(*       literal is bound to a name its body mentions (named difference D8:  *)
(*       the text is a declaration; not a deviation, counted)                *)
(*   d   both reject (classes need not agree)                                *)
(*   fold  the implementation reports the run-time error of a constant       *)
(*       sub-expression that failed while being folded (named difference D4  *)
(*       of Static.tla): no static verdict to compare                        *)
(*   panic  the checker panicked (never acceptable)                          *)
(*   d-syntax  the specification rejects an AST whose rendering is not in   *)
(*       the grammar (the generator's near-miss programs put `if' / `match'  *)
(*       into operand position): both reject                                 *)
(*   tool   a program the specification accepts could not be rendered or is  *)
(*       not in the grammar; records and cases out of step                   *)
(***************************************************************************)
EXTENDS Static, Json, IOUtils

CONSTANT Chunks
VARIABLES row, v

Cases == ndJsonDeserialize(IOEnv.VERIF_IN)
Rec == ndJsonDeserialize(IOEnv.VERIF_REC)
N == Len(Cases)

FoldErrors == DocErrors
Nil == [kind |-> "nil"]

Kind(c, r, i, sacc, it, st, sens, decl) ==
  IF r.i # i \/ r.id # c.id THEN "tool"                                 \* records and cases out of step
  ELSE IF r.class = "render" THEN "tool"
  ELSE IF r.class = "syntax" THEN (IF sacc THEN "tool" ELSE "d-syntax")
  ELSE IF r.class \in {"parse-panic", "type-panic"} THEN "panic"
  ELSE IF ~r.accepted /\ r.class \in FoldErrors THEN "fold"
  ELSE IF sacc /\ r.accepted THEN (IF it = st \/ (sens /\ Matches(it, st)) THEN "a"
                                    ELSE IF Matches(it, st) THEN "a-narrow" ELSE "a-dev")
  ELSE IF sacc THEN (IF decl THEN "b-decl" ELSE "b")
  ELSE IF r.accepted THEN (IF decl THEN "c-decl" ELSE IF sens THEN "c-fold" ELSE "c")
  ELSE "d"
\* tp: the specification's judgement of the case's program
Verdict(c, r, i, tp) ==
  [kind |-> Kind(c, r, i, ~IsRej(tp), IF r.accepted THEN Unwire(r.st) ELSE TNever, IF IsRej(tp) THEN TNever ELSE tp.t, FoldSensitive(c.prog), SelfNamedLiteral(c.prog)),
   eq |-> ~IsRej(tp) /\ r.accepted /\ Unwire(r.st) = tp.t,
   sens |-> FoldSensitive(c.prog), i |-> i, id |-> c.id, neg |-> c.negative,
   spec |-> IF IsRej(tp) THEN [k |-> "reject", why |-> tp.why] ELSE Wire(tp.t),
   impl |-> IF r.accepted THEN r.st ELSE [k |-> "reject", why |-> r.class]]
Judge(i) == Verdict(Cases[i], Rec[i], i, TypeProg(Cases[i].prog))

Dev == PrintT(<<"DEV", ToJson(v)>>) /\ FALSE

Lockstep   == row > 0 => v.kind # "tool" \/ Dev
NoPanic    == row > 0 => v.kind # "panic" \/ Dev
RelationA  == row > 0 => v.kind \notin {"a-dev", "a-narrow"} \/ Dev
NoSpecOnly == row > 0 => v.kind # "b" \/ Dev          \* kind (b)
NoImplOnly == row > 0 => v.kind # "c" \/ Dev          \* kind (c)
\* reports (always true): the kind of every record; accepted pairs whose types are related but not equal
Tally  == row > 0 => PrintT(<<"K", v.kind, v.eq, v.sens>>)
Wider  == (row > 0 /\ v.kind = "a" /\ ~v.eq) => PrintT(<<"WIDER", ToJson(v)>>)

Init == row = 0 /\ v = Nil
Next == \/ row = 0 /\ row' \in {-c : c \in 1..Chunks} /\ v' = Nil
        \/ row < 0 /\ \E i \in {j \in 1..N : j % Chunks = (-row) % Chunks} : row' = i /\ v' = Judge(i)
Spec == Init /\ [][Next]_<<row, v>>

\* every record consumed: one state per record (plus the root and the chunk states)
Consumed ==
  /\ Len(Rec) = N
  /\ TLCGet("stats").distinct = N + Chunks + 1
  /\ PrintT(<<"RECORDS", N>>)
=============================================================================
