------------------------------ MODULE MC_C13 ------------------------------
(***************************************************************************)
(* C13 — mutable cells: shared identity, typed content, atomic update value *)
(* Histories of up to two assignments over a cell of every declared type,   *)
(* written through every kind of alias (binding copy, array element, struct *)
(* field, closure capture, function parameter, cell inside a cell), with    *)
(* every assignment operator and failing operands; after every step the     *)
(* cell is read through ALL aliases.                                        *)
(* Laws checked by TLC on the specification: AliasesAgree, CellTyped,       *)
(* AssignYieldsStored, FailureLeavesContent, FreshCells.                    *)
(***************************************************************************)
EXTENDS LangAst, Json, IOUtils

CONSTANTS Chunks, Full
VARIABLE row

IF_ == WMulti(<<WInt, WFloat>>)
\* cell type, initial value, pool of (operator, operand, operand type)
Op(o, v) == [o |-> o, v |-> v]
Pools == <<
  [ty |-> WInt, init |-> I(12), ops |-> <<Op("=", I(5)), Op("+=", I(3)), Op("-=", I(20)), Op("*=", I(4)), Op("/=", I(5)),
       Op("/=", I(0)), Op("%=", I(5)), Op("%=", I(0)), Op("**=", I(2)), Op("**=", I(-1)), Op("<<=", I(2)), Op("<<=", I(64)),
       Op(">>=", I(1)), Op(">>=", I(-1)), Op("&=", I(6)), Op("|=", I(1)), Op("^=", I(7))>>],
  [ty |-> WFloat, init |-> F(3), ops |-> <<Op("=", F(5)), Op("+=", F(1)), Op("-=", F(4))>>],
  [ty |-> IF_, init |-> I(1), ops |-> <<Op("=", F(3)), Op("=", I(7))>>],
  [ty |-> WArr(WInt), init |-> ArrE(<<I(1)>>), ops |-> <<Op("+=", ArrE(<<I(2), I(3)>>)), Op("=", ArrE(<<>>)), Op("+=", ArrE(<<>>))>>],
  [ty |-> WStr, init |-> S(<<97>>), ops |-> <<Op("+=", S(<<98>>)), Op("=", S(<<>>))>>],
  [ty |-> WBool, init |-> B(TRUE), ops |-> <<Op("&=", B(FALSE)), Op("|=", B(TRUE)), Op("^=", B(TRUE)), Op("=", B(FALSE))>>],
  [ty |-> WAny, init |-> I(1), ops |-> <<Op("=", S(<<115>>)), Op("=", ArrE(<<I(1)>>)), Op("=", Unit)>>]
>>

Aliases == <<"c", "a", "arr", "st", "cc", "par", "rp">>
\* the cell reached through an alias
Via(al) == CASE al = "c" -> V("c") [] al = "a" -> V("a") [] al = "arr" -> At(V("arr"), I(0))
             [] al = "st" -> Field(V("st"), "f") [] al = "cc" -> Deref(V("cc")) [] al = "par" -> V("c")
             [] al = "rp" -> At(V("rp"), I(1))        \* [c; 3]: three references to the one cell

Setup(p) == <<
  Set("c", MutE(p.ty, p.init)),
  Set("a", V("c")),
  Set("arr", ArrE(<<V("c")>>)),
  Set("st", StructE(<< <<"f", V("c")>> >>)),
  Set("cc", MutE(WMut(p.ty), V("c"))),
  Set("clo", FnE(<<>>, p.ty, <<Ret(Deref(V("c")))>>)),
  Set("rp", RepE(V("c"), I(3))),
  Set("other", MutE(p.ty, p.init))         \* a second cell with equal content: must stay untouched
>>
ReadAll == TupE(<<Deref(V("c")), Deref(V("a")), Deref(At(V("arr"), I(0))), Deref(Field(V("st"), "f")),
                  Deref(Deref(V("cc"))), CallE(V("clo"), <<>>), Deref(At(V("rp"), I(2))), Deref(V("other"))>>)

\* one step: the assignment (through the alias; "par" = inside a function that got the cell as argument)
Step(p, al, op, i) ==
  IF al = "par"
  THEN <<FnDecl(("w" \o ToString(i)), <<P("q", WMut(p.ty))>>, WAny, <<Ret(Asg(op.o, V("q"), Hide(WAny, op.v)))>>),
         Set(("y" \o ToString(i)), CallE(V("w" \o ToString(i)), <<V("c")>>)),
         Set(("s" \o ToString(i)), ReadAll)>>
  ELSE <<Set(("y" \o ToString(i)), Asg(op.o, Via(al), op.v)),
         Set(("s" \o ToString(i)), ReadAll)>>

\* "par" writes an any-typed hidden operand: only legal for `=` into a cell of type any; keep it typed instead
StepTyped(p, al, op, i) ==
  IF al = "par"
  THEN <<FnDecl(("w" \o ToString(i)), <<P("q", WMut(p.ty))>>, WVoid, <<Asg(op.o, V("q"), op.v), Ret0>>),
         Set(("y" \o ToString(i)), Block(<<CallE(V("w" \o ToString(i)), <<V("c")>>), Deref(V("c"))>>)),
         Set(("s" \o ToString(i)), ReadAll)>>
  ELSE Step(p, al, op, i)

Hist1 == {[p |-> pi, steps |-> <<[al |-> al, op |-> oi]>>] :
            pi \in 1..Len(Pools), al \in 1..Len(Aliases), oi \in 1..30} 
Valid(h) == \A s \in {h.steps[j] : j \in 1..Len(h.steps)} : s.op <= Len(Pools[h.p].ops)
AliasSubset == IF Full THEN 1..Len(Aliases) ELSE {1, 3, 6, 7}
Hist2 == {[p |-> pi, steps |-> <<[al |-> a1, op |-> o1], [al |-> a2, op |-> o2]>>] :
            pi \in 1..Len(Pools), a1 \in AliasSubset, a2 \in {1, 5}, o1 \in 1..17, o2 \in 1..17}
Hists == {h \in Hist1 \cup Hist2 : Valid(h)}

Prog(h) ==
  LET p == Pools[h.p]
      RECURSIVE Steps(_)
      Steps(i) == IF i > Len(h.steps) THEN <<>>
                  ELSE StepTyped(p, Aliases[h.steps[i].al], p.ops[h.steps[i].op], i) \o Steps(i + 1)
  IN Setup(p) \o <<Set("s0", ReadAll)>> \o Steps(1) \o <<Deref(V("c"))>>

\* Negative cases: an assignment whose operand has a wrong-but-related type.  The documentation's operator
\* tables do not list these combinations, so the checker is expected to refuse them; if an implementation
\* accepts one, the run is still judged event by event (the stored value must belong to the declared type).
Neg(ty, init, op, rty, rhs) == [ty |-> ty, init |-> init, op |-> op, rty |-> rty, rhs |-> rhs]
NegPool == {
  Neg(WArr(WInt), ArrE(<<I(1)>>), "+=", WArr(WFloat), ArrE(<<F(5)>>)),
  Neg(WArr(WInt), ArrE(<<I(1)>>), "+=", WArr(WStr), ArrE(<<S(<<97>>)>>)),
  Neg(WArr(WInt), ArrE(<<I(1)>>), "+=", WArr(IF_), ArrE(<<I(2), F(5)>>)),
  Neg(WArr(WInt), ArrE(<<I(1)>>), "=", WArr(WFloat), ArrE(<<F(5)>>)),
  Neg(WArr(WInt), ArrE(<<I(1)>>), "=", WArr(WAny), ArrE(<<S(<<97>>)>>)),
  Neg(WInt, I(1), "=", WFloat, F(3)),
  Neg(WInt, I(1), "=", IF_, F(3)),
  Neg(WInt, I(1), "+=", WFloat, F(3)),
  Neg(WInt, I(1), "=", WVoid, Unit),
  Neg(WFloat, F(3), "+=", WInt, I(1)),
  Neg(WFloat, F(3), "=", WInt, I(1)),
  Neg(WStr, S(<<97>>), "+=", WInt, I(1)),
  Neg(WStr, S(<<97>>), "=", WArr(WStr), ArrE(<<S(<<97>>)>>)),
  Neg(WBool, B(TRUE), "&=", WInt, I(1)),
  Neg(WInt, I(6), "&=", WBool, B(TRUE)),
  Neg(WInt, I(6), "<<=", WFloat, F(2)),
  Neg(IF_, I(1), "+=", WInt, I(1)),
  Neg(IF_, I(1), "=", WStr, S(<<97>>)),
  Neg(WArr(IF_), ArrE(<<I(1)>>), "=", WArr(WStr), ArrE(<<S(<<97>>)>>)),
  Neg(WArr(IF_), ArrE(<<I(1)>>), "+=", WArr(WStr), ArrE(<<S(<<97>>)>>)),
  Neg(WMut(WInt), MutE(WInt, I(1)), "=", WMut(WFloat), MutE(WFloat, F(3))),
  Neg(WMut(IF_), MutE(IF_, I(1)), "=", WMut(WInt), MutE(WInt, I(3)))
}
NegProg(n, al) ==
  Setup([ty |-> n.ty, init |-> n.init]) \o
  (IF al = "par"
   THEN <<FnDecl("w1", <<P("q", WMut(n.ty)), P("v", n.rty)>>, WVoid, <<Asg(n.op, V("q"), V("v")), Ret0>>),
          CallE(V("w1"), <<V("c"), n.rhs>>), Set("s1", ReadAll), I(0)>>
   ELSE <<Set("y1", Asg(n.op, Via(al), Hide(n.rty, n.rhs))), Set("s1", ReadAll), I(0)>>)
NegCases == {[n |-> n, al |-> al] : n \in NegPool, al \in {"c", "arr", "st", "par"}}
\* a cell of a NARROW type handed to something that holds cells of a WIDER type (parameter, cell of cells, closure result,
\* array of cells), written there with a value outside the narrow type, then used through its own name as what it was
\* declared to be: refused; if accepted, the run must not go wrong
WidenUse(ty) == CASE ty = WInt -> Bin("*", Deref(V("c")), I(2)) [] ty = WStr -> Bin("+", Deref(V("c")), S(<<97>>))
                  [] ty = WArr(WInt) -> Bin("+", At(Deref(V("c")), I(0)), I(1)) [] OTHER -> Deref(V("c"))
WidenNeg(ty, init, wide, other, route) ==
  <<Set("c", MutE(ty, init))>> \o
  (CASE route = "param" -> <<FnDecl("w1", <<P("q", WMut(wide))>>, WVoid, <<Asg("=", V("q"), other), Ret0>>), CallE(V("w1"), <<V("c")>>)>>
     [] route = "cellcell" -> <<Set("cc", MutE(WMut(wide), V("c"))), Asg("=", Deref(V("cc")), other)>>
     [] route = "array" -> <<Set("arr", Hide(WArr(WMut(wide)), ArrE(<<V("c")>>))), Asg("=", At(V("arr"), I(0)), other)>>
     [] route = "closure" -> <<FnDecl("get", <<>>, WMut(wide), <<Ret(V("c"))>>), Asg("=", CallE(V("get"), <<>>), other)>>)
  \o <<Set("z", WidenUse(ty)), V("z")>>
\* a handle whose type is a UNION of cell types (element of a mixed cell array, `for' variable over it, union-typed
\* parameter) may only be assigned a value EVERY member can store
SA == WStruct(<< <<"a", WInt>> >>)
SAB == WStruct(<< <<"a", WInt>>, <<"b", WInt>> >>)
UnionCellNeg(route) ==
  IF route = "callee-union-struct" THEN
    \* a callee that is one of two functions over DIFFERENT struct parameters accepts only what both accept
    <<FnDecl("f1", <<P("p", SA)>>, WInt, <<Ret(Field(V("p"), "a"))>>), FnDecl("f2", <<P("p", SAB)>>, WInt, <<Ret(Field(V("p"), "b"))>>),
      FnDecl("pick", <<P("c", WBool)>>, WMulti(<<WFn(<<SA>>, WInt), WFn(<<SAB>>, WInt)>>), <<If1(V("c"), Ret(V("f1"))), Ret(V("f2"))>>),
      Set("z", CallE(CallE(V("pick"), <<Hide(WBool, B(FALSE))>>), <<StructE(<< <<"a", I(1)>> >>)>>)), V("z")>>
  ELSE IF route = "compound-value-narrow" THEN
    \* `c += [1.5]' on a cell of [int|float] yields the whole new content, not a [float]
    <<Set("c", MutE(WArr(WMulti(<<WInt, WFloat>>)), ArrE(<<I(1)>>))), Set("e", MutE(WArr(WFloat), ArrE(<<>>))),
      Asg("=", V("e"), Asg("+=", V("c"), ArrE(<<F(3)>>))), Set("z", Bin("+", At(Deref(V("e")), I(0)), F(1))), V("z")>>
  ELSE IF route = "compound-value-narrow-cell" THEN
    <<Set("c", MutE(WArr(WMulti(<<WInt, WFloat>>)), ArrE(<<I(1)>>))),
      Set("z", Bin("+", At(Asg("+=", V("c"), ArrE(<<F(3)>>)), I(0)), F(1))), V("z")>>
  ELSE IF route \in {"deref-into-string-cell", "deref-as-int", "deref-into-int-param", "deref-element-into-int-cell"} THEN
    \* what is READ through a union of cell types (mut int | mut float) is an int|float: it cannot be stored in a string cell,
    \* used as an int, passed as an int
    <<Set("hits", MutE(WInt, I(0))), Set("ratio", MutE(WFloat, F(5))),
      Set("c", If(Hide(WBool, B(FALSE)), Block(<<V("hits")>>), Block(<<V("ratio")>>)))>> \o
    (CASE route = "deref-into-string-cell" -> <<Set("d", MutE(WStr, S(<<115>>))), Asg("=", V("d"), Deref(V("c"))), Set("z", Bin("+", Deref(V("d")), S(<<33>>)))>>
       [] route = "deref-as-int" -> <<Set("z", Bin("<<", I(1), Deref(V("c"))))>>
       [] route = "deref-into-int-param" -> <<FnDecl("sq", <<P("n", WInt)>>, WInt, <<Ret(Bin("*", V("n"), V("n")))>>), Set("z", CallE(V("sq"), <<Deref(V("c"))>>))>>
       [] route = "deref-element-into-int-cell" -> <<Set("cs", ArrE(<<V("hits"), V("ratio")>>)), Set("d", MutE(WInt, I(0))), Asg("=", V("d"), Deref(At(V("cs"), I(1)))), Set("z", Bin("%", Deref(V("d")), I(2)))>>)
    \o <<V("z")>>
  ELSE
  <<Set("hits", MutE(WInt, I(0))), Set("ratio", MutE(WFloat, F(1)))>> \o
  (CASE route = "for" -> <<For("c", IterE(ArrE(<<V("hits"), V("ratio")>>)), Block(<<Asg("=", V("c"), I(0))>>))>>
     [] route = "index" -> <<Set("cs", ArrE(<<V("hits"), V("ratio")>>)), Asg("=", At(V("cs"), I(1)), I(0))>>
     [] route = "param" -> <<FnDecl("rst", <<P("c", WMulti(<<WMut(WInt), WMut(WFloat)>>))>>, WVoid, <<Asg("=", V("c"), I(0)), Ret0>>),
                             CallE(V("rst"), <<V("ratio")>>)>>
     [] route = "compound" -> <<For("c", IterE(ArrE(<<V("hits"), V("ratio")>>)), Block(<<Asg("+=", V("c"), I(1))>>))>>)
  \o <<Set("z", Asg("+=", V("ratio"), F(1))), V("z")>>
UnionCellSeq == <<"for", "index", "param", "compound", "callee-union-struct", "compound-value-narrow", "compound-value-narrow-cell",
                  "deref-into-string-cell", "deref-as-int", "deref-into-int-param", "deref-element-into-int-cell">>
WidenSeq == SetToSeq({<<n, r>> : n \in 1..3, r \in {"param", "cellcell", "array", "closure"}})
WidenOf(n) == CASE n = 1 -> <<WInt, I(1), IF_, F(5)>> [] n = 2 -> <<WStr, S(<<98>>), WMulti(<<WStr, WInt>>), I(3)>>
                [] n = 3 -> <<WArr(WInt), ArrE(<<I(1)>>), WArr(IF_), ArrE(<<F(5)>>)>>
NegSeq == SetToSeq(NegCases)

\* FreshCells: `mut' creates a new cell EVERY time it is evaluated — in a function called twice, in a loop body,
\* typed (`mut int e') and untyped (`mut e') form, with a literal, a name bound to a literal and a hidden initial value
MutForm(u, e) == IF u THEN MutU(WInt, e) ELSE MutE(WInt, e)
InitOf(ik) == CASE ik = "lit" -> I(10) [] ik = "name" -> V("k0") [] ik = "hidden" -> Hide(WInt, I(10)) [] ik = "neg" -> I(-1) [] ik = "expr" -> Bin("+", I(4), I(6))
FreshProg(shape, u, ik) ==
  <<Set("k0", I(10))>> \o
  CASE shape = "factory" ->
         <<FnDecl("mk", <<>>, WMut(WInt), <<Ret(MutForm(u, InitOf(ik)))>>),
           Set("a", CallE(V("mk"), <<>>)), Set("b", CallE(V("mk"), <<>>)), Asg("+=", V("a"), I(5)),
           TupE(<<Deref(V("a")), Deref(V("b"))>>)>>
    [] shape = "factory-arg" ->
         <<FnDecl("mk", <<P("unused", WInt)>>, WMut(WInt), <<Set("c", MutForm(u, InitOf(ik))), Asg("+=", V("c"), V("unused")), Ret(V("c"))>>),
           Set("a", CallE(V("mk"), <<I(1)>>)), Set("b", CallE(V("mk"), <<I(2)>>)),
           TupE(<<Deref(V("a")), Deref(V("b"))>>)>>
    [] shape = "loop" ->
         <<Set("n", MutE(WInt, I(0))), Set("s", MutE(WInt, I(0))),
           While(Bin("<", Deref(V("n")), I(3)),
                 Block(<<Asg("+=", V("n"), I(1)), Set("c", MutForm(u, InitOf(ik))), Asg("+=", V("c"), Deref(V("n"))), Asg("+=", V("s"), Deref(V("c")))>>)),
           Deref(V("s"))>>
    [] shape = "closure" ->
         <<Set("mk", FnE(<<>>, WFn(<<>>, WInt), <<Set("c", MutForm(u, InitOf(ik))),
                                                  Ret(FnE(<<>>, WInt, <<Asg("+=", V("c"), I(1)), Ret(Deref(V("c")))>>))>>)),
           Set("f", CallE(V("mk"), <<>>)), Set("g", CallE(V("mk"), <<>>)),
           TupE(<<CallE(V("f"), <<>>), CallE(V("f"), <<>>), CallE(V("g"), <<>>)>>)>>
    [] shape = "array" ->
         <<Set("cs", ArrE(<<MutForm(u, InitOf(ik)), MutForm(u, InitOf(ik))>>)), Asg("+=", At(V("cs"), I(0)), I(1)),
           TupE(<<Deref(At(V("cs"), I(0))), Deref(At(V("cs"), I(1)))>>)>>
FreshExpected(shape, x) ==
  CASE shape = "factory" -> TupV(<<IntV(x + 5), IntV(x)>>)
    [] shape = "factory-arg" -> TupV(<<IntV(x + 1), IntV(x + 2)>>)
    [] shape = "loop" -> IntV(3 * x + 6)
    [] shape = "closure" -> TupV(<<IntV(x + 1), IntV(x + 2), IntV(x + 1)>>)
    [] shape = "array" -> TupV(<<IntV(x + 1), IntV(x)>>)
FreshSeq == SetToSeq({[shape |-> sh, u |-> u, ik |-> ik] :
                        sh \in {"factory", "factory-arg", "loop", "closure", "array"}, u \in BOOLEAN, ik \in {"lit", "name", "hidden", "neg", "expr"}})
FreshOut(i) == Outcome(Run(FreshProg(FreshSeq[i].shape, FreshSeq[i].u, FreshSeq[i].ik), 2000))
FreshCells == \A i \in 1..Len(FreshSeq) :
  LET o == FreshOut(i) IN
  \/ (o.status = "value" /\ o.v = FreshExpected(FreshSeq[i].shape, IF FreshSeq[i].ik = "neg" THEN -1 ELSE 10))
  \/ (PrintT(<<"FRESHCELLS", FreshSeq[i], o>>) /\ FALSE)

\* a compound assignment whose RIGHT operand writes the same cell (nested assignment, through an alias, through a
\* closure): the update is computed from the content at the moment of the update, and the result is what was stored
RhsOps == <<"+=", "-=", "*=", "&=", "|=", "^=", "/=", "%=", "<<=", ">>=">>
RhsWrites(route, op) ==
  <<Set("c", MutE(WInt, I(1))), Set("al", V("c")), Set("cs", ArrE(<<V("c")>>)),
    Set("w", FnE(<<>>, WInt, <<Ret(Asg("=", V("c"), I(3)))>>)),
    Set("r", Asg(op, V("c"), CASE route = "nested" -> Asg("=", V("c"), I(3))
                               [] route = "alias" -> Asg("=", V("al"), I(3))
                               [] route = "array" -> Asg("=", At(V("cs"), I(0)), I(3))
                               [] route = "closure" -> CallE(V("w"), <<>>)
                               [] route = "compound" -> Asg("+=", V("c"), I(2)))),
    TupE(<<V("r"), Deref(V("c"))>>)>>
RhsSeq == SetToSeq({<<rt, o>> : rt \in {"nested", "alias", "array", "closure", "compound"}, o \in 1..Len(RhsOps)})
RhsOut(i) == Outcome(Run(RhsWrites(RhsSeq[i][1], RhsOps[RhsSeq[i][2]]), 2000))
RhsLaw == \A i \in 1..Len(RhsSeq) :
  LET o == RhsOut(i)
      r == ApplyBin(SubSeq(RhsOps[RhsSeq[i][2]], 1, Len(RhsOps[RhsSeq[i][2]]) - 1), IntV(3), IntV(3)) IN
  \/ (o.status = "value" /\ o.v.es[1] = o.v.es[2] /\ o.v.es[1] = r)
  \/ (PrintT(<<"RHSLAW", RhsSeq[i], o>>) /\ FALSE)

\* `mut e' without a declared type: the cell's type is the STATIC type of e, not the type of the value e happens to
\* have — a later assignment of another member of that type is legal, and the cell still is a `mut' of the wide type
WideProg(k) ==
  CASE k = "union-param" ->
         <<FnDecl("mkc", <<P("p", IF_)>>, WTup(<<WInt, IF_>>),
                  <<Set("c", MutU(IF_, V("p"))), Asg("=", V("c"), F(5)),
                    Set("t", IfSet("d", WMut(IF_), V("c"), I(1), I(0))), Ret(TupE(<<V("t"), Deref(V("c"))>>))>>),
           CallE(V("mkc"), <<I(1)>>)>>
    [] k = "any-param" ->
         <<FnDecl("mkc", <<P("p", WAny)>>, WTup(<<WInt, WAny>>),
                  <<Set("c", MutU(WAny, V("p"))), Asg("=", V("c"), S(<<115>>)),
                    Set("t", IfSet("d", WMut(WAny), V("c"), I(1), I(0))), Ret(TupE(<<V("t"), Deref(V("c"))>>))>>),
           CallE(V("mkc"), <<I(1)>>)>>
    [] k = "empty-array" ->
         <<Set("e", Hide(WArr(WInt), ArrE(<<>>))), Set("c", MutU(WArr(WInt), V("e"))), Asg("+=", V("c"), ArrE(<<I(1)>>)),
           Set("t", IfSet("d", WMut(WArr(WInt)), V("c"), I(1), I(0))), TupE(<<V("t"), Deref(V("c"))>>)>>
    \* the untyped cell is made INSIDE a closure from a captured name of wider static type (the specialisation pass
    \* knows the value; the cell must still be a cell of the static type)
    [] k = "captured-union" ->
         <<Set("u", Hide(IF_, I(1))), FnDecl("make", <<>>, WMut(IF_), <<Ret(MutU(IF_, V("u")))>>),
           Set("c", CallE(V("make"), <<>>)), Asg("=", V("c"), F(5)),
           Set("t", IfSet("d", WMut(IF_), V("c"), I(1), I(0))), TupE(<<V("t"), Deref(V("c"))>>)>>
    [] k = "captured-union-in-map" ->
         <<Set("u", Hide(IF_, I(1))),
           Set("cs", CollectE(MapE(IterE(ArrE(<<I(7), I(8)>>)), FnE(<<P("q", WInt)>>, WMut(IF_), <<Ret(MutU(IF_, V("u")))>>)))),
           Asg("=", At(V("cs"), I(0)), F(5)),
           Set("t", IfSet("d", WArr(WMut(IF_)), V("cs"), I(1), I(0))), TupE(<<V("t"), Deref(At(V("cs"), I(0)))>>)>>
    [] k = "hidden-union" ->
         <<Set("u", Hide(IF_, I(1))), Set("c", MutU(IF_, V("u"))), Set("al", V("c")), Asg("=", V("al"), F(5)),
           Set("t", IfSet("d", WMut(WInt), V("c"), I(1), I(0))), TupE(<<V("t"), Deref(V("c"))>>)>>
WideSeq == <<"union-param", "any-param", "empty-array", "hidden-union", "captured-union", "captured-union-in-map">>
WideOut(i) == Outcome(Run(WideProg(WideSeq[i]), 2000))
WideLaw == \A i \in 1..Len(WideSeq) :
  \/ (WideOut(i).status = "value" /\ WideOut(i).v.es[1] = IntV(IF WideSeq[i] = "hidden-union" THEN 0 ELSE 1))
  \/ (PrintT(<<"WIDELAW", WideSeq[i], WideOut(i)>>) /\ FALSE)

\* A `mut any' cell may hold any value, so it may hold a cell - itself included.  `c = v' stores v and yields v whatever v is:
\* after `c = c' the content of c IS c (cells compare by identity), the assignment yields c, and a write through what is
\* read from c lands in c.
SelfProg(k) ==
  CASE k = "direct" ->
         <<Set("c", MutE(WAny, I(0))), Set("y", Asg("=", V("c"), V("c"))),
           TupE(<<Bin("==", Deref(V("c")), V("c")), Bin("==", V("y"), V("c")), Bin("!=", Deref(V("c")), I(0))>>)>>
    [] k = "alias" ->
         <<Set("c", MutE(WAny, I(0))), Set("d", V("c")), Set("y", Asg("=", V("d"), V("c"))),
           TupE(<<Bin("==", Deref(V("c")), V("c")), Bin("==", V("y"), V("d")), Bin("==", Deref(V("d")), V("c"))>>)>>
    [] k = "param" ->
         <<Set("c", MutE(WAny, I(0))), FnDecl("store", <<P("a", WMut(WAny)), P("b", WAny)>>, WAny, <<Ret(Asg("=", V("a"), V("b")))>>),
           Set("y", CallE(V("store"), <<V("c"), V("c")>>)),
           TupE(<<Bin("==", Deref(V("c")), V("c")), Bin("==", V("y"), V("c")), Bin("!=", Deref(V("c")), I(0))>>)>>
    [] k = "write-through" ->
         <<Set("c", MutE(WAny, I(1))), Asg("=", V("c"), V("c")),
           IfSet("x", WMut(WAny), Deref(V("c")), Block(<<Asg("=", V("x"), I(7))>>), NoneV),
           TupE(<<Bin("==", Deref(V("c")), I(7)), B(TRUE), B(TRUE)>>)>>
    [] k = "in-array" ->
         <<Set("c", MutE(WAny, I(0))), Asg("=", V("c"), ArrE(<<V("c")>>)),
           IfSet("arr", WArr(WAny), Deref(V("c")), Block(<<TupE(<<Bin("==", At(V("arr"), I(0)), V("c")), B(TRUE), B(TRUE)>>)>>),
                 Block(<<TupE(<<B(FALSE), B(FALSE), B(FALSE)>>)>>))>>
    [] k = "two-cells" ->
         <<Set("a", MutE(WAny, I(1))), Set("b", MutE(WAny, I(2))), Asg("=", V("a"), V("b")), Set("y", Asg("=", V("b"), V("a"))),
           TupE(<<Bin("==", Deref(V("a")), V("b")), Bin("==", Deref(V("b")), V("a")), Bin("==", V("y"), V("a"))>>)>>
    [] k = "hidden-callee" ->
         <<Set("c", MutE(WAny, I(0))), FnDecl("idc", <<P("v", WMut(WAny))>>, WMut(WAny), <<Ret(V("v"))>>),
           Set("y", Asg("=", CallE(V("idc"), <<V("c")>>), CallE(V("idc"), <<V("c")>>))),
           TupE(<<Bin("==", Deref(V("c")), V("c")), Bin("==", V("y"), V("c")), B(TRUE)>>)>>
SelfSeq == <<"direct", "alias", "param", "write-through", "in-array", "two-cells", "hidden-callee">>
SelfOut(i) == Outcome(Run(SelfProg(SelfSeq[i]), 2000))
SelfLaw == \A i \in 1..Len(SelfSeq) :
  \/ (SelfOut(i).status = "value" /\ SelfOut(i).v = TupV(<<BoolV(TRUE), BoolV(TRUE), BoolV(TRUE)>>))
  \/ (PrintT(<<"SELFLAW", SelfSeq[i], SelfOut(i)>>) /\ FALSE)

\* The target of an assignment is evaluated BEFORE the value: when evaluating the value changes what the target expression
\* would denote (an index held in a cell, a cell of cells re-pointed), the cell that was denoted first is the one updated.
AllAsgOps == <<"=", "+=", "-=", "*=", "/=", "%=", "**=", "<<=", ">>=", "&=", "|=", "^=">>
LhsMoves(route, op) ==
  CASE route = "index" ->
         <<Set("arr", ArrE(<<MutE(WInt, I(10)), MutE(WInt, I(20))>>)), Set("i", MutE(WInt, I(0))),
           FnDecl("bump", <<>>, WInt, <<Asg("=", V("i"), I(1)), Ret(I(2))>>),
           Set("y", Asg(op, At(V("arr"), Deref(V("i"))), CallE(V("bump"), <<>>))),
           TupE(<<Deref(At(V("arr"), I(0))), Deref(At(V("arr"), I(1))), V("y")>>)>>
    [] route = "cell-of-cells" ->
         <<Set("a", MutE(WInt, I(10))), Set("b", MutE(WInt, I(20))), Set("outer", MutE(WMut(WInt), V("a"))),
           FnDecl("swap", <<>>, WInt, <<Asg("=", V("outer"), V("b")), Ret(I(2))>>),
           Set("y", Asg(op, Deref(V("outer")), CallE(V("swap"), <<>>))),
           TupE(<<Deref(V("a")), Deref(V("b")), V("y")>>)>>
    [] route = "struct-field" ->
         <<Set("a", MutE(WInt, I(10))), Set("b", MutE(WInt, I(20))), Set("sel", MutE(WInt, I(0))),
           FnDecl("pick", <<>>, WMut(WInt), <<If1(Bin("==", Deref(V("sel")), I(0)), Ret(V("a"))), Ret(V("b"))>>),
           FnDecl("flip", <<>>, WInt, <<Asg("=", V("sel"), I(1)), Ret(I(2))>>),
           Set("y", Asg(op, CallE(V("pick"), <<>>), CallE(V("flip"), <<>>))),
           TupE(<<Deref(V("a")), Deref(V("b")), V("y")>>)>>
ApplyBinOrSet(op, a, b) == IF op = "=" THEN b ELSE ApplyBin(SubSeq(op, 1, Len(op) - 1), a, b)
LhsSeq == SetToSeq({<<rt, o>> : rt \in {"index", "cell-of-cells", "struct-field"}, o \in 1..Len(AllAsgOps)})
LhsOut(i) == Outcome(Run(LhsMoves(LhsSeq[i][1], AllAsgOps[LhsSeq[i][2]]), 2000))
LhsLaw == \A i \in 1..Len(LhsSeq) :
  LET o == LhsOut(i) IN
  \/ (o.status = "value" /\ o.v.es[2] = IntV(20) /\ o.v.es[1] = o.v.es[3]
        /\ o.v.es[1] = ApplyBinOrSet(AllAsgOps[LhsSeq[i][2]], IntV(10), IntV(2)))
  \/ (PrintT(<<"LHSLAW", LhsSeq[i], o>>) /\ FALSE)

\* A block is a scope however short it is: a cell declared in a block - also when the declaration is the block's ONLY
\* statement - does not replace the enclosing binding; writes through the outer name after the block reach the outer cell
\* and all its aliases.
BlockShadow(k) ==
  LET decl == CASE k \in {"block", "if", "else", "loop", "match"} -> <<Set("c", MutE(WInt, I(5)))>>
                [] k = "block-destruct" -> <<Destruct(<<"c", "z">>, TupE(<<MutE(WInt, I(5)), I(0)>>))>>
                [] k = "block-two" -> <<Set("c", MutE(WInt, I(5))), Asg("+=", V("c"), I(1))>>
                [] k = "block-string-cell" -> <<Set("c", MutE(WStr, S(<<115>>)))>>
      wrap == CASE k \in {"block", "block-destruct", "block-two", "block-string-cell"} -> <<Block(decl)>>
                [] k = "if" -> <<If(Hide(WBool, B(TRUE)), Block(decl), NoneV)>>
                [] k = "else" -> <<If(Hide(WBool, B(FALSE)), Block(<<Unit>>), Block(decl))>>
                [] k = "loop" -> <<Loop(Block(decl \o <<Break>>))>>
                [] k = "match" -> <<Match(Hide(WInt, I(1)), <<ArmTy("y", WInt, Block(decl))>>)>>
  IN <<Set("c", MutE(WInt, I(0))), Set("d", V("c"))>> \o wrap \o <<Asg("+=", V("c"), I(1)), TupE(<<Deref(V("c")), Deref(V("d"))>>)>>
BlockShadowSeq == <<"block", "block-destruct", "block-two", "block-string-cell", "if", "else", "loop", "match">>
BlockShadowOut(i) == Outcome(Run(BlockShadow(BlockShadowSeq[i]), 2000))
BlockShadowLaw == \A i \in 1..Len(BlockShadowSeq) :
  \/ (BlockShadowOut(i).status = "value" /\ BlockShadowOut(i).v = TupV(<<IntV(1), IntV(1)>>))
  \/ (PrintT(<<"BLOCKSHADOWLAW", BlockShadowSeq[i], BlockShadowOut(i)>>) /\ FALSE)

\* An assignment nested in an operand takes effect whatever the surrounding operator makes of its value: `(c += 1) * 0' is 0
\* AND c was incremented - with the zero a literal, hidden, or a captured parameter of a closure made for it.
NestedAsg(k) ==
  CASE k = "times-literal-zero" -> <<Set("c", MutE(WInt, I(10))), Set("d", V("c")), Set("y", Bin("*", Asg("+=", V("c"), I(1)), I(0))), TupE(<<V("y"), Deref(V("c")), Deref(V("d"))>>)>>
    [] k = "zero-times" -> <<Set("c", MutE(WInt, I(10))), Set("d", V("c")), Set("y", Bin("*", I(0), Asg("=", V("c"), I(11)))), TupE(<<V("y"), Deref(V("c")), Deref(V("d"))>>)>>
    [] k = "and-zero" -> <<Set("c", MutE(WInt, I(10))), Set("d", V("c")), Set("y", Bin("&", Asg("+=", V("c"), I(1)), I(0))), TupE(<<V("y"), Deref(V("c")), Deref(V("d"))>>)>>
    [] k = "times-hidden-zero" -> <<Set("c", MutE(WInt, I(10))), Set("d", V("c")), Set("y", Bin("*", Asg("+=", V("c"), I(1)), Hide(WInt, I(0)))), TupE(<<V("y"), Deref(V("c")), Deref(V("d"))>>)>>
    [] k = "captured-factor" ->
         <<Set("c", MutE(WInt, I(9))), Set("d", V("c")),
           FnDecl("scaled", <<P("k", WInt)>>, WFn(<<>>, WInt), <<Ret(FnE(<<>>, WInt, <<Ret(Bin("*", Asg("+=", V("c"), I(1)), V("k")))>>))>>),
           Set("a", CallE(CallE(V("scaled"), <<Hide(WInt, I(2))>>), <<>>)), Set("y", CallE(CallE(V("scaled"), <<Hide(WInt, I(0))>>), <<>>)),
           TupE(<<V("y"), Deref(V("c")), Deref(V("d"))>>)>>
NestedAsgSeq == <<"times-literal-zero", "zero-times", "and-zero", "times-hidden-zero", "captured-factor">>
NestedAsgOut(i) == Outcome(Run(NestedAsg(NestedAsgSeq[i]), 2000))
NestedAsgLaw == \A i \in 1..Len(NestedAsgSeq) :
  \/ (NestedAsgOut(i).status = "value" /\ NestedAsgOut(i).v = TupV(<<IntV(0), IntV(11), IntV(11)>>))
  \/ (PrintT(<<"NESTEDASGLAW", NestedAsgSeq[i], NestedAsgOut(i)>>) /\ FALSE)

WatchNames == <<"c", "other", "s0", "y1", "s1", "y2", "s2">>
HSeq == SetToSeq(Hists)
N == Len(HSeq)
Fuel == 1000
RunOf(i) == Run(Prog(HSeq[i]), Fuel)
Out(i) == Outcome(RunOf(i))
W(i) == Watch(RunOf(i), WatchNames)

Val(w, name) == LET is == {j \in 1..Len(w) : w[j].n = name} IN w[CHOOSE j \in is : TRUE].v

\* Laws
NoStuck == row > 0 => (Out(row).status \in {"value", "error", "inconclusive"} \/ (PrintT(<<"STUCK", HSeq[row], Out(row)>>) /\ FALSE))
AliasesAgree == row > 0 =>
  LET w == W(row) IN
  \A nm \in {"s0", "s1", "s2"} :
     LET s == Val(w, nm) IN
     s # NoneV => (\A j \in 1..7 : s.es[j] = s.es[1]) /\ s.es[8] = Val(w, "s0").es[8]   \* `other' never changes
CellTyped == row > 0 => CellsTyped(RunOf(row).st)
AssignYieldsStored == row > 0 =>
  LET w == W(row) IN
  /\ (Val(w, "y1") # NoneV /\ Val(w, "s1") # NoneV) => Val(w, "y1") = Val(w, "s1").es[1]
  /\ (Val(w, "y2") # NoneV /\ Val(w, "s2") # NoneV) => Val(w, "y2") = Val(w, "s2").es[1]
FailureLeavesContent == row > 0 =>
  LET w == W(row)  o == Out(row) IN
  o.status = "error" =>
     LET last == IF Val(w, "s1") # NoneV THEN Val(w, "s1") ELSE Val(w, "s0") IN
     Val(w, "c").c = last.es[1]

Init == row = 0
Next == \/ row = 0 /\ row' \in {-c : c \in 1..Chunks}
        \/ row < 0 /\ row' \in {i \in 1..N : i % Chunks = (-row) % Chunks}
Spec == Init /\ [][Next]_row

Emit ==
  /\ TLCGet("stats").distinct > 0
  /\ ndJsonSerialize(IOEnv.VERIF_OUT \o "/c13_cases.ndjson",
        [i \in 1..N |-> [id |-> "c13-" \o ToString(i), suite |-> "c13", prog |-> Prog(HSeq[i]), exp |-> Out(i),
                         watch |-> W(i)]]
        \o [i \in 1..Len(FreshSeq) |-> [id |-> "c13-fresh-" \o FreshSeq[i].shape \o (IF FreshSeq[i].u THEN "-untyped-" ELSE "-typed-") \o FreshSeq[i].ik,
                                        suite |-> "c13", prog |-> FreshProg(FreshSeq[i].shape, FreshSeq[i].u, FreshSeq[i].ik),
                                        exp |-> FreshOut(i), watch |-> <<>>]]
        \o [i \in 1..Len(RhsSeq) |-> [id |-> "c13-rhs-writes-" \o RhsSeq[i][1] \o "-" \o ToString(RhsSeq[i][2]), suite |-> "c13",
                                      prog |-> RhsWrites(RhsSeq[i][1], RhsOps[RhsSeq[i][2]]), exp |-> RhsOut(i), watch |-> <<>>]]
        \o [i \in 1..Len(WideSeq) |-> [id |-> "c13-untyped-wide-" \o WideSeq[i], suite |-> "c13", prog |-> WideProg(WideSeq[i]),
                                       exp |-> WideOut(i), watch |-> <<>>,
                                       \* the untyped cell takes the STATIC type of its initial value: with the operand
                                       \* visible that type is narrower and the program is another program
                                       notwin |-> TRUE]]
        \o [i \in 1..Len(SelfSeq) |-> [id |-> "c13-self-holding-" \o SelfSeq[i], suite |-> "c13", prog |-> SelfProg(SelfSeq[i]),
                                       exp |-> SelfOut(i), watch |-> <<>>]]
        \o [i \in 1..Len(LhsSeq) |-> [id |-> "c13-target-before-value-" \o LhsSeq[i][1] \o "-" \o ToString(LhsSeq[i][2]), suite |-> "c13",
                                      prog |-> LhsMoves(LhsSeq[i][1], AllAsgOps[LhsSeq[i][2]]), exp |-> LhsOut(i), watch |-> <<>>]]
        \o [i \in 1..Len(BlockShadowSeq) |-> [id |-> "c13-cell-declared-in-" \o BlockShadowSeq[i], suite |-> "c13",
                                      prog |-> BlockShadow(BlockShadowSeq[i]), exp |-> BlockShadowOut(i), watch |-> <<>>]]
        \o [i \in 1..Len(NestedAsgSeq) |-> [id |-> "c13-assignment-nested-in-" \o NestedAsgSeq[i], suite |-> "c13",
                                      prog |-> NestedAsg(NestedAsgSeq[i]), exp |-> NestedAsgOut(i), watch |-> <<>>]])
  /\ FreshCells /\ RhsLaw /\ WideLaw /\ SelfLaw /\ LhsLaw /\ BlockShadowLaw /\ NestedAsgLaw
  /\ ndJsonSerialize(IOEnv.VERIF_OUT \o "/c13_neg_cases.ndjson",
        [i \in 1..Len(NegSeq) |-> [id |-> "c13-neg-" \o ToString(i), suite |-> "c13", negative |-> TRUE,
                                   prog |-> NegProg(NegSeq[i].n, NegSeq[i].al),
                                   exp |-> [status |-> "rejected", v |-> VoidV, log |-> <<>>]]]
        \o [i \in 1..Len(WidenSeq) |-> LET w == WidenOf(WidenSeq[i][1]) IN
               [id |-> "c13-neg-widen-" \o ToString(WidenSeq[i][1]) \o "-" \o WidenSeq[i][2], suite |-> "c13", negative |-> TRUE,
                prog |-> WidenNeg(w[1], w[2], w[3], w[4], WidenSeq[i][2]),
                exp |-> [status |-> "rejected", v |-> VoidV, log |-> <<>>]]]
        \o [i \in 1..Len(UnionCellSeq) |-> [id |-> "c13-neg-union-of-cells-" \o UnionCellSeq[i], suite |-> "c13", negative |-> TRUE,
                prog |-> UnionCellNeg(UnionCellSeq[i]), exp |-> [status |-> "rejected", v |-> VoidV, log |-> <<>>]]])
  /\ PrintT(<<"CASES", N, Len(NegSeq)>>)
=============================================================================
