------------------------------- MODULE MC_Fs -------------------------------
(***************************************************************************)
(* Model-checking harness for Fs: TLC enumerates every sequence of at most  *)
(* Depth std.fs calls from each initial tree (the history is part of the    *)
(* state, so a TLC state is a behaviour prefix) and checks                  *)
(*   InvWellFormed     the tree is well formed after every call             *)
(*   InvFailNoChange   a failing call returned the error struct and left    *)
(*                     the tree as it was (remove_dir_all / create_dir_all  *)
(*                     are modelled entry by entry, so this is not by       *)
(*                     definition)                                          *)
(*   InvReturns        what is returned fits success / failure              *)
(*   InvLaws           write/read, create/remove, rename there and back,    *)
(*                     copy, idempotence of create_dir_all ... from every   *)
(*                     tree reached by fewer than Depth calls               *)
(* The POSTCONDITION writes the reachable transition graph (trees reached   *)
(* by fewer than Depth calls x every call: ok?, returned content, tree      *)
(* afterwards): the set of its paths of length <= Depth from the initial    *)
(* trees is exactly the set of behaviours TLC enumerated; the harness walks *)
(* those paths and replays each against the real file system.               *)
(*                                                                           *)
(* Outside the model, on purpose: copy_file(f, f).  std::fs::copy opens the *)
(* target with O_TRUNC before reading the source, so copying a file onto    *)
(* itself succeeds and leaves it EMPTY.  docs/stdlib.md says nothing about  *)
(* that case; C18's statement (result type / no raise) is not affected, so  *)
(* the call is not enumerated and the observation is reported separately.   *)
(***************************************************************************)
EXTENDS Fs, SequencesExt, Json, IOUtils

CONSTANTS Depth,       \* TLC enumerates every call sequence up to this length (history in the state)
          EmitDepth,   \* the emitted graph predicts every call sequence up to this length
          MoreInits    \* thorough tier: three more initial trees

VARIABLES ini, st, hist, lastok, prev
vars == <<ini, st, hist, lastok, prev>>

Root(ch) == DirN(FALSE, ch)
Inits == <<
  Root(<<>>),
  Root("p" :> FileN("a") @@ "q" :> FileN("b") @@ "d" :> DirN(FALSE, "x" :> FileN("c"))),
  Root("p" :> FileN(BadUtf8) @@ "d" :> EmptyDir),
  Root("p" :> EmptyDir @@ "q" :> FileN("b") @@ "d" :> DirN(FALSE, "x" :> EmptyDir)),
  Root("p" :> FileN("a") @@ "d" :> DirN(TRUE, "x" :> FileN("c"))),
  Root("q" :> FileN("b") @@ "d" :> DirN(TRUE, "x" :> EmptyDir)),
  Root("p" :> FileN("a") @@ "d" :> DirN(TRUE, <<>>)) >>
  \o (IF MoreInits THEN <<
  Root("p" :> DirN(FALSE, "x" :> FileN("a")) @@ "d" :> EmptyDir),
  Root("d" :> DirN(FALSE, "x" :> DirN(FALSE, "x" :> FileN("c"))) @@ "q" :> EmptyDir),
  Root("p" :> DirN(TRUE, "x" :> FileN("a")) @@ "d" :> EmptyDir @@ "q" :> FileN("b")) >> ELSE <<>>)

Init == /\ ini \in 1..Len(Inits) /\ st = Inits[ini] /\ hist = <<>> /\ lastok = TRUE /\ prev = Inits[ini]
Next == /\ Len(hist) < Depth
        /\ \E c \in Calls :
             LET r == Step(st, c) IN
             /\ st' = r.st /\ hist' = Append(hist, c) /\ lastok' = r.ok /\ prev' = st /\ ini' = ini
Spec == Init /\ [][Next]_vars

InvWellFormed == WellFormedNode(st, 8) /\ st.k = "dir" /\ ~st.ro
InvFailNoChange == ~lastok => st = prev
InvReturns == Len(hist) < Depth => \A c \in Calls :
   LET r == Step(st, c) IN
   /\ (r.ok => (IF c.f = "file_read_to_string" THEN r.ret \in Contents \ {BadUtf8} ELSE r.ret = "void"))
   /\ (~r.ok => r.ret = "err" /\ r.st = st)

Read(p) == Call1("file_read_to_string", p)
InvLaws == Len(hist) < Depth =>
  \A p \in ArgPaths :
    /\ LET r == Step(st, CallW(p, "w")) IN
         r.ok => Step(r.st, Read(p)) = Ok(r.st, "w") /\ Lookup(r.st, p) = FileN("w")
    /\ LET r == Step(st, Call1("create_dir", p)) IN
         r.ok => /\ Lookup(st, p) = Missing /\ Lookup(r.st, p) = EmptyDir
                 /\ Step(r.st, Call1("remove_dir", p)) = Ok(st, "void")
                 /\ ~Step(r.st, Call1("create_dir", p)).ok
    /\ LET r == Step(st, Call1("create_dir_all", p)) IN
         r.ok => Lookup(r.st, p).k = "dir" /\ Step(r.st, Call1("create_dir_all", p)) = Ok(r.st, "void")
    /\ LET r == Step(st, Call1("remove_file", p)) IN
         r.ok => Lookup(st, p).k = "file" /\ Lookup(r.st, p) = Missing /\ ~Step(r.st, Read(p)).ok
    /\ LET r == Step(st, Call1("remove_dir", p)) IN
         r.ok => Lookup(st, p).k = "dir" /\ Lookup(r.st, p) = Missing
    /\ LET r == Step(st, Call1("remove_dir_all", p)) IN
         r.ok => Lookup(st, p).k = "dir" /\ Lookup(r.st, p) = Missing
    /\ (Step(st, Read(p)).ok => Lookup(st, p).k = "file")
    /\ \A q \in ArgPaths :
         /\ p # q => LET r == Step(st, Call2("copy_file", p, q)) IN
                       r.ok => /\ Lookup(r.st, q) = Lookup(st, p) /\ Lookup(r.st, p) = Lookup(st, p)
                               /\ Lookup(st, p).k = "file"
         /\ LET r == Step(st, Call2("rename", p, q)) IN
              r.ok => /\ Lookup(st, p) # Missing
                      /\ Lookup(r.st, q) = Lookup(st, p)
                      /\ (p # q => Lookup(r.st, p) = Missing)
                      /\ (Lookup(st, q) = Missing => Step(r.st, Call2("rename", q, p)) = Ok(st, "void"))

(***************************************************************************)
(* Emission of the transition graph.                                        *)
(***************************************************************************)
RECURSIVE ReachN(_, _)
ReachN(S, n) == IF n = 0 THEN S ELSE ReachN(S \cup {Step(s, c).st : s \in S, c \in Calls}, n - 1)
InitSet == {Inits[i] : i \in 1..Len(Inits)}
Inner == SetToSeq(ReachN(InitSet, EmitDepth - 1))          \* trees from which a call is still made
CallSeq == SetToSeq(Calls)
PathText(path) == IF path = <<>> THEN "" ELSE IF Len(path) = 1 THEN path[1] ELSE path[1] \o "/" \o path[2]
Out == IOEnv.VERIF_OUT

Emit ==
  LET inner == Inner            \* bound once: TLC re-evaluates a recursive constant definition per use
      calls == CallSeq
  IN
  /\ TLCGet("stats").distinct > 0
  /\ ndJsonSerialize(Out \o "/fs_calls.ndjson",
        [i \in 1..Len(calls) |-> [i |-> i, f |-> calls[i].f, p |-> PathText(calls[i].p),
                                  q |-> PathText(calls[i].q), c |-> calls[i].c]])
  /\ ndJsonSerialize(Out \o "/fs_inits.ndjson", [i \in 1..Len(Inits) |-> [i |-> i, s |-> Flatten(Inits[i], "")]])
  /\ ndJsonSerialize(Out \o "/fs_graph.ndjson",
        [i \in 1..Len(inner) |->
           [s |-> Flatten(inner[i], ""),
            next |-> [j \in 1..Len(calls) |->
                        LET r == Step(inner[i], calls[j]) IN
                        IF r.ok THEN [ok |-> 1, ret |-> r.ret, t |-> Flatten(r.st, "")]
                        ELSE [ok |-> 0]]]])
  /\ PrintT(<<"FS", Len(Inits), Len(calls), Len(inner), Depth, EmitDepth>>)
=============================================================================
