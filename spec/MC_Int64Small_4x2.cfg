SPECIFICATION Spec
CONSTANTS
  N = 4
  B = 2
  Chunks = 16
INVARIANTS
  InvConst
  InvBool
  InvUnary
  InvBinary
  InvDiv
  InvShift
  InvPow
  InvTable
POSTCONDITION Done
CHECK_DEADLOCK FALSE
