------------------------------ MODULE MC_C17 ------------------------------
(***************************************************************************)
(* C17 — embedding API: REPL equals batch; exec is isolated and repeatable; *)
(* host calls accept exactly what in-language calls accept.                 *)
(*                                                                           *)
(* The API as a state machine over the abstract machine of Lang.tla:        *)
(*   interp : the host interpreter's top-level bindings (an environment)     *)
(*   heap   : cells and function values (Lang's st)                          *)
(*   pos    : how many statements of the session have been fed              *)
(*   last   : outcome of the last input                                      *)
(* Action Feed(k): parse the next k statements against `interp' and run     *)
(* them unscoped (what the REPL does with one input); the whole session fed  *)
(* at once is the batch route.  ReplEqualsBatch (invariant): whatever the    *)
(* split, after p statements the REPL state equals the batch run of the      *)
(* first p statements — same last result, same values of all top-level      *)
(* names — whenever both ran to completion.  The sessions are all sequences  *)
(* of <= MaxLen statements from a pool that exercises constants, hidden      *)
(* values, cells, closures, re-declaration, functions and failing inputs.    *)
(***************************************************************************)
EXTENDS LangAst, Json, IOUtils

CONSTANTS MaxLen, Chunks
VARIABLES sess, pos, interp, heap, last, cuts

H(n) == Hide(WInt, I(n))
Pool == <<
  Set("x", H(1)),
  Set("x", I(5)),
  Set("c", MutE(WInt, I(1))),
  Asg("=", V("c"), I(5)),
  Set("r", Deref(V("c"))),
  Asg("+=", V("c"), V("x")),
  Set("f", FnE(<<P("a", WInt)>>, WInt, <<Ret(Bin("+", V("a"), V("x")))>>)),
  FnDecl("g", <<>>, WInt, <<Ret(Bin("*", V("x"), Deref(V("c"))))>>),
  Set("x", Bin("+", V("x"), I(1))),
  Set("y", CallE(V("f"), <<V("x")>>)),
  CallE(V("g"), <<>>),
  Set("z", Bin("/", I(10), Bin("-", V("x"), I(1)))),
  Set("a", ArrE(<<V("x"), I(2)>>)),
  Destruct(<<"p", "q">>, TupE(<<V("x"), Deref(V("c"))>>)),
  \* a destructuring that re-binds a name another element of its own initialiser still reads
  Destruct(<<"x", "w">>, TupE(<<I(5), V("x")>>)),
  \* iterators: `~' makes a new cursor every time it is evaluated (second run of the same program, second round of a loop)
  Set("it", IterE(ArrE(<<I(1), I(2)>>))),
  Set("n", CollectE(V("it"))),
  Set("n", Block(<<Set("k", MutE(WInt, I(0))), Set("s", MutE(WInt, I(0))),
                   While(Bin("<", Deref(V("k")), I(2)), Block(<<Asg("+=", V("k"), I(1)), Asg("+=", V("s"), RedE("$+", "int", IterE(V("a"))))>>)),
                   Deref(V("s"))>>)),
  \* an array literal over a name whose static type is wider than its value: the array's element type is that of its
  \* VALUES whichever route built it (observed by a type test)
  Set("u", Hide(WMulti(<<WInt, WStr>>), I(5))),
  Set("ua", ArrE(<<V("u"), I(7)>>)),
  Set("tt", IfSet("qq", WArr(WInt), V("ua"), I(1), I(0))),
  \* the iterator operators are implemented by helper code with names of its own (`iterator', `default', ...): a user
  \* variable of such a name is not touched by evaluating an operator
  Set("default", H(7)),
  Set("ints", CollectE(TFilterE(IterE(ArrE(<<I(1), S(<<97>>), I(2)>>)), WInt))),
  Set("dd", V("default")),
  \* a left operand with an effect next to a right operand whose VALUE the incremental route knows
  Set("bf", Bin("<", Deref(V("c")), I(0))),
  Set("bb", AndE(Bin(">", Asg("+=", V("c"), I(1)), I(0)), V("bf"))),
  \* a declared function that WRITES a top-level cell: a second run of the same parsed program starts from fresh cells,
  \* and the function made by that run works on that run's cell
  FnDecl("inc", <<>>, WInt, <<Ret(Asg("+=", V("c"), I(1)))>>),
  CallE(V("inc"), <<>>),
  \* a type test whose pattern is WIDER than the tested value's own type (a union, any) on a name bound by an earlier input:
  \* the incremental route knows the value, the batch route the declared type; both must take the same branch
  Set("ts", IfSet("q2", WMulti(<<WInt, WStr>>), V("x"), I(1), I(0))),
  Set("ta", Match(V("x"), <<ArmTy("q3", WAny, I(1))>>)),
  \* two structs of equal content whose DECLARED types differ (a field initialised from a value of wider static type):
  \* comparing them by name gives the same answer on both routes
  Destruct(<<"sp", "sq">>, TupE(<<StructE(<< <<"v", Hide(WMulti(<<WInt, WFloat>>), I(1))>> >>), StructE(<< <<"v", I(1)>> >>)>>)),
  Set("se", TupE(<<Bin("==", V("sp"), V("sq")), Bin("!=", V("sp"), V("sq"))>>)),
  \* a parameter named like a struct the host interpreter already holds means the parameter (also when the declaration and
  \* its first use arrive in one input)
  Set("ps", StructE(<< <<"a", I(1)>> >>)),
  Set("rp", Block(<<FnDecl("getp", <<P("ps", WStruct(<< <<"a", WInt>> >>))>>, WInt, <<Ret(Field(V("ps"), "a"))>>),
                    Set("ps", StructE(<< <<"a", I(9)>> >>)),
                    Bin("+", CallE(V("getp"), <<StructE(<< <<"a", I(5)>> >>)>>), Field(V("ps"), "a"))>>)),
  \* a loop body that reads x and later declares its own x: every round — also after `continue' — starts afresh
  Set("lv", Block(<<Set("acc", MutE(WInt, I(0))), Set("k", MutE(WInt, I(0))),
                   Loop(Block(<<Asg("+=", V("k"), I(1)), If1(Bin(">", Deref(V("k")), I(3)), Break),
                                Asg("=", V("acc"), Bin("+", Bin("*", Deref(V("acc")), I(10)), V("x"))), Set("x", S(<<105>>)),
                                If1(Bin("==", Deref(V("k")), I(1)), ContinueS), Set("zz", I(0))>>)),
                   Deref(V("acc"))>>))
>>
\* a statement can only be fed when the names it uses are bound: sessions are generated freely and the
\* specification classifies ill-formed ones as "stuck" (unbound name) — those are expected to be rejected.
\* all sequences of up to three statements of the whole pool; with MaxLen = 4 (thorough tier) also all sequences of four
\* statements of the core pool (the first CoreLen statements: constants, hidden values, cells, closures, functions, a failing
\* input) - four statements of the whole pool would be 2.8 million sessions
CoreLen == 12
Sessions == UNION {[1..n -> 1..Len(Pool)] : n \in 1..(IF MaxLen < 3 THEN MaxLen ELSE 3)}
            \cup (IF MaxLen >= 4 THEN [1..4 -> 1..CoreLen] ELSE {})
SessSeq == SetToSeq(Sessions)

Stm(s, i) == Pool[s[i]]
Chunk(s, from, k) == [j \in 1..k |-> Stm(s, from + j - 1)]

EmptyHeap == InitSt(4000)

\* the batch route for the first p statements
Batch(s, p) == EvStmts([j \in 1..p |-> Stm(s, j)], InitEnv, EmptyHeap)

TopValues(env, st) ==
  LET names == {env[i].n : i \in 1..Len(env)} \ {"log"} IN
  [n \in names |-> Resolve(Lookup(env, n), st, 6)]
Completed(r) == r.sig = "ok"

Init == /\ sess \in 1..Len(SessSeq) /\ pos = 0 /\ interp = InitEnv /\ heap = EmptyHeap
        /\ last = [sig |-> "ok", v |-> VoidV] /\ cuts = <<>>

Feed(k) ==
  /\ last.sig = "ok"                       \* a failed input ends the comparison for this session
  /\ pos + k <= Len(SessSeq[sess])
  /\ LET r == EvStmts(Chunk(SessSeq[sess], pos + 1, k), interp, heap) IN
     /\ interp' = r.env /\ heap' = r.st /\ last' = [sig |-> r.sig, v |-> r.v]
  /\ pos' = pos + k /\ cuts' = Append(cuts, pos + k) /\ UNCHANGED sess
Next == \E k \in 1..MaxLen : Feed(k)
vars == <<sess, pos, interp, heap, last, cuts>>
Spec == Init /\ [][Next]_vars

ReplEqualsBatch ==
  LET b == Batch(SessSeq[sess], pos) IN
  (last.sig = "ok" /\ Completed(b) /\ pos > 0) =>
     /\ Resolve(last.v, heap, 6) = Resolve(b.v, b.st, 6)
     /\ TopValues(interp, heap) = TopValues(b.env, b.st)
\* if the REPL route failed, the batch route fails in the same way (the specification has no folding, so here
\* the two routes agree exactly; the implementation's REPL may reject earlier — not compared)
FailuresAgree ==
  LET b == Batch(SessSeq[sess], pos) IN
  last.sig # "ok" => (b.sig = last.sig /\ b.v = last.v)

\* ---------------------------------------------------------------- emission: one case per session
SessionCase(i) ==
  LET s == SessSeq[i]  n == Len(s) IN
  [id |-> "sess-" \o ToString(i),
   stmts |-> [j \in 1..n |-> Stm(s, j)],
   prefixes |-> [p \in 1..n |->
      LET b == Batch(s, p) IN
      [status |-> IF ~WellScoped([j \in 1..p |-> Stm(s, j)]) THEN "rejected"
                  ELSE Outcome([sig |-> b.sig, v |-> b.v, st |-> b.st]).status,
       v |-> IF b.sig = "ok" THEN Resolve(b.v, b.st, 6) ELSE b.v,
       vars |-> IF b.sig = "ok" THEN Watch(b, SetToSeq({b.env[q].n : q \in 1..Len(b.env)} \ {"log"})) ELSE <<>>]]]

\* ---------------------------------------------------------------- host calls
\* function values of the pool and argument vectors (values); the specification accepts a host call iff the
\* arity fits and every argument's run-time tag matches the parameter type
FnPool == <<
  [name |-> "inc", decl |-> FnDecl("inc", <<P("a", WInt)>>, WInt, <<Ret(Bin("+", V("a"), I(1)))>>)],
  [name |-> "sel", decl |-> FnDecl("sel", <<P("a", WMulti(<<WInt, WFloat>>)), P("b", WArr(WInt))>>, WInt,
                                   <<IfSet("n", WInt, V("a"), Ret(Bin("+", V("n"), I(Len(<<1>>)))), NoneV), Ret(I(-1))>>)],
  [name |-> "f", decl |-> FnDecl("f", <<P("f", WInt)>>, WInt, <<Ret(V("f"))>>)],
  [name |-> "anyp", decl |-> FnDecl("anyp", <<P("a", WAny)>>, WBool, <<Ret(Bin("==", V("a"), V("a")))>>)],
  [name |-> "nop", decl |-> FnDecl("nop", <<>>, WVoid, <<>>)],
  [name |-> "arrs", decl |-> FnDecl("arrs", <<P("a", WArr(WMulti(<<WInt, WFloat>>)))>>, WInt,
                                    <<Ret(RedE("$+", "int", TFilterE(IterE(V("a")), WInt)))>>)],
  [name |-> "strs", decl |-> FnDecl("strs", <<P("a", WArr(WStr))>>, WInt, <<Ret(I(1))>>)],
  [name |-> "ints", decl |-> FnDecl("ints", <<P("a", WArr(WInt))>>, WInt, <<Ret(I(1))>>)],
  [name |-> "pair", decl |-> FnDecl("pair", <<P("a", WTup(<<WArr(WStr), WInt>>))>>, WInt, <<Ret(I(1))>>)],
  [name |-> "nest", decl |-> FnDecl("nest", <<P("a", WArr(WArr(WInt)))>>, WInt, <<Ret(I(1))>>)],
  [name |-> "tups", decl |-> FnDecl("tups", <<P("a", WArr(WTup(<<WInt, WInt>>)))>>, WInt, <<Ret(I(1))>>)],
  [name |-> "rec", decl |-> FnDecl("rec", <<P("n", WInt)>>, WInt,
                                   <<If1(Bin("<", V("n"), I(1)), Ret(I(0))), Ret(Bin("+", V("n"), CallE(V("rec"), <<Bin("-", V("n"), I(1))>>)))>>)]
>>
IsIntP == FnE(<<P("e", WMulti(<<WInt, WStr>>))>>, WBool, <<Ret(IfSet("n", WInt, V("e"), B(TRUE), B(FALSE)))>>)
ArgPool == <<I(3), F(3), S(<<97>>), ArrE(<<>>), ArrE(<<I(1), I(2)>>), ArrE(<<I(1), F(3)>>), ArrE(<<S(<<97>>)>>), Unit, B(TRUE),
             \* values whose hidden element type says more than their contents
             RepE(I(1), I(0)), RepE(S(<<97>>), I(0)),
             TupAt(PartE(IterE(ArrE(<<I(1), S(<<120>>), I(2)>>)), IsIntP), 0),
             TupE(<<RepE(I(1), I(0)), I(2)>>),
             \* arrays of compound elements of ONE kind but different types (the narrower first)
             ArrE(<<ArrE(<<I(1)>>), ArrE(<<F(5)>>)>>), ArrE(<<ArrE(<<I(1)>>), ArrE(<<I(2)>>)>>),
             ArrE(<<TupE(<<I(1), I(2)>>), TupE(<<I(1), F(5)>>)>>), ArrE(<<TupE(<<I(1), I(2)>>), TupE(<<I(3), I(4)>>)>>)>>
ArgVectors == {<<>>} \cup {<<a>> : a \in 1..Len(ArgPool)} \cup {<<a, b>> : a \in {1, 2, 3}, b \in {1, 4, 5, 6, 7, 10, 12}}

HostCase(fi, av) ==
  LET fd == FnPool[fi]
      args == [j \in 1..Len(av) |-> ArgPool[av[j]]]
      \* evaluate: declare the function, build the argument values, then decide and call
      r0 == EvStmts(<<fd.decl>>, InitEnv, EmptyHeap)
      f == Lookup(r0.env, fd.name)
      ra == EvList(args, r0.env, r0.st)
      sig == ra.st.fns[f.id].sig
      accept == Len(av) = Len(sig.ps) /\ \A j \in 1..Len(av) : Matches(TagS(ra.v[j], ra.st), sig.ps[j])
      c == Call(f, ra.v, ra.st)
  IN [id |-> "host-" \o fd.name \o "-" \o ToString(av),
      decl |-> fd.decl, fname |-> fd.name, args |-> args,
      accept |-> accept,
      status |-> IF accept THEN Outcome([sig |-> c.sig, v |-> c.v, st |-> c.st]).status ELSE "rejected",
      v |-> IF accept /\ c.sig = "ok" THEN Resolve(c.v, c.st, 6) ELSE IF accept THEN c.v ELSE VoidV]
HostCases == {HostCase(fi, av) : fi \in 1..Len(FnPool), av \in ArgVectors}

\* accepted host calls never go wrong in the specification
HostCallsSound == \A hc \in HostCases : hc.status \in {"value", "error", "rejected", "inconclusive"}

Emit ==
  /\ TLCGet("stats").distinct > 0
  /\ ndJsonSerialize(IOEnv.VERIF_OUT \o "/c17_sessions.ndjson", [i \in 1..Len(SessSeq) |-> SessionCase(i)])
  /\ ndJsonSerialize(IOEnv.VERIF_OUT \o "/c17_hostcalls.ndjson", SetToSeq(HostCases))
  /\ HostCallsSound
  /\ PrintT(<<"CASES", Len(SessSeq), Cardinality(HostCases)>>)
=============================================================================
