---------------------------- MODULE Trace_Conc ----------------------------
(***************************************************************************)
(* Validation of histories recorded from the implementation (impl -> spec). *)
(* The harness (`vh conc record`) runs T OS threads on shared parsed code    *)
(* and shared cells and logs, merged by the global sequence number:          *)
(*   start  a call begins              (sequence number taken before)        *)
(*   write  hook event, emitted while the cell's write guard is held:        *)
(*          old content, operand, stored content (none = operator failed)    *)
(*   end    the call returned          (sequence number taken after)         *)
(*   fin    contents of the cells after all threads were joined              *)
(* One action per event kind; an event is accepted iff it is what Conc says: *)
(*   - the writes of a cell form a chain: `old` is the content left by the   *)
(*     previous write (the first: the initial content)          [val]        *)
(*   - `new` = Apply(op, old, rhs) with Conc's operator definitions; a       *)
(*     failing operator stores nothing                                       *)
(*   - a write lies between start and end of a call of the same thread with  *)
(*     the same cell, operator and operand; the call returns what its own    *)
(*     write stored (or the operator's error)                                *)
(*   - *c / render c return a content the cell had between start and end     *)
(*   - the final contents are those left by the last writes                  *)
(* Every history is validated on its own (one initial state per history).   *)
(***************************************************************************)
EXTENDS Conc, Json, IOUtils, SequencesExt

VARIABLES h, l, pend

Rec == ndJsonDeserialize(IOEnv.VERIF_IN)
Heads == SelectSeq(Rec, LAMBDA e : e.ev = "hist")
H == Len(Heads)
Only == IF "VERIF_ONLY" \in DOMAIN IOEnv THEN {atoi(IOEnv.VERIF_ONLY)} ELSE 1..H

tvars == <<vars, h, l, pend>>

TrThreads == 1..16
TrCells == {"c", "d"}
TrCellType == [x \in TrCells |-> "int"]
TrEmpty == {}

Idle == [st |-> "idle"]
E == Rec[l]
IsEvent(kind) == h > 0 /\ l <= Len(Rec) /\ E.ev = kind /\ E.h = h

\* Conc's variables that the trace does not use keep their initial (empty) values
Unused == UNCHANGED <<prog, init, pc, ph, holdW, waitW, readers, res, tmp, rnd, hist>>

TraceInit ==
  /\ h \in Only
  /\ l = Heads[h].at + 1
  /\ init = Heads[h].init
  /\ val = init
  /\ pend = [t \in Threads |-> Idle]
  /\ prog = <<>> /\ pc = <<>> /\ ph = <<>> /\ holdW = <<>> /\ waitW = <<>> /\ readers = <<>>
  /\ res = <<>> /\ tmp = <<>> /\ rnd = <<>> /\ hist = <<>>

\* the text a rendering of cell c gives when it reads content x: Conc's atomic render step
TextOf(c, x) ==
  LET p == <<<<Render(c)>>>>
      cf == [val |-> [val EXCEPT ![c] = x], pc |-> <<1>>, rs |-> <<NoRenderState>>, res |-> <<<<>>>>]
  IN AStep(p, cf, 1).res[1][1]

Start ==
  /\ IsEvent("start")
  /\ E.t \in Threads /\ E.c \in Cells
  /\ pend[E.t] = Idle
  /\ pend' = [pend EXCEPT ![E.t] = [st |-> "started", k |-> E.k, c |-> E.c, op |-> E.op, rhs |-> E.rhs,
                                    seen |-> {val[E.c]}]]
  /\ UNCHANGED val

\* the spec's Update with the logged arguments, and the logged result = the spec's
Write ==
  /\ IsEvent("write")
  /\ E.t \in Threads /\ E.c \in Cells
  /\ LET p == pend[E.t]
         r == Apply(E.op, E.old, E.rhs)
     IN /\ p.st = "started" /\ p.k = "asg"
        /\ p.c = E.c /\ p.op = E.op /\ p.rhs = E.rhs       \* the write belongs to the call in flight
        /\ E.old = val[E.c]                                \* chain: content left by the previous write
        /\ r.k \in {"int", "err"}
        /\ IF r.k = "err"
             THEN /\ E.new = None                          \* a failing operator stores nothing
                  /\ val' = val
                  /\ pend' = [pend EXCEPT ![E.t] = [st |-> "written", r |-> r]]
             ELSE /\ E.new = r
                  /\ val' = [val EXCEPT ![E.c] = r]
                  /\ pend' = [u \in Threads |->
                                IF u = E.t THEN [st |-> "written", r |-> OkVal(r)]
                                ELSE IF pend[u].st = "started" /\ pend[u].k # "asg" /\ pend[u].c = E.c
                                       THEN [pend[u] EXCEPT !.seen = @ \cup {r}]
                                ELSE pend[u]]

End ==
  /\ IsEvent("end")
  /\ E.t \in Threads
  /\ LET p == pend[E.t] IN
       \/ p.st = "written" /\ E.ret = p.r                                  \* returns what its own write stored
       \/ p.st = "started" /\ p.k = "deref" /\ E.ret.k = "val" /\ E.ret.v \in p.seen
       \/ p.st = "started" /\ p.k = "render" /\ E.ret.k = "text"
          /\ \E x \in p.seen : E.ret = TextOf(p.c, x)
  /\ pend' = [pend EXCEPT ![E.t] = Idle]
  /\ UNCHANGED val

Fin ==
  /\ IsEvent("fin")
  /\ \A t \in Threads : pend[t] = Idle
  /\ \A c \in Cells : E.final[c] = val[c]
  /\ PrintT(<<"HIST_OK", h>>)
  /\ UNCHANGED <<val, pend>>

Finished0 == h = 0 /\ UNCHANGED tvars

TraceNext ==
  \/ (Start \/ Write \/ End) /\ l' = l + 1 /\ h' = h /\ Unused
  \/ Fin /\ l' = l + 1 /\ h' = 0 /\ Unused
  \/ Finished0

TraceSpec == TraceInit /\ [][TraceNext]_tvars

\* every line of the file was matched: one state per event, plus one initial state per history
TraceAccepted ==
  /\ PrintT(<<"TRACE", TLCGet("stats").distinct, Len(Rec), H>>)
  /\ ("VERIF_ONLY" \notin DOMAIN IOEnv) => TLCGet("stats").distinct = Len(Rec)
=============================================================================
