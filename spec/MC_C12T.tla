------------------------------ MODULE MC_C12T ------------------------------
(***************************************************************************)
(* C12, second suite — run-time type tests: `if y: T = e', `while y: T = e' *)
(* and type arms of `match' run their body exactly when the RUN-TIME type   *)
(* of e matches T.  Grid: test type T x value (scalars, arrays with every   *)
(* kind of hidden element tag, tuples of different arity, structs of        *)
(* different width, nested, functions, cells) x construct; the value        *)
(* reaches the test through an `any' parameter so that nothing is known     *)
(* statically.  The same function value is also called repeatedly with a    *)
(* HISTORY of values (the same instruction sees different run-time types in *)
(* sequence), forwards and backwards.                                       *)
(* TypeTestLaw (on the specification): the machine's answer equals          *)
(* Types!Matches(TagOf(value), T) computed directly.                        *)
(***************************************************************************)
EXTENDS LangAst, Json, IOUtils

CONSTANT Chunks
VARIABLE row

IF_ == WMulti(<<WInt, WFloat>>)
StA == WStruct(<< <<"a", WInt>> >>)
StAB == WStruct(<< <<"a", WInt>>, <<"b", WInt>> >>)
TestTypes == <<WInt, WFloat, IF_, WStr, WVoid, WBool, WAny,
               WArr(WInt), WArr(WFloat), WArr(IF_), WArr(WAny), WArr(WNever), WArr(WArr(WInt)),
               WTup(<<WInt, WInt>>), WTup(<<WInt, WInt, WInt>>), WTup(<<WInt, WAny>>), WTup(<<WAny, WAny>>),
               WMulti(<<WTup(<<WInt, WInt>>), WTup(<<WInt, WInt, WInt>>)>>),
               StA, StAB, WStruct(<<>>), WFn(<<>>, WInt), WFn(<<WInt>>, WInt), WMut(WInt), WMut(IF_),
               WMulti(<<WInt, WArr(WInt)>>), WTup(<<WArr(WInt), WInt>>)>>

\* value expressions (evaluated at top level, then passed through `any')
Vals == <<I(1), I(2), F(5), S(<<115>>), S(<<116>>), Unit, B(TRUE),
          ArrE(<<I(1)>>), ArrE(<<F(5)>>), ArrE(<<I(1), F(5)>>), ArrE(<<>>), ArrE(<<S(<<115>>)>>), ArrE(<<ArrE(<<I(1)>>)>>),
          Slice(Hide(WArr(IF_), ArrE(<<I(1), F(5)>>)), I(0), I(1), NoneV),      \* content int, fresh tag int
          Hide(WArr(IF_), ArrE(<<I(1)>>)),                                       \* literal tag int passed as [int|float]
          Bin("+", ArrE(<<I(1)>>), ArrE(<<F(5)>>)),                              \* tag int|float
          Bin("+", Hide(WArr(WInt), ArrE(<<I(1)>>)), Hide(WArr(IF_), ArrE(<<I(2), F(5)>>))),   \* left tag narrower than right
          Bin("+", Hide(WArr(IF_), ArrE(<<I(2), F(5)>>)), Hide(WArr(WInt), ArrE(<<I(1)>>))),
          RepE(I(7), I(0)),                                                       \* empty, tag int
          TupE(<<I(1), I(2)>>), TupE(<<I(1), I(2), I(3)>>), TupE(<<I(1), S(<<115>>)>>), TupE(<<I(1), F(5)>>),
          TupE(<<ArrE(<<I(1)>>), I(2)>>), TupE(<<ArrE(<<>>), I(2)>>),
          StructE(<< <<"a", I(1)>> >>), StructE(<< <<"a", I(1)>>, <<"b", I(2)>> >>), StructE(<<>>), StructE(<< <<"a", F(5)>> >>),
          FnE(<<>>, WInt, <<Ret(I(1))>>), FnE(<<P("q", WInt)>>, WInt, <<Ret(V("q"))>>), FnE(<<P("q", WAny)>>, WInt, <<Ret(I(1))>>),
          MutE(WInt, I(1)), MutE(IF_, I(1))>>
NV == Len(Vals)
\* the static type of each value expression: the typed forms pass the value through a parameter of exactly this type
\* (or this type | ()), so that the checker KNOWS a lot about the scrutinee and may decide tests early — it must
\* decide them the way the run-time test does (a struct with more fields matches a narrower struct type, ...)
ValTy == <<WInt, WInt, WFloat, WStr, WStr, WVoid, WBool,
           WArr(WInt), WArr(WFloat), WArr(IF_), WArr(WNever), WArr(WStr), WArr(WArr(WInt)),
           WArr(IF_), WArr(IF_), WArr(IF_), WArr(IF_), WArr(IF_), WArr(WInt),
           WTup(<<WInt, WInt>>), WTup(<<WInt, WInt, WInt>>), WTup(<<WInt, WStr>>), WTup(<<WInt, WFloat>>),
           WTup(<<WArr(WInt), WInt>>), WTup(<<WArr(WNever), WInt>>),
           StA, StAB, WStruct(<<>>), WStruct(<< <<"a", WFloat>> >>),
           WFn(<<>>, WInt), WFn(<<WInt>>, WInt), WFn(<<WAny>>, WInt), WMut(WInt), WMut(IF_)>>
ASSUME Len(ValTy) = NV

Test(form, ty) ==
  CASE form = "ifset" -> FnDecl("tst", <<P("v", WAny)>>, WInt, <<IfSet("y", ty, V("v"), Ret(I(1)), NoneV), Ret(I(0))>>)
    [] form = "match" -> FnDecl("tst", <<P("v", WAny)>>, WInt, <<Match(V("v"), <<ArmTy("y", ty, Ret(I(1))), ArmOther(Ret(I(0)))>>), Ret(I(2))>>)
    [] form = "match-after-value" ->
         FnDecl("tst", <<P("v", WAny)>>, WInt, <<Match(V("v"), <<ArmVal(<<I(1), S(<<115>>)>>, Ret(I(3))), ArmTy("y", ty, Ret(I(1))), ArmOther(Ret(I(0)))>>), Ret(I(2))>>)
    [] form = "whileset" ->
         FnDecl("tst", <<P("v", WAny)>>, WInt,
                <<Set("n", MutE(WInt, I(0))),
                  WhileSet("y", ty, V("v"), Block(<<Asg("+=", V("n"), I(1)), If1(Bin(">", Deref(V("n")), I(0)), Break)>>)),
                  Ret(Deref(V("n")))>>)
Forms == <<"ifset", "match", "match-after-value", "whileset", "ifset-typed", "match-typed", "ifset-typedu">>
IsTyped(form) == form \in {"ifset-typed", "match-typed", "ifset-typedu"}
TypedTest(form, ty, i) ==
  LET pt == IF form = "ifset-typedu" THEN WMulti(<<ValTy[i], WVoid>>) ELSE ValTy[i]
      nm == "tst" \o ToString(i) IN
  IF form = "match-typed"
  THEN FnDecl(nm, <<P("v", pt)>>, WInt, <<Match(V("v"), <<ArmTy("y", ty, Ret(I(1))), ArmOther(Ret(I(0)))>>), Ret(I(2))>>)
  ELSE FnDecl(nm, <<P("v", pt)>>, WInt, <<IfSet("y", ty, V("v"), Ret(I(1)), NoneV), Ret(I(0))>>)

Bindings == [i \in 1..NV |-> Set("v" \o ToString(i), Vals[i])]
\* forwards, then backwards: the same test instruction sees every run-time type after every other one
Order == [i \in 1..NV |-> i] \o [i \in 1..NV |-> NV + 1 - i]
Prog(form, ty) ==
  IF IsTyped(form)
  THEN Bindings \o [i \in 1..NV |-> TypedTest(form, ty, i)]
       \o <<TupE([j \in 1..Len(Order) |-> CallE(V("tst" \o ToString(Order[j])), <<V("v" \o ToString(Order[j]))>>)])>>
  ELSE
  Bindings \o <<Test(form, ty)>> \o <<TupE([j \in 1..Len(Order) |-> CallE(V("tst"), <<V("v" \o ToString(Order[j]))>>)])>>

Cases == [i \in 1..(Len(Forms) * Len(TestTypes)) |->
            [form |-> Forms[((i - 1) \div Len(TestTypes)) + 1], ty |-> TestTypes[((i - 1) % Len(TestTypes)) + 1]]]
N == Len(Cases)
Fuel == 4000
RunOf(i) == Run(Prog(Cases[i].form, Cases[i].ty), Fuel)
Out(i) == Outcome(RunOf(i))

\* the law: answer j = 1 iff the run-time tag of value Order[j] matches the test type (value arms first where present)
Expected(i, r, j) ==
  LET v == Lookup(r.env, "v" \o ToString(Order[j]))
      hit == Matches(TagS(v, r.st), Unwire(Cases[i].ty))
      byValue == Cases[i].form = "match-after-value" /\ (ValEq(v, IntV(1)) \/ ValEq(v, StrV(<<115>>)))
  IN IF byValue THEN 3 ELSE IF hit THEN 1 ELSE 0
TypeTestLaw == row > 0 =>
  LET r == RunOf(row)  o == Outcome(r) IN
  \/ (o.status = "value" /\ \A j \in 1..Len(Order) : o.v.es[j].v = Expected(row, r, j))
  \/ (PrintT(<<"TYPETEST", Cases[row], o>>) /\ FALSE)

Init == row = 0
Next == \/ row = 0 /\ row' \in {-c : c \in 1..Chunks}
        \/ row < 0 /\ row' \in {i \in 1..N : i % Chunks = (-row) % Chunks}
Spec == Init /\ [][Next]_row

Emit ==
  /\ TLCGet("stats").distinct > 0
  /\ ndJsonSerialize(IOEnv.VERIF_OUT \o "/c12t_cases.ndjson",
        [i \in 1..N |-> [id |-> "c12t-" \o Cases[i].form \o "-" \o ToString(i), suite |-> "c12t",
                         prog |-> Prog(Cases[i].form, Cases[i].ty), exp |-> Out(i)]])
  /\ PrintT(<<"CASES", N, NV>>)
=============================================================================
